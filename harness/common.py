"""Shared machinery of every ./check run: regenerate -> build -> audit -> correspondence
-> (search) -> evidence.  Runs under /venv/bin/python (numpy + /repo importable)."""
import fcntl
import hashlib
import json
import os
import random
import re
import subprocess
import sys
import time
from fractions import Fraction

VERIF = os.path.dirname(os.path.dirname(os.path.abspath(__file__)))
LEAN = os.path.join(VERIF, "lean")
REPO = os.environ.get("PMS_REPO", "/repo")
DRIVER = os.path.join(LEAN, ".lake", "build", "bin", "pmsdriver")
ALLOWED_AXIOMS = {"propext", "Classical.choice", "Quot.sound"}
FORBIDDEN = re.compile(r"\bsorry\b|\badmit\b|^\s*axiom\s|native_decide|bv_decide|implemented_by|\bunsafe\s|maxHeartbeats\s+0")

os.environ.setdefault("PYMATTERSIM_VERIF", "1")
os.environ.setdefault("OMP_NUM_THREADS", "1")
os.environ.setdefault("OPENBLAS_NUM_THREADS", "1")
if REPO not in sys.path:
    sys.path.insert(0, REPO)


def poison_uninitialised_memory():
    """`np.empty` / `np.empty_like` promise nothing about the contents of what they return; on a quiet heap fresh pages happen to be
    zero, which hides a routine that reads (or returns) entries it never wrote.  In the harness process every such array is handed out
    filled with NaN (floats, complex), a large odd value (integers) or True (bool): a legal behaviour of numpy under which a result that
    depends on uninitialised memory is wrong deterministically instead of occasionally.  PMS_NO_POISON=1 switches it off."""
    if os.environ.get("PMS_NO_POISON") == "1":
        return
    import numpy as np
    if getattr(np, "_pms_poisoned", False):
        return
    _empty, _empty_like = np.empty, np.empty_like
    count = [0]

    def fill(a):
        try:
            if isinstance(a, np.ndarray) and a.size:
                k = a.dtype.kind
                count[0] += 1
                # what is handed out changes from call to call (NaN, then large finite values), as recycled heap memory does:
                # two identical calls of a routine that returns entries it never wrote do not agree
                junk = np.nan if count[0] % 2 else float(count[0] % 89 + 1) * 1.0e150
                if k == "f":
                    a.fill(junk if a.dtype.itemsize >= 8 else np.nan)
                elif k == "c":
                    a.fill(complex(junk, junk) if a.dtype.itemsize >= 16 else complex(np.nan, np.nan))
                elif k in "iu":
                    a.fill(np.iinfo(a.dtype).max // 3 - (count[0] % 89))
                elif k == "b":
                    a.fill(True)
        except Exception:      # noqa: BLE001 — exotic dtypes are left as numpy returned them
            pass
        return a

    def empty(*a, **k):
        return fill(_empty(*a, **k))

    def empty_like(*a, **k):
        return fill(_empty_like(*a, **k))
    empty.__doc__, empty_like.__doc__ = _empty.__doc__, _empty_like.__doc__
    np.empty, np.empty_like = empty, empty_like
    np._pms_poisoned = True


poison_uninitialised_memory()


def snapshots_in_other_layouts():
    """every `SingleSnapshot` built in the harness process (by a harness or by the library's own readers) holds its positions in one of
    the memory layouts of `guise` (C order, Fortran order, reversed axes, strided view) — same numbers, chosen from the contents.
    Nothing in the library may depend on the strides of a position array.  PMS_NO_GUISE=1 switches it off."""
    if os.environ.get("PMS_NO_GUISE") == "1":
        return
    try:
        from PyMatterSim.reader import reader_utils as ru
    except Exception:          # noqa: BLE001 — the package does not import on this tree: the checks will say so
        return
    base = ru.SingleSnapshot
    if getattr(base, "_pms_guise", False):
        return
    import dataclasses
    names = [f.name for f in dataclasses.fields(base)]

    class SingleSnapshot(base):
        _pms_guise = True

        def __init__(self, *a, **k):
            vals = dict(zip(names, a))
            vals.update(k)
            if "positions" in vals:
                try:
                    import numpy as np
                    if isinstance(vals["positions"], np.ndarray) and vals["positions"].ndim == 2:
                        vals["positions"] = guise(vals["positions"], "snapshot")
                except Exception:      # noqa: BLE001
                    pass
            base.__init__(self, **vals)
    SingleSnapshot.__name__ = base.__name__
    SingleSnapshot.__qualname__ = base.__qualname__
    SingleSnapshot.__module__ = base.__module__
    ru.SingleSnapshot = SingleSnapshot
    for modname, mod in list(sys.modules.items()):
        if modname.startswith("PyMatterSim.") and getattr(mod, "SingleSnapshot", None) is base:
            mod.SingleSnapshot = SingleSnapshot


class Infra(Exception):
    """infrastructure trouble: exit 2, never a VIOLATION"""


def sha(text):
    if isinstance(text, str):
        text = text.encode()
    return hashlib.sha256(text).hexdigest()[:16]


def repo_state():
    try:
        head = subprocess.run(["git", "-C", REPO, "rev-parse", "HEAD"], capture_output=True, text=True).stdout.strip()
        dirty = subprocess.run(["git", "-C", REPO, "status", "--porcelain", "--untracked-files=no"],
                               capture_output=True, text=True).stdout.strip()
        return {"head": head, "dirty_files": [l[3:] for l in dirty.splitlines()]}
    except Exception as e:  # pragma: no cover
        return {"error": str(e)}


# ----------------------------------------------------------------------------- lake

class LakeLock:
    def __enter__(self):
        os.makedirs(os.path.join(LEAN, ".lake"), exist_ok=True)
        self.f = open(os.path.join(LEAN, ".lake", "verif.lock"), "w")
        fcntl.flock(self.f, fcntl.LOCK_EX)
        return self

    def __exit__(self, *a):
        fcntl.flock(self.f, fcntl.LOCK_UN)
        self.f.close()


def write_if_changed(path, text):
    old = None
    if os.path.exists(path):
        with open(path) as f:
            old = f.read()
    if old != text:
        os.makedirs(os.path.dirname(path), exist_ok=True)
        with open(path, "w") as f:
            f.write(text)
        return True
    return False


def regen_driver():
    """Driver.lean is generated from the `-- DRIVER:` headers of Pms/Model/*Driver.lean"""
    sys.path.insert(0, os.path.join(VERIF, "tools"))
    import mkdrivers
    write_if_changed(os.path.join(LEAN, "Driver.lean"), mkdrivers.render(LEAN))


def lake_build(targets, timeout=3000):
    """returns (ok, log).  Caller holds the lock."""
    t0 = time.time()
    regen_driver()
    try:
        p = subprocess.run(["lake", "build"] + list(targets), cwd=LEAN, capture_output=True, text=True, timeout=timeout)
    except subprocess.TimeoutExpired:
        raise Infra("lake build timed out")
    except FileNotFoundError:
        raise Infra("lake not found")
    log = p.stdout + p.stderr
    return p.returncode == 0, log, time.time() - t0


ERR_RE = re.compile(r"^error: (?:\./)?(Pms/[\w/]+\.lean|Driver\.lean):(\d+):(\d+): (.*)$", re.M)
THM_RE = re.compile(r"^\s*(?:protected\s+|private\s+)?theorem\s+([\w.']+)", re.M)


def theorems_of(relpath):
    """(name, line) for every theorem declared in a Lean file, with its namespace prefix."""
    path = os.path.join(LEAN, relpath)
    out = []
    ns = []
    with open(path) as f:
        for i, line in enumerate(f, 1):
            m = re.match(r"^namespace\s+([\w.]+)", line)
            if m:
                ns.append(m.group(1))
                continue
            m = re.match(r"^end\s+([\w.]+)", line)
            if m and ns and ns[-1] == m.group(1):
                ns.pop()
                continue
            m = re.match(r"^\s*(?:protected\s+|private\s+)?theorem\s+([\w.']+)", line)
            if m:
                out.append((".".join(ns + [m.group(1)]), i))
    return out


def failed_decls(log):
    """map lean error positions to the enclosing theorem/def"""
    res = []
    for m in ERR_RE.finditer(log):
        rel, line, msg = m.group(1), int(m.group(2)), m.group(4)
        name = None
        try:
            with open(os.path.join(LEAN, rel)) as f:
                lines = f.readlines()
            for j in range(min(line, len(lines)) - 1, -1, -1):
                mm = re.match(r"^\s*(?:protected\s+|private\s+)?(?:theorem|def|lemma|example|instance|abbrev)\s*([\w.']*)", lines[j])
                if mm:
                    name = mm.group(1) or "example"
                    break
        except OSError:
            pass
        res.append({"file": rel, "line": line, "decl": name, "msg": msg[:300]})
    return res


def run_audit(prop, props_files):
    """generate Pms/Audit/<prop>.lean from the theorem names in the Props files, elaborate it,
    return {theorem: [axioms]} ; caller holds the lock"""
    names = []
    for rel in props_files:
        names += [n for n, _ in theorems_of(rel)]
    mods = [rel[:-5].replace("/", ".") for rel in props_files]
    text = "".join(f"import {m}\n" for m in mods) + "\n" + "".join(f"#print axioms {n}\n" for n in names)
    rel = f"Pms/Audit/{prop}.lean"
    write_if_changed(os.path.join(LEAN, rel), text)
    try:
        p = subprocess.run(["lake", "env", "lean", rel], cwd=LEAN, capture_output=True, text=True, timeout=1200)
    except subprocess.TimeoutExpired:
        raise Infra("audit timed out")
    out = p.stdout + p.stderr
    res = {}
    # "'Name' depends on axioms: [a, b]" or "'Name' does not depend on any axioms"
    for m in re.finditer(r"'([^']+)' depends on axioms: \[([^\]]*)\]", out, re.S):
        res[m.group(1)] = [a.strip() for a in m.group(2).replace("\n", " ").split(",") if a.strip()]
    for m in re.finditer(r"'([^']+)' does not depend on any axioms", out):
        res[m.group(1)] = []
    return names, res, out if p.returncode != 0 else ""


def scan_sources():
    """forbidden constructs outside comments anywhere in the Lean sources"""
    hits = []
    for root, _, files in os.walk(LEAN):
        if ".lake" in root:
            continue
        for fn in files:
            if not fn.endswith(".lean"):
                continue
            path = os.path.join(root, fn)
            with open(path) as f:
                text = f.read()
            # strip block comments and line comments
            text2 = re.sub(r"/-.*?-/", lambda m: "\n" * m.group(0).count("\n"), text, flags=re.S)
            for i, line in enumerate(text2.splitlines(), 1):
                line = line.split("--")[0]
                if FORBIDDEN.search(line):
                    hits.append(f"{os.path.relpath(path, LEAN)}:{i}: {line.strip()[:80]}")
    return hits


# ----------------------------------------------------------------------------- driver

def drive(lines, timeout=1800):
    """send operation lines to the compiled model driver, return output lines"""
    if not os.path.exists(DRIVER):
        # another run may be relinking the driver right now (the proof stage holds the lock while it builds): wait for it once
        with LakeLock():
            pass
        if not os.path.exists(DRIVER):
            raise Infra("driver not built")
    inp = "".join(l + "\n" for l in lines)
    try:
        p = subprocess.run([DRIVER], input=inp, capture_output=True, text=True, timeout=timeout)
    except subprocess.TimeoutExpired:
        raise Infra("driver timed out")
    out = p.stdout.split("\n")
    if out and out[-1] == "":
        out.pop()
    if len(out) != len(lines):
        raise Infra(f"driver returned {len(out)} lines for {len(lines)} ops (rc={p.returncode}) {p.stderr[:300]}")
    return out


def fr(tok):
    return Fraction(tok)


def bits2float(tok):
    import struct
    return struct.unpack("<d", struct.pack("<Q", int(tok)))[0]


def float2bits(x):
    import struct
    return str(struct.unpack("<Q", struct.pack("<d", float(x)))[0])


def close(a, b, rtol=1e-9, atol=None):
    a = float(a)
    b = float(b)
    if a != a and b != b:
        return True
    if atol is None:
        atol = rtol
    return abs(a - b) <= max(atol, rtol * max(abs(a), abs(b)))


def dec(rng, lo, hi, nd=3):
    """a decimal-grid number as a string (exactly representable in ℚ on the model side)"""
    q = 10 ** nd
    v = rng.randint(int(round(lo * q)), int(round(hi * q)))
    s = "-" if v < 0 else ""
    v = abs(v)
    return f"{s}{v // q}.{v % q:0{nd}d}"


def guise(a, salt=""):
    """the same numbers in another memory layout — C order, Fortran order, axes stored in reverse order, or a strided view into a larger
    buffer (every second row of it).  A routine that is told nothing about strides must return the same result for all of them; code
    that reshapes with order="A", builds strides by hand, or writes into the result of a reshape that silently copied is wrong on
    exactly these.  The choice is a function of the contents (and `salt`), so a stored case reproduces it."""
    import zlib
    import numpy as np
    a = np.asarray(a)
    if a.ndim == 0 or a.size == 0:
        return a
    k = zlib.crc32(a.tobytes() + str(a.shape).encode() + salt.encode()) % 5
    if k <= 1:
        return a
    if k == 2 and a.ndim >= 2:
        return np.asfortranarray(a)
    if k == 3 and a.ndim >= 2:
        return np.ascontiguousarray(a.transpose(tuple(range(a.ndim))[::-1])).transpose(tuple(range(a.ndim))[::-1])
    big = np.zeros((2 * a.shape[0],) + a.shape[1:], dtype=a.dtype)
    big[1::2] = 7                       # what lies between the rows is not zero
    v = big[::2]
    v[...] = a
    return v


def truthy(flag, salt=""):
    """a yes/no option in another type: True as True, numpy.bool_(True), 1 or numpy.int64(1); False as False, numpy.bool_(False), 0 —
    an option documented as a flag must not be tested by identity (`is True`)"""
    import zlib
    import numpy as np
    k = zlib.crc32(repr((bool(flag), salt)).encode()) % 4
    if flag:
        return [True, np.bool_(True), 1, np.int64(1)][k]
    return [False, np.bool_(False), 0, False][k]


def row_order(rows, salt=""):
    """order in which the rows of one frame of a neighbour / bond-property file are written.  Every row carries its particle id, so the
    file means the same in any order; a reader that stores a row by its position in the file is wrong on exactly the files whose rows
    are not in increasing id order (and a wrong re-ordering that is an involution only shows on a cycle of three or more).  The
    order is a function of the rows themselves (and `salt`), so a stored case reproduces it."""
    import zlib
    n = len(rows)
    r = random.Random(f"roworder:{salt}:{n}:{zlib.crc32(repr(rows).encode())}")
    idx = list(range(n))
    k = r.random()
    if n < 3 or k < 0.4:
        return idx
    if k < 0.7:
        s = r.randrange(1, n)
        return idx[s:] + idx[:s]
    r.shuffle(idx)
    return idx


def sparse_tilt(rng, H, p=0.4):
    """3D triclinic cells with only some of the three tilt factors (xy, xz, yz) non-zero — in place; code that tests "is the
    cell tilted" on part of the matrix is wrong on exactly these"""
    if len(H) < 3:
        return H
    if rng.random() < 0.12:
        # tilt factors that cancel (xy = −xz ≠ 0, yz = 0): the off-diagonal entries SUM to zero although the cell is tilted
        xy = H[1][0]
        if isinstance(xy, str):
            if xy.strip("-0.") != "":
                H[2][0] = xy[1:] if xy.startswith("-") else "-" + xy
                H[2][1] = "0"
                return H
        elif xy != 0:
            H[2][0] = -xy
            H[2][1] = type(xy)(0)
            return H
    if rng.random() >= p:
        return H
    keep = rng.choice([[0], [1], [2], [0, 1], [0, 2], [1, 2]])
    for n, (i, j) in enumerate([(1, 0), (2, 0), (2, 1)]):
        if n not in keep:
            H[i][j] = "0" if isinstance(H[i][j], str) else type(H[i][j])(0)
    return H


def unfold_positions(rng, pos, H, ppp=None, frac=0.35, mmax=3):
    """unfolded coordinates (an `xu` trajectory): a fraction of the particles is moved by whole cell vectors
    Σ_a m_a·H[a] (row-vector convention, m_a ∈ −mmax..mmax, only along periodic axes), exactly, on the decimal grid.
    pos: rows of decimal strings, H: d×d decimal strings, ppp: 0/1 per axis (default all periodic)"""
    from decimal import Decimal
    d = len(H)
    Hd = [[Decimal(str(x)) for x in row] for row in H]
    per = [1] * d if ppp is None else [int(x) for x in ppp]
    out = []
    for row in pos:
        if rng.random() < frac:
            m = [rng.randint(-mmax, mmax) * per[a] for a in range(d)]
            new = [Decimal(str(row[k])) + sum(m[a] * Hd[a][k] for a in range(d)) for k in range(d)]
            out.append([format(v, "f") for v in new])
        else:
            out.append(list(row))
    return out


def jitter_positions(rng, pos, amp=0.25, nd=3):
    """every coordinate moved by a decimal-grid amount in [−amp, amp] (rows of decimal strings → rows of decimal strings)"""
    from decimal import Decimal
    q = 10 ** nd
    a = int(round(amp * q))
    return [[format(Decimal(str(x)) + Decimal(rng.randint(-a, a)) / q, "f") for x in row] for row in pos]


def with_history(fn):
    """wrap a real-call function f(case, …): when the case carries `after` (an earlier case of the same call history: a sibling
    that shares whatever a cache could be keyed on) the earlier call is made first in the same process, its result discarded —
    so a history-dependent failure is reproducible from the case alone (replay, shrinking)"""
    def wrapped(c, *a, **k):
        prev = c.get("after") if isinstance(c, dict) else None
        if isinstance(prev, dict):
            import warnings
            import numpy as _np
            try:
                with warnings.catch_warnings(), _np.errstate(all="ignore"):
                    warnings.simplefilter("ignore")
                    fn(prev, *a, **k)
            except Exception:      # noqa: BLE001 — only history
                pass
        return fn(c, *a, **k)
    wrapped.__name__ = getattr(fn, "__name__", "wrapped")
    wrapped.__doc__ = fn.__doc__
    return wrapped


def add_siblings(rng, cases, sib, every=4):
    """after every `every`-th case insert sib(rng, case): a case that shares everything a cache could be keyed on (labels, sizes,
    cell, parameters) and differs in the payload (positions / values); the sibling carries its predecessor as `after`"""
    out = []
    for i, c in enumerate(cases):
        out.append(c)
        if i % every == 0 and isinstance(c, dict) and "after" not in c:
            s = sib(rng, c)
            if s is not None:
                s["after"] = {k: v for k, v in c.items() if k != "after"}
                s["sibling"] = True
                out.append(s)
    return out


# ----------------------------------------------------------------------------- findings / evidence

def load_known():
    p = os.path.join(VERIF, "known_findings.jsonl")
    if not os.path.exists(p):
        return []
    with open(p) as f:
        return [json.loads(l) for l in f if l.strip()]


def load_corpus(prop):
    d = os.path.join(VERIF, "corpus", prop)
    out = []
    if os.path.isdir(d):
        for fn in sorted(os.listdir(d)):
            if fn.endswith(".json"):
                with open(os.path.join(d, fn)) as f:
                    out.append(json.load(f)["case"])
    return out


class Run:
    def __init__(self, prop, tier, seed):
        self.prop, self.tier, self.seed = prop, tier, seed
        self.rng = random.Random(f"{prop}-{seed}")
        self.t0 = time.time()
        self.coverage = {"evaluations": 0, "distinct_nontrivial": 0, "samples": []}
        self.assumptions = []
        self.violations = []      # dicts: key, what, replay
        self.known_hits = []
        self._distinct = set()
        self.known = [e for e in load_known() if e.get("property") == prop and e.get("kind") == "finding"]

    # -- coverage helpers
    def count(self, case_key, nontrivial, sample=None):
        self.coverage["evaluations"] += 1
        if nontrivial:
            h = sha(json.dumps(case_key, sort_keys=True, default=str))
            if h not in self._distinct:
                self._distinct.add(h)
        if sample is not None and len(self.coverage["samples"]) < 3:
            self.coverage["samples"].append(sample)

    def hist(self, name, key):
        d = self.coverage.setdefault("input_distribution", {}).setdefault(name, {})
        d[str(key)] = d.get(str(key), 0) + 1

    # -- violations
    def violation(self, key, what, replay_obj, no_input=False):
        """register a violation unless its key is a listed known finding"""
        for e in self.known:
            if e["key"] == key:
                if key not in [k for k, _ in self.known_hits]:
                    self.known_hits.append((key, e.get("what", what)))
                return None
        if any(v["key"] == key for v in self.violations):
            return None
        if getattr(self, "dry", False):        # replay through the stream's history: nothing is written
            self.violations.append({"key": key, "what": what, "replay": None, "no_input": no_input})
            return None
        n = len(self.violations)
        os.makedirs(os.path.join(VERIF, "replays"), exist_ok=True)
        path = os.path.join("replays", f"{self.prop}-{self.seed}-{n}.json")
        replay_obj = dict(replay_obj)
        replay_obj.update({"property": self.prop, "seed": self.seed, "tier": self.tier, "key": key, "what": what,
                           "repo": repo_state(), "replay_cmd": f"./check {self.prop} --replay {path}",
                           "history": replay_obj.get("history") or ("the case was reached inside the check's deterministic stream for this seed and tier; if it "
                                       "does not fail on its own, `--replay` re-runs that stream (state kept between calls)")})
        with open(os.path.join(VERIF, path), "w") as f:
            json.dump(replay_obj, f, indent=1, default=str)
        self.violations.append({"key": key, "what": what, "replay": path, "no_input": no_input})
        return path

    def finish(self):
        cov = self.coverage
        cov["distinct_nontrivial"] = len(self._distinct)
        ev = {
            "property_id": self.prop, "tier": self.tier, "seed": self.seed, "level": "proof",
            "coverage": cov, "assumptions": self.assumptions,
            "wall_s": round(time.time() - self.t0, 2), "violations": len(self.violations),
        }
        os.makedirs(os.path.join(VERIF, "evidence"), exist_ok=True)
        evpath = os.path.join(VERIF, "evidence", f"{self.prop}.json")
        if self.prop == "EXTRA":       # outside the manifest: its coverage record lives next to the design notes
            evpath = os.path.join(VERIF, "design", "EXTRA.evidence.json")
        with open(evpath + ".tmp", "w") as f:
            json.dump(ev, f, indent=1, default=str)
        os.replace(evpath + ".tmp", evpath)          # never a half-written evidence file
        for key, what in self.known_hits:
            print(f"KNOWN-FINDING: property={self.prop} {key}: {what}")
        for v in self.violations:
            tail = " no-failing-input-found" if v["no_input"] else ""
            print(f"VIOLATION property={self.prop} replay={v['replay']}{tail}")
        if self.violations:
            for v in self.violations:
                print(f"  -> {v['key']}: {v['what']}")
            for n in getattr(self, "notes", []):
                print(f"  ({n})")
        return 1 if self.violations else 0


# ----------------------------------------------------------------------------- the pipeline

def props_files(spec):
    """the property's theorem files + its pinned-source file Pms/Props/<id>Mod.lean (when present)"""
    fs = list(spec.PROPS_FILES)
    mod = f"Pms/Props/{spec.PROP}Mod.lean"
    if os.path.exists(os.path.join(LEAN, mod)) and mod not in fs:
        fs.append(mod)
    return fs


def import_closure(rels):
    """relative paths (under lean/) of every Pms module the given files import, transitively"""
    seen, todo = set(), list(rels)
    while todo:
        rel = todo.pop()
        if rel in seen:
            continue
        seen.add(rel)
        try:
            with open(os.path.join(LEAN, rel)) as f:
                for line in f:
                    if line.startswith("import Pms."):
                        todo.append(line.split()[1].replace(".", "/") + ".lean")
                    elif line.strip() and not line.startswith(("import", "--", "/-", "set_option", "open")):
                        if not line.startswith("import"):
                            break
        except OSError:
            pass
    return seen


def proof_stage(run, spec):
    """regenerate, build, audit.  `spec` is the property module.  Returns dict with the broken
    obligations (empty when everything checks)."""
    broken = []
    gen_info = []
    with LakeLock():
        # 1. regenerate — EVERY generator, on every run: the driver and the property files import generated files of other
        #    properties too (C09 imports C08's table), and a file left over from an earlier run against a different tree must
        #    never be what a check builds on.  A generator that no longer recognises its source breaks this property's tie only
        #    when its output lies in the import closure of this property's theorem files (or it is listed in GENERATORS).
        sys.path.insert(0, os.path.join(VERIF, "translator"))
        import pms2lean
        if hasattr(pms2lean, "_load_gens"):
            pms2lean._load_gens()
        own = list(getattr(spec, "GENERATORS", []))
        if os.path.exists(os.path.join(LEAN, f"Pms/Props/{spec.PROP}Mod.lean")) and "modshape" not in own:
            own.append("modshape")
        try:
            with open(os.path.join(VERIF, "translator", "outputs.json")) as f:
                outputs = json.load(f)
        except (OSError, ValueError):
            outputs = {}
        closure = import_closure(props_files(spec))
        for g in dict.fromkeys(list(pms2lean.ALL) + own):
            needed = g in own or any(rel in closure for rel in outputs.get(g, []))
            try:
                res = pms2lean.generate(g, REPO)
                for rel, text, srcs in res:
                    write_if_changed(os.path.join(LEAN, rel), text)
                    if needed or rel in closure:
                        gen_info.append({"file": rel, "sha": sha(text), "sources": srcs})
            except pms2lean.Unrecognised as e:
                if needed:
                    broken.append({"kind": "translator", "name": f"translator:{g}", "detail": str(e)[:500]})
                else:
                    run.notes = getattr(run, "notes", [])
                    run.notes.append(f"generator {g} (outside this property's import closure) no longer recognises its source: {str(e)[:200]}")
        # 2. build
        targets = [rel[:-5].replace("/", ".") for rel in props_files(spec)] + ["pmsdriver"]
        ok, log, secs = lake_build(targets)
        fails = failed_decls(log) if not ok else []
        if not ok and not fails:
            fails = [{"file": "?", "line": 0, "decl": None, "msg": log[-600:]}]
        for f in fails:
            broken.append({"kind": "proof", "name": f"{f['file']}:{f['decl']}", "detail": f"{f['file']}:{f['line']}: {f['msg']}"})
        # 3. audit
        names, axioms = [], {}
        if ok:
            names, axioms, err = run_audit(run.prop, props_files(spec))
            if not err and names and not all(n in axioms for n in names):
                # the audit printed less than one line per theorem although it exited 0: run it once more before believing that
                time.sleep(1.0)
                names, axioms, err = run_audit(run.prop, props_files(spec))
                if not err and names and not any(n in axioms for n in names):
                    raise Infra("the axiom audit produced no output for any theorem (lake env lean exited 0)")
            if err:
                broken.append({"kind": "audit", "name": f"Pms/Audit/{run.prop}.lean", "detail": err[-500:]})
        else:
            for rel in props_files(spec):
                try:
                    names += [n for n, _ in theorems_of(rel)]
                except OSError:
                    pass
        hits = scan_sources()
        for h in hits:
            broken.append({"kind": "forbidden-construct", "name": h, "detail": h})
    discharged = 0
    thm_info = []
    for n in names:
        ax = axioms.get(n)
        good = ax is not None and set(ax) <= ALLOWED_AXIOMS
        if good:
            discharged += 1
        elif ok:
            broken.append({"kind": "axioms", "name": n, "detail": f"axioms {ax}"})
        thm_info.append({"name": n, "axioms": ax})
    cov = run.coverage
    cov["obligations"] = len(names)
    cov["discharged"] = discharged
    cov["checker_cmd"] = ("cd lean && lake build " + " ".join(targets) +
                          f" && lake env lean Pms/Audit/{run.prop}.lean  (axioms ⊆ propext, Classical.choice, Quot.sound; source scan for sorry/native_decide/axiom)")
    cov["theorems"] = thm_info
    cov["generated_files"] = gen_info
    cov["build_seconds"] = round(secs, 1)
    cov["trusted_base"] = list(getattr(spec, "TRUSTED_BASE", []))
    cov["rule"] = getattr(spec, "RULE", "")
    run.assumptions += list(getattr(spec, "TRUSTED_BASE", []))
    return {"broken": broken, "driver_ok": ok or os.path.exists(DRIVER) and not any(
        b["kind"] == "proof" and ("Model" in b["name"] or "Gen" in b["name"] or "Driver" in b["name"]) for b in broken)}


def leanchecker_stage(run, spec):
    """thorough tier: independent re-check of the compiled property modules"""
    mods = [rel[:-5].replace("/", ".") for rel in props_files(spec)]
    t0 = time.time()
    try:
        with LakeLock():
            p = subprocess.run(["lake", "env", "leanchecker"] + mods, cwd=LEAN, capture_output=True, text=True, timeout=3000)
    except (subprocess.TimeoutExpired, FileNotFoundError) as e:
        run.coverage["leanchecker"] = f"not run: {e}"
        return []
    run.coverage["leanchecker"] = {"modules": mods, "rc": p.returncode, "seconds": round(time.time() - t0, 1)}
    if p.returncode != 0:
        return [{"kind": "leanchecker", "name": " ".join(mods), "detail": (p.stdout + p.stderr)[-500:]}]
    return []


def main(spec, argv):
    import argparse
    ap = argparse.ArgumentParser()
    ap.add_argument("--tier", default=os.environ.get("VERIF_TIER", "quick"))
    ap.add_argument("--replay")
    ap.add_argument("--no-build", action="store_true")
    a = ap.parse_args(argv)
    seed = int(os.environ.get("VERIF_SEED", "0"))
    tier = a.tier if a.tier in ("quick", "thorough") else "quick"
    run = Run(spec.PROP, tier, seed)
    try:
        if a.replay:
            with open(os.path.join(VERIF, a.replay) if not os.path.isabs(a.replay) else a.replay) as f:
                rp = json.load(f)
            still = spec.replay(run, rp)
            how = ""
            if not still and rp.get("key") and "seed" in rp:
                # the failure may depend on the HISTORY of calls in the process (state kept between calls): the history is the
                # check's own deterministic stream for the recorded seed and tier — re-run it and look for the same violation
                run2 = Run(spec.PROP, rp.get("tier", "quick") if rp.get("tier") in ("quick", "thorough") else "quick", int(rp["seed"]))
                run2.dry = True
                st = proof_stage(run2, spec)
                broken2 = list(st["broken"])
                if st["driver_ok"]:
                    broken2 += spec.correspond(run2) or []
                if broken2:
                    left = spec.search(run2, broken2)
                    if left and rp["key"].startswith(f"{spec.PROP}:unverified:"):
                        run2.violations.append({"key": rp["key"]})
                still = any(v["key"] == rp["key"] for v in run2.violations)
                how = " (through the history of the check's stream for seed %s, tier %s)" % (rp["seed"], run2.tier) if still else ""
            print(("REPRODUCED " if still else "NOT-REPRODUCED ") + rp.get("key", "") + how)
            return 1 if still else 0
        st = proof_stage(run, spec)
        broken = st["broken"]
        if tier == "thorough":
            broken += leanchecker_stage(run, spec)
        corr_broken = []
        if st["driver_ok"]:
            try:
                corr_broken = spec.correspond(run) or []
            except Infra:
                raise
            except Exception as e:      # the harness could not evaluate the tree (e.g. an unexpected shape or type came back)
                import traceback
                corr_broken = [{"kind": "correspondence", "name": f"correspondence-raised:{type(e).__name__}",
                                "detail": traceback.format_exc()[-900:], "cases": []}]
        else:
            corr_broken = [{"kind": "correspondence", "name": "driver-unavailable", "detail": "model driver could not be built", "cases": []}]
        broken += corr_broken
        run.coverage["broken_obligations"] = [{k: v for k, v in b.items() if k != "cases"} for b in broken]
        if broken:
            # the search compares the REAL code with the Spec / monitors and registers violations that
            # come with a concrete failing input; it returns the broken items it could not explain
            try:
                unexplained = spec.search(run, broken)
            except Infra:
                raise
            except Exception as e:      # e.g. a failure that does not reproduce when the search evaluates the same input again
                import traceback
                run.notes = getattr(run, "notes", []) + [f"search raised {type(e).__name__}: " + traceback.format_exc()[-600:]]
                unexplained = list(broken)
            if unexplained and any(not v["no_input"] for v in run.violations):
                # a failing input was found on the real code: the obligations that no longer check are part of the same report
                # (listed in the evidence and below the VIOLATION lines), not a second violation "without failing input"
                run.coverage["also_no_longer_checking"] = [{k: v for k, v in b.items() if k != "cases"} for b in unexplained]
                run.notes = getattr(run, "notes", []) + ["also no longer checking: " + "; ".join(f"{b['kind']} {b['name']}" for b in unexplained)[:600]]
                unexplained = []
            if unexplained:
                names = "; ".join(f"{b['kind']} {b['name']}" for b in unexplained)
                run.violation(f"{run.prop}:unverified:" + "|".join(sorted(b['name'] for b in unexplained))[:200],
                              f"no longer checks: {names[:600]}",
                              {"broken": [{k: v for k, v in b.items() if k != "cases"} for b in unexplained],
                               "cases": [c for b in unexplained for c in b.get("cases", [])[:3]][:6],
                               "note": "no failing input found by the search; the items listed under 'broken' are the theorems / correspondences that no longer check"},
                              no_input=True)
        if not run.violations and run.coverage.get("discharged") != run.coverage.get("obligations"):
            # cannot happen when the stages above did their work: an undischarged obligation is a broken item and ends in a report
            raise Infra(f"inconsistent record: no violation although {run.coverage.get('discharged')} of {run.coverage.get('obligations')} obligations are discharged")
        return run.finish()
    except Infra as e:
        print(f"INFRA-ERROR {spec.PROP}: {e}", file=sys.stderr)
        try:
            run.coverage["infra_error"] = str(e)
            run.finish()
        except Exception:
            pass
        return 2


snapshots_in_other_layouts()
