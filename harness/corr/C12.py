"""C12 — pair-potential derivatives.  Tie = translator (Pms/GenR/Pair.lean regenerated from
hessians.py) + numeric validation of the translation (regenerated Float terms vs the real methods);
failing-input search = real methods vs high-precision derivatives of the documented potentials."""
import common
from common import bits2float, float2bits

PROP = "C12"
PROPS_FILES = ["Pms/Props/C12.lean"]
GENERATORS = ["pair"]
RULE = ("three streams: (1) random decimal-grid arguments (r, ε, σ, r_c, n, A, α) in the stated domains × 3 models × shift on/off; each "
        "evaluation compares the regenerated Lean term (Float) with the real method AND the real method with "
        "40-digit derivatives of the documented potential; non-trivial = all three returned values finite and s2 ≠ 0; "
        "distinct = distinct argument tuples; (2) exact ties r == σ (harmonic/Hertz, integer α ≥ 2) and r == r_c (LJ, IPL); "
        "(3) call histories in one process: base case, siblings differing in exactly one argument, base again — every call judged "
        "against the documented derivative (hidden state between calls)")
TRUSTED_BASE = [
    "Lean 4.33 kernel; axioms propext, Classical.choice, Quot.sound only; Mathlib HasDerivAt / Real.rpow as the meaning of derivative and real power",
    "translator/pms2lean.py expression printer (names, numerals, + - * / **, unary minus, if self.shift) — validated numerically every run against the real methods",
    "float64 evaluation of the formulas ≈ real arithmetic (pow, division) — contract, exercised to 1e-10 relative",
    "documented potentials written by hand from docs/hessian.md in Pms/Props/C12.lean",
]


def _mk(r, eps, sig, rc, shift):
    from PyMatterSim.static.hessians import PairInteractions
    # the flag in one of the types a caller may hold it in (bool, numpy.bool_, 0/1): chosen from the arguments, reproducible
    return PairInteractions(r=r, epsilon=eps, sigma=sig, r_c=rc, shift=common.truthy(shift, repr((r, eps, sig, rc))))


def real_call(c):
    pi = _mk(c["r"], c["eps"], c["sig"], c["rc"], c["shift"])
    if c["model"] == "lj":
        return pi.lennard_jones()
    if c["model"] == "ipl":
        return pi.inverse_power_law(n=c["n"], A=c["A"])
    return pi.harmonic_hertz(alpha=c["alpha"])


def real_caller(c):
    from PyMatterSim.static.hessians import InteractionParams, ModelName
    pi = _mk(c["r"], c["eps"], c["sig"], c["rc"], c["shift"])
    if c["model"] == "lj":
        ip = InteractionParams(model_name=ModelName.lennard_jones, ipl_n=c.get("n", 3.0), ipl_A=7.0, harmonic_hertz_alpha=9.0)
    elif c["model"] == "ipl":
        ip = InteractionParams(model_name=ModelName.inverse_power_law, ipl_n=c["n"], ipl_A=c["A"], harmonic_hertz_alpha=9.0)
    else:
        ip = InteractionParams(model_name=ModelName.harmonic_hertz, ipl_n=5.0, ipl_A=7.0, harmonic_hertz_alpha=c["alpha"])
    return pi.caller(ip)


def oracle(c):
    """[s'(r), cutoff term, s''(r)] from the documented potential, 40-digit arithmetic"""
    import mpmath as mp
    mp.mp.dps = 40
    eps, sig, rc = mp.mpf(repr(c["eps"])), mp.mpf(repr(c["sig"])), mp.mpf(repr(c["rc"]))
    if c["model"] == "lj":
        s = lambda r: 4 * eps * ((sig / r) ** 12 - (sig / r) ** 6)
    elif c["model"] == "ipl":
        n, A = mp.mpf(repr(c["n"])), mp.mpf(repr(c["A"]))
        s = lambda r: A * eps * (sig / r) ** n
    else:
        al = mp.mpf(repr(c["alpha"]))
        s = lambda r: eps / al * (1 - r / sig) ** al
    r = mp.mpf(repr(c["r"]))
    d1 = mp.diff(s, r)
    d2 = mp.diff(s, r, 2)
    if c["model"] == "hh":
        cut = mp.mpf(0)
    else:
        cut = mp.diff(s, rc) if c["shift"] else mp.mpf(0)
    return [float(d1), float(cut), float(d2)]


def gen_case(rng):
    model = rng.choice(["lj", "ipl", "hh"])
    c = {"model": model, "shift": rng.random() < 0.5}
    c["sig"] = float(common.dec(rng, 0.5, 2.0))
    c["eps"] = float(common.dec(rng, -2.0, 3.0))
    if model == "hh":
        if rng.random() < 0.3:      # beyond contact: only integer exponents keep the documented potential real
            c["r"] = round(c["sig"] * rng.uniform(1.05, 1.9), 3)
            c["alpha"] = float(rng.choice(["2", "3", "4", "5"]))
        else:
            c["r"] = round(c["sig"] * rng.uniform(0.05, 0.95), 3)
            c["alpha"] = float(rng.choice(["2", "2.5", "2.0", "3", "1.5", "4.25", "0.5", "-1", "-2.5", "8"]))
        c["rc"] = c["sig"]
    else:
        c["r"] = float(common.dec(rng, 0.6, 3.0))
        c["rc"] = float(common.dec(rng, 1.5, 3.5))
        if model == "ipl":
            c["n"] = float(rng.choice(["12", "10", "4", "6.5", "3.25", "18", "1", "0.5", "-1", "-2", "-3.5", "0", "36"]))
            c["A"] = float(common.dec(rng, -2.0, 3.0))
    return c


def gen_tie(rng):
    """exact ties: harmonic/Hertz at contact r == σ (integer α ≥ 2, where the documented potential is a polynomial and the
    code divides by nothing), LJ / IPL at r == r_c"""
    c = gen_case(rng)
    if c["model"] == "hh":
        c["alpha"] = float(rng.choice(["2", "3", "4", "2", "5"]))
        c["r"] = c["sig"]
        c["rc"] = c["sig"]
    elif rng.random() < 0.5:
        c["r"] = c["rc"]
    else:
        # zero-valued parameters: the documented potential is identically zero (A = 0, ε = 0) or constant (n = 0)
        z = rng.choice(["eps", "A", "n"] if c["model"] == "ipl" else ["eps"])
        c[z] = rng.choice([0.0, 0, -0.0])
    return c


def gen_object_history(rng):
    """a call history on ONE PairInteractions object: its three methods (and the selector) in a random order, each judged
    against the documented derivative — state written on the object by one method shows up in a later one"""
    base = gen_case(rng)
    base["model"] = "lj"
    base["rc"] = float(common.dec(rng, 1.5, 3.5))
    base["r"] = round(base["sig"] * rng.uniform(0.3, 0.95), 3) if rng.random() < 0.6 else float(common.dec(rng, 0.6, 3.0))
    steps = []
    for m in rng.sample(["lj", "ipl", "hh", "lj", "ipl"], rng.randint(2, 5)):
        st = {"model": m, "via": rng.choice(["method", "caller"])}
        if m == "ipl":
            st["n"] = float(rng.choice(["12", "10", "4", "6.5", "-2", "0"])); st["A"] = float(common.dec(rng, -2.0, 3.0))
        if m == "hh":
            st["alpha"] = float(rng.choice(["2", "3", "4", "2.5"]))
        steps.append(st)
    return {"object": {k: base[k] for k in ("r", "eps", "sig", "rc", "shift")}, "steps": steps}


def check_object_history(h):
    """returns (index, why) of the first call whose triple is not the documented derivative, or None"""
    o = h["object"]
    for i, st in enumerate(h["steps"]):
        c = dict(o, **st)
        if st["model"] == "hh":
            # the harmonic/Hertz branch is documented for r < σ (non-integer α) — keep the call as history, judge it only there
            judged = c["r"] < 0.97 * c["sig"] or float(c["alpha"]).is_integer()
            c["rc"] = o["rc"]
        else:
            judged = True
        pi = h.setdefault("_obj", None) or _mk(o["r"], o["eps"], o["sig"], o["rc"], o["shift"])
        h["_obj"] = pi
        try:
            if st["via"] == "caller":
                from PyMatterSim.static.hessians import InteractionParams, ModelName
                mn = {"lj": ModelName.lennard_jones, "ipl": ModelName.inverse_power_law, "hh": ModelName.harmonic_hertz}[st["model"]]
                real = pi.caller(InteractionParams(model_name=mn, ipl_n=st.get("n", 3.0), ipl_A=st.get("A", 7.0), harmonic_hertz_alpha=st.get("alpha", 9.0)))
            elif st["model"] == "lj":
                real = pi.lennard_jones()
            elif st["model"] == "ipl":
                real = pi.inverse_power_law(n=st["n"], A=st["A"])
            else:
                real = pi.harmonic_hertz(alpha=st["alpha"])
            if not judged:
                continue            # beyond contact with a non-integer exponent (complex power): only history
            real = [float(x) for x in real]
        except Exception as e:
            if not judged:
                continue
            h.pop("_obj", None)
            return i, f"{st['model']}: raised {type(e).__name__}: {e}"
        if st["model"] == "hh":
            ref = oracle(dict(c, rc=c["sig"]))          # documented: s'(r_c) = 0 for harmonic/Hertz
        else:
            ref = oracle(c)
        for nm, a, b in zip(("s1", "s1rc", "s2"), real, ref):
            if not common.close(a, b, 1e-9, 1e-12):
                h.pop("_obj", None)
                return i, f"{st['model']}.{nm}: returned {a!r} but derivative of documented potential is {b!r}"
    h.pop("_obj", None)
    return None


def gen_history(rng):
    """a call history in ONE process: a base case, then siblings that differ from it in exactly one argument, then the base
    again.  Every call is judged against the documented derivative, so state kept between calls (a cache keyed on a subset
    of the arguments, a mutated default) shows up as a wrong value in a later call."""
    base = gen_case(rng)
    hist = [base]
    keys = ["r", "eps", "sig", "rc", "shift"] + (["n", "A"] if base["model"] == "ipl" else []) + (["alpha"] if base["model"] == "hh" else [])
    rng.shuffle(keys)
    for k in keys[:rng.randint(1, 3)]:
        sib = dict(base)
        for _ in range(20):
            alt = gen_case(rng)
            if alt["model"] == base["model"] and alt.get(k) != base.get(k):
                break
        else:
            continue
        sib[k] = alt[k]
        if base["model"] == "hh":
            if k == "sig":
                sib["rc"] = sib["sig"]
            if k in ("sig", "r", "alpha") and not (sib["r"] < 0.97 * sib["sig"] or float(sib["alpha"]).is_integer()):
                continue
            if k in ("sig", "r") and abs(sib["r"] - sib["sig"]) < 0.03 * sib["sig"]:
                continue
        hist.append(sib)
        hist.append(dict(base))
    return hist


def check_history(hist):
    """returns the first property failure of the sequence (index, why) or None"""
    for i, c in enumerate(hist):
        _, p = check_case(c)
        if p:
            return i, p
    return None


def op_line(c):
    vals = [c["r"], c["eps"], c["sig"], c["rc"]]
    if c["model"] == "ipl":
        vals += [c["n"], c["A"]]
    if c["model"] == "hh":
        vals += [c["alpha"]]
    return "pairf {} {} {}".format(c["model"], 1 if c["shift"] else 0, " ".join(float2bits(v) for v in vals))


def check_case(c, model_out=None):
    """returns (translator_disagreement, property_failure)"""
    try:
        real = [float(x) for x in real_call(c)]
    except Exception as e:
        return None, f"{c['model']}: raised {type(e).__name__}: {e}"
    tdis = None
    if model_out is not None:
        for nm, a, b in zip(("s1", "s1rc", "s2"), model_out, real):
            if not common.close(a, b, 1e-10, 1e-300):
                tdis = f"{c['model']}.{nm}: regenerated term {a!r} vs real {b!r}"
                break
    ref = oracle(c)
    for nm, a, b in zip(("s1", "s1rc", "s2"), real, ref):
        if not common.close(a, b, 1e-9, 1e-12):
            return tdis, f"{c['model']}.{nm}: returned {a!r} but derivative of documented potential is {b!r}"
    try:
        viacaller = [float(x) for x in real_caller(c)]
    except Exception as e:
        return tdis, f"{c['model']}.caller: raised {type(e).__name__}: {e}"
    if any(not common.close(a, b, 1e-13, 0) for a, b in zip(viacaller, real)):
        return tdis, f"{c['model']}.caller: selector returned {viacaller} but the {c['model']} method returns {real}"
    return tdis, None


def correspond(run):
    n = 1500 if run.tier == "quick" else 20000
    cases = common.load_corpus(PROP) + [gen_case(run.rng) for _ in range(n)]
    try:
        outs = common.drive([op_line(c) for c in cases])
    except common.Infra:
        raise
    tdis, pfail = [], []
    for c, o in zip(cases, outs):
        mo = [bits2float(t) for t in o.split()] if o != "bad-op" else None
        if mo is None:
            raise common.Infra("driver rejected " + op_line(c))
        t, p = check_case(c, mo)
        run.hist("model", c["model"]); run.hist("shift", c["shift"])
        nontriv = all(abs(x) < 1e300 for x in mo) and mo[2] != 0
        run.count(c, nontriv, sample={"case": c, "regenerated_term": mo})
        if t:
            tdis.append((c, t))
        if p:
            pfail.append((c, p))
    # exact ties and call histories (judged against the documented derivative only: no model line needed)
    nt = 60 if run.tier == "quick" else 2000
    for _ in range(nt):
        c = gen_tie(run.rng)
        _, p = check_case(c)
        run.hist("stream", "tie:" + c["model"])
        run.count(("tie", c), True)
        if p:
            pfail.append((c, "tie " + p))
    nh = 120 if run.tier == "quick" else 4000
    hfail = []
    for _ in range(nh):
        h = gen_history(run.rng)
        run.hist("stream", "history:%s:len%d" % (h[0]["model"], len(h)))
        run.count(("history", h), len(h) > 1)
        r = check_history(h)
        if r:
            hfail.append((h, r))
    no = 80 if run.tier == "quick" else 3000
    for _ in range(no):
        h = gen_object_history(run.rng)
        run.hist("stream", "object-history:len%d" % len(h["steps"]))
        run.count(("object-history", h), True)
        r = check_object_history(h)
        if r:
            hfail.append((h, r))
    run.coverage["programs"] = 9
    run.coverage["disagreements_checked"] = len(tdis)
    broken = []
    if tdis:
        broken.append({"kind": "translator-validation", "name": "Pms.Gen.PairF~PairInteractions",
                       "detail": f"{len(tdis)} disagreements; first: {tdis[0][1]}", "cases": [c for c, _ in tdis[:10]]})
    if pfail:
        broken.append({"kind": "oracle", "name": "PairInteractions vs documented potential",
                       "detail": f"{len(pfail)} failures; first: {pfail[0][1]}", "cases": [c for c, _ in pfail[:10]]})
    if hfail:
        h, (i, p) = hfail[0]
        broken.append({"kind": "oracle", "name": "PairInteractions call history vs documented potential",
                       "detail": f"{len(hfail)} failing histories; first: call {i} of {len(h)}: {p}", "histories": [h for h, _ in hfail[:10]]})
    return broken


def key_of(why):
    return "C12:" + why.split(":")[0]


def search(run, broken):
    """whatever broke (regenerated term no longer provably the derivative, translator disagreement, oracle):
    look for concrete arguments where the REAL method differs from the documented derivative"""
    unexplained = []
    found_models = set()
    pool = []
    for b in broken:
        pool += b.get("cases", [])
    pool += [gen_case(run.rng) for _ in range(1500)]
    for c in pool:
        _, p = check_case(c)
        if p:
            k = key_of(p)
            if k not in found_models:
                found_models.add(k)
                run.violation(k, p, {"case": c})
    hists = []
    for b in broken:
        hists += b.get("histories", [])
    hists += [gen_history(run.rng) for _ in range(1500)]
    for h in hists + [gen_object_history(run.rng) for _ in range(1500)]:
        r = check_object_history(h) if "steps" in h else check_history(h)
        if r:
            i, p = r
            # is it the history that matters?  the failing call alone, in this process, after the same prefix
            k = key_of(p) + ":history"
            if k not in found_models and key_of(p) not in found_models:
                found_models.add(k)
                nn = len(h["steps"]) if isinstance(h, dict) else len(h)
                where = "on one PairInteractions object" if isinstance(h, dict) else "in one process"
                run.violation(k, f"call {i} of a {nn}-call history {where}: {p}", {"history": h, "failing_call": i})
    for _ in range(600):
        c = gen_tie(run.rng)
        _, p = check_case(c)
        if p:
            k = key_of(p) + ":tie"
            if k not in found_models and key_of(p) not in found_models:
                found_models.add(k)
                run.violation(k, "exact tie: " + p, {"case": c})
    run.coverage["search_cases"] = len(pool) + len(hists) + 600
    if not found_models:
        unexplained = list(broken)
    return unexplained


def replay(run, rp):
    if isinstance(rp.get("history"), (list, dict)):
        h = rp["history"]
        return (check_object_history(h) if isinstance(h, dict) and "steps" in h else check_history(h)) is not None
    if "case" in rp:
        return bool(check_case(rp["case"])[1])
    return any(check_case(c)[1] for c in rp.get("cases", []))
