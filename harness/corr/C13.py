"""C13 — conditional g(r) and S(q).  Tie = translator (the dtype / conditiontype if-chain of conditional_gr with what each
branch does, the SIJ expression of each pair loop, the normalisation statements in source order, the branch table of
conditional_sq are REGENERATED into Pms/Gen/Cond.lean; the theorems are about that data and the compiled model interprets
it) + differential correspondence of the real `conditional_gr` / `conditional_sq` with that model (exact ℚ for g(r), Float
for S(q)).  Failing-input search = real code against `Pms.Cond.Spec` (driver), an independent brute force of the
property statement, and the statement's own consequences measured INSIDE the implementation (boolean selection of a
species vs the real `gr` / `sq` partial columns, A = 1 vs the totals, vector = sum of its components)."""
import logging
import math
from fractions import Fraction

import numpy as np

import common
from common import dec, bits2float

logging.disable(logging.WARNING)

PROP = "C13"
PROPS_FILES = ["Pms/Props/C13.lean"]
GENERATORS = ["cond"]
RULE = ("seeded single configurations: d∈{2,3} × N≤14 (every fifth g(r) case ≤24) × condition kind {bool, real, complex, vector, "
        "symmetric/general tensor} × dtype {bool, int64, float32, float64, complex64, complex128} × conditiontype {None, '', "
        "'vector', 'tensor', an invalid string}; g(r): cell {orthogonal, triclinic} × mask {0,1}^d × bin width from a mixed "
        "dyadic/decimal set × configuration {gas, lattice+offset, clusters} on a 3-decimal grid; S(q): orthogonal box with "
        "pairwise different edges × {explicit integer wave-vector list incl. ±/duplicates, default set of choosewavevector}; "
        "values on a 2-decimal grid (dyadic for 32-bit dtypes).  A g(r) case is judged when every rint argument and every "
        "distance is ≥1e-6 from its flip point; an S(q) case when distinct |q| are ≥4e-8 apart (exact ℚ check; conditional_sq groups at 1e-8; every fifth box has nearly equal edges).  "
        "non-trivial = the weighted histogram / structure factor has a non-zero entry and ≥2 particles enter; distinct = "
        "distinct literal inputs.  Scale stream (labelled test): conditional_gr on N ≈ 2 000 particles with coarse bins, bool "
        "and real conditions, against the numpy brute force of the statement (per-particle per-bin counts > 127, ~10⁶ pairs)")
TRUSTED_BASE = [
    "Lean 4.33 kernel; axioms propext, Classical.choice, Quot.sound only; the regenerated dispatch is evaluated by the kernel",
    "proved for all inputs over any ordered field (complex numbers as pairs): for every condition kind and every dtype of that "
    "kind the regenerated if-chain + pair loop + normalisation statements of conditional_gr give V/n²·(ordered-pair histogram "
    "weighted by Re(A_i conj A_j) | dot | trace)/shell — stated on Pms.Gr.pairHist/Spec (C03); bool selection of a species = "
    "Pms.Gr.Spec.g a a, A=1 = Pms.Gr.Spec.gTotal; vector = Σ components; normalised variant; conditional_sq branches = "
    "Σ_comp |Σ_i A_i e^{-iθ_i}|²/n with arbitrary cos/sin arrays; bool = Pms.Sq.Spec.S a a, A=1 = Pms.Sq.Spec.Stot (C04)",
    "contracts (modelled, not proved): np.histogram(bins=n, range=(0,nδ), weights=w) = Σ of w over bins [kδ,(k+1)δ) (last closed), "
    "returned edges kδ; np.linalg.norm; np.rint = IsRintHE; np.linalg.inv (only oddness of remove_pbc is used); np.conj, .real, "
    "np.trace(np.matmul(·,·)), .sum(axis=1), .mean(), np.square, astype(int32) of a mask = 0/1; np.exp(-1j·θ) = (cos θ, −sin θ); "
    "math.sqrt as a non-negative root; DataFrame.round(8) and groupby(q).mean(); int() = floor on non-negatives; np.pi = π; "
    "numpy dtype names/kinds as listed in Pms.Cond.DType; float64 ≈ ℝ (validated under the margin guard, not proved)",
    "a tensor condition is a real d×d array per particle (trace of the product, any real tensor; symmetric ones are the "
    "property's case); complex tensors and bool/complex conditions combined with conditiontype are outside the statement",
    "translator translator/gens/cond.py (AST walkers; glue statements matched textually) and this harness are trusted; mitigated "
    "by the self-made mutants recorded in design/C13.md",
]
MU = Fraction(1, 10 ** 6)
MKEY_MIN = Fraction(4, 10 ** 17)      # ((q2-q1)/2π)² ≥ (6.3e-9)² ⇒ q2−q1 ≥ 4e-8: four times the 1e-8 resolution at which conditional_sq groups
DELTAS = ["0.25", "0.5", "0.125", "1", "0.3", "0.4", "0.7", "0.37", "0.2", "0.55"]
KIND_DTYPES = {
    "bool": ["bool"],
    "real": ["float64", "float64", "float64", "float32", "int64"],
    "complex": ["complex128", "complex128", "complex64"],
    "vector": ["float64", "float64", "complex128", "complex64", "float32", "int64"],
    "tensor": ["float64", "float64", "float64", "int64", "float32"],
}
NPDT = {"bool": np.bool_, "int64": np.int64, "float32": np.float32, "float64": np.float64,
        "complex64": np.complex64, "complex128": np.complex128}


# ----------------------------------------------------------------------------- generators

def gen_value(rng, dtype, allow_zero=True):
    """(re, im) strings"""
    if dtype == "int64":
        return (str(rng.randint(-3, 3)), "0")
    if dtype in ("float32", "complex64"):
        q = lambda: str(Fraction(rng.randint(-16, 16), 8))      # dyadic: exact in 32-bit floats
        f = lambda s: repr(float(Fraction(s)))
        return (f(q()), f(q()) if dtype == "complex64" else "0")
    return (dec(rng, -2, 2, 2), dec(rng, -2, 2, 2) if dtype == "complex128" else "0")


def gen_condition(rng, d, N, kind=None, sq=False):
    kinds = ["bool", "bool", "real", "real", "complex", "complex", "vector", "vector"] + ([] if sq else ["tensor", "tensor"])
    kind = kind or rng.choice(kinds)
    dtype = rng.choice(KIND_DTYPES[kind])
    c = {"kind": kind, "dtype": dtype, "special": None}
    if kind == "bool":
        K = rng.choice([1, 2, 2, 3, 3, 4, 5])
        types = [rng.randint(1, K) for _ in range(N)]
        a = rng.randint(1, K)
        if sum(1 for t in types if t == a) < 2:
            types[0] = types[1] = a
        for b in range(1, K + 1):          # every species present (ids exactly 1..K)
            if b not in types:
                free = [i for i, t in enumerate(types) if sum(1 for u in types if u == t) > (2 if t == a else 1)]
                if free:
                    types[rng.choice(free)] = b
        if set(types) != set(range(1, K + 1)):
            K = 1
            types = [1] * N
            a = 1
        c.update({"types": types, "species": a, "K": K, "rank": 1, "m": 1,
                  "vals": [[("1" if t == a else "0", "0")] for t in types]})
        return c
    if kind in ("real", "complex"):
        c.update({"rank": 1, "m": 1})
        if kind == "real" and rng.random() < 0.2:
            c["special"] = "ones"
            c["vals"] = [[("1", "0")] for _ in range(N)]
        elif kind == "real" and dtype in ("int64", "float64") and rng.random() < 0.25:
            # a real field whose values happen to be 0 and 1 only (a defect count, an indicator stored as a number): still a FIELD —
            # it is weighted and normalised as one, not treated as a boolean selection
            c["special"] = "zero-one"
            vals = [rng.choice(["0", "1"]) for _ in range(N)]
            vals[0], vals[-1] = "1", "0"
            c["vals"] = [[(v, "0")] for v in vals]
        else:
            c["vals"] = [[gen_value(rng, dtype)] for _ in range(N)]
        return c
    if kind == "vector":
        c.update({"rank": 2, "m": d, "vals": [[gen_value(rng, dtype) for _ in range(d)] for _ in range(N)]})
        return c
    sym = rng.random() < 0.7
    vals = []
    for _ in range(N):
        M = [[gen_value(rng, dtype) for _ in range(d)] for _ in range(d)]
        if sym:
            for a in range(d):
                for b in range(a):
                    M[a][b] = M[b][a]
        vals.append([M[a][b] for a in range(d) for b in range(d)])
    c.update({"rank": 3, "m": d * d, "vals": vals, "symmetric": sym})
    return c


def default_ctype(kind):
    return {"vector": "vector", "tensor": "tensor"}.get(kind)


def gen_positions(rng, d, N, L, config):
    Lf = [float(x) for x in L]
    if config == "gas":
        return [[dec(rng, -0.5 * Lf[k], 1.5 * Lf[k]) for k in range(d)] for _ in range(N)]
    if config == "lattice":
        m = max(2, int(math.ceil(N ** (1.0 / d))))
        off = [float(dec(rng, 0.011, 0.049)) for _ in range(d)]
        pos = []
        for a in range(N):
            idx = [(a // (m ** k)) % m for k in range(d)]
            pos.append(["%.3f" % (idx[k] * Lf[k] / m + off[k] * (1 + 0.37 * a)) for k in range(d)])
        return pos
    centres = [[rng.uniform(0, Lf[k]) for k in range(d)] for _ in range(rng.randint(1, 3))]
    pos = []
    for a in range(N):
        cc = rng.choice(centres)
        pos.append(["%.3f" % (cc[k] + rng.uniform(-0.9, 0.9)) for k in range(d)])
    return pos


def gen_gr_case(rng, big=False, kind=None):
    d = rng.choice([2, 3])
    N = rng.randint(3, rng.choice([6, 9, 24 if big else 14]))
    cell = rng.choice(["orth", "tri"])
    L = [dec(rng, 3, 8, 2) for _ in range(d)]
    H = [["0"] * d for _ in range(d)]
    for i in range(d):
        H[i][i] = L[i]
    if cell == "tri":
        for i in range(d):
            for j in range(i):
                H[i][j] = dec(rng, -2, 2, 2)
        common.sparse_tilt(rng, H)
    ppp = [rng.choice(["0", "1"]) for _ in range(d)]
    if rng.random() < 0.5:
        ppp = ["1"] * d
    config = rng.choice(["gas", "gas", "lattice", "cluster"])
    cond = gen_condition(rng, d, N, kind)
    ct = default_ctype(cond["kind"])
    r = rng.random()
    if r < 0.04:
        ct = "matrix"                       # rejected by the loop chain: ValueError
    elif r < 0.08 and cond["kind"] in ("real", "complex"):
        ct = ""                             # falsy, like None
    pos = gen_positions(rng, d, N, L, config)
    if rng.random() < 0.3:
        pos = common.unfold_positions(rng, pos, H, ppp)       # unfolded (xu) coordinates
    return {"op": "gr", "d": d, "N": N, "cell": cell, "ppp": ppp, "box": L, "H": H, "rdelta": rng.choice(DELTAS),
            "pos": pos, "config": config, "cond": cond, "ctype": ct}


def gen_sq_case(rng, big=False, kind=None):
    d = rng.choice([2, 3])
    N = rng.randint(2, 24 if big else 12)
    while True:
        L = [dec(rng, 3, 9, rng.choice([1, 2, 3])) for _ in range(d)]
        if rng.random() < 0.2:
            # nearly equal edges: |q| of (1,0,…) and (0,1,…) differ by ~1e-5 — distinct shells, not to be averaged together
            for j in range(1, d):
                L[j] = format(float(Fraction(L[0]) + Fraction(rng.choice([4, 7, 10, -5, 12]), 10 ** 4) * j), ".4f")
        if len({Fraction(x) for x in L}) == d:
            break
    pos = [[dec(rng, -1.5, float(L[j]) + 1.5, 3) for j in range(d)] for _ in range(N)]
    cond = gen_condition(rng, d, N, kind, sq=True)
    c = {"op": "sq", "d": d, "N": N, "box": L, "pos": pos, "cond": cond}
    if rng.random() < 0.6:
        nq = rng.randint(1, 10)
        vs = []
        while len(vs) < nq:
            r = rng.random()
            if vs and r < 0.3:
                v = [-x for x in rng.choice(vs)]
            elif vs and r < 0.4:
                v = list(rng.choice(vs))
            elif vs and r < 0.5:
                v = list(rng.choice(vs))
                j = rng.randrange(d)
                v[j] = -v[j]
            else:
                v = [rng.randint(-4, 4) for _ in range(d)]
            if any(v):
                vs.append(v)
        c["vec"] = vs
    else:
        c["numofq"] = rng.randint(2, 9 if d == 2 else 6)
        c["onlypos"] = rng.choice([False, False, True])
    # dtype of the wave-vector table handed to the real code (integer-valued in every dtype) and whether the SAME table object
    # has already been used for an earlier call in this process (a call history: the judged call is the second one)
    c["qdtype"] = rng.choice(["int32", "int64", "float64", "float64"])
    c["reuse"] = rng.random() < 0.5
    return c


def sibling_sq(rng, c):
    """a second configuration that shares everything a cache could be keyed on — timestep label, particle number, box,
    wave-vector table — with other positions and another condition of the same kind: evaluated right after `c`"""
    d, N, L = c["d"], c["N"], c["box"]
    s = dict(c)
    s["pos"] = [[dec(rng, -1.5, float(L[j]) + 1.5, 3) for j in range(d)] for _ in range(N)]
    s["cond"] = gen_condition(rng, d, N, c["cond"]["kind"], sq=True)
    s["sibling"] = True
    s["after"] = {k: v for k, v in c.items() if k not in ("after",)}       # the history travels with the case (replay, shrinking)
    return s


def vectors_of(c):
    if "vec" in c:
        return [list(v) for v in c["vec"]]
    from PyMatterSim.utils.wavevector import choosewavevector
    return [[int(x) for x in row] for row in choosewavevector(c["d"], c["numofq"], c["onlypos"])]


def vals_tokens(cond):
    return [x for row in cond["vals"] for v in row for x in v]


def ct_token(ct):
    return "-" if ct is None else ("~" if ct == "" else ct)


def op_line(c):
    cond = c["cond"]
    if c["op"] == "gr":
        toks = ["cgr", str(c["d"]), str(c["N"])] + list(c["ppp"]) + list(c["box"]) + [c["rdelta"]]
        toks += [x for row in c["H"] for x in row] + [x for row in c["pos"] for x in row]
        toks += [cond["kind"], cond["dtype"], ct_token(c["ctype"]), str(cond["rank"]), str(cond["m"])] + vals_tokens(cond)
        return " ".join(toks)
    vs = vectors_of(c)
    toks = ["csq", str(c["d"]), str(c["N"])] + list(c["box"]) + [x for row in c["pos"] for x in row]
    toks += [str(len(vs))] + [str(x) for v in vs for x in v]
    toks += [cond["kind"], cond["dtype"], str(cond["rank"]), str(cond["m"])] + vals_tokens(cond)
    return " ".join(toks)


# ----------------------------------------------------------------------------- real code

def np_condition(cond, d):
    dt = NPDT[cond["dtype"]]
    N = len(cond["vals"])
    if cond["kind"] == "bool":
        return np.array([v[0][0] == "1" for v in cond["vals"]], dtype=bool)
    z = np.array([[complex(float(re), float(im)) for re, im in row] for row in cond["vals"]])
    if cond["dtype"] in ("complex64", "complex128"):
        arr = z.astype(dt)
    elif cond["dtype"] == "int64":
        arr = np.rint(z.real).astype(np.int64)
    else:
        arr = z.real.astype(dt)
    if cond["rank"] == 1:
        return arr[:, 0].copy()
    if cond["rank"] == 2:
        return arr.copy()
    return arr.reshape(N, d, d).copy()


def snapshot_of(c, types=None):
    from PyMatterSim.reader.reader_utils import SingleSnapshot
    d, N = c["d"], c["N"]
    L = np.array([float(x) for x in c["box"]])
    H = np.array([[float(x) for x in row] for row in c["H"]]) if "H" in c else np.diag(L)
    pos = np.array([[float(x) for x in row] for row in c["pos"]])
    ty = np.array(types if types is not None else c["cond"].get("types", [1] * N), dtype=int)
    return SingleSnapshot(timestep=0, nparticle=N, particle_type=ty, positions=pos, boxlength=L,
                          boxbounds=np.column_stack((np.zeros(d), L)), realbounds=None, hmatrix=H)


def real_gr(c, cond=None, ctype="__same__"):
    """-> (columns, {col: [values]}) of the real conditional_gr"""
    from PyMatterSim.static.gr import conditional_gr
    cond = cond or c["cond"]
    ct = c["ctype"] if ctype == "__same__" else ctype
    df = conditional_gr(snapshot_of(c), np_condition(cond, c["d"]), ct, np.array([int(x) for x in c["ppp"]]), float(c["rdelta"]))
    cols = [str(x) for x in df.columns]
    return cols, {col: [complex(v) if np.iscomplexobj(df[col].values) else float(v) for v in df[col].values] for col in cols}


def real_gr_class(c):
    """the real `gr` class on the same configuration with the species of the bool case -> {col: values}"""
    from PyMatterSim.reader.reader_utils import Snapshots
    from PyMatterSim.static.gr import gr
    df = gr(Snapshots(nsnapshots=1, snapshots=[snapshot_of(c)]), ppp=np.array([int(x) for x in c["ppp"]]),
            rdelta=float(c["rdelta"])).getresults()
    return {str(col): [float(v) for v in df[col].values] for col in df.columns}


def real_sq(c, cond=None):
    """-> (per-vector frame columns, {col: values}, averaged {q: Sq} as list of pairs)"""
    from PyMatterSim.static.sq import conditional_sq
    cond = cond or c["cond"]
    if c.get("after") is not None:
        a = c["after"]
        conditional_sq(snapshot_of(a), np.array(vectors_of(a), dtype=np.dtype(a.get("qdtype", "int32"))).reshape(-1, a["d"]),
                       np_condition(a["cond"], a["d"]))                     # the earlier call of this history
    qv = np.array(vectors_of(c), dtype=np.dtype(c.get("qdtype", "int32"))).reshape(-1, c["d"])
    if c.get("reuse"):
        conditional_sq(snapshot_of(c), qv, np.ones(c["N"]))       # earlier call with the same table object
    full, ave = conditional_sq(snapshot_of(c), qv, np_condition(cond, c["d"]))
    cols = [str(x) for x in full.columns]
    return cols, {col: list(full[col].values) for col in cols}, [(float(a), float(b)) for a, b in zip(ave["q"].values, ave["Sq"].values)]


def real_sq_class(c):
    from PyMatterSim.reader.reader_utils import Snapshots
    from PyMatterSim.static.sq import sq
    qv = np.array(vectors_of(c), dtype=np.int32).reshape(-1, c["d"])
    df = sq(Snapshots(nsnapshots=1, snapshots=[snapshot_of(c)]), qvector=qv).getresults()
    return {str(col): [float(v) for v in df[col].values] for col in df.columns}


# ----------------------------------------------------------------------------- model output

def parse_cols(txt):
    out = []
    for part in txt.split(";"):
        t = part.split()
        if t:
            out.append((t[0], [Fraction(x) for x in t[1:]]))
    return out


def parse_gr(o):
    impl_txt, spec_txt = o.split("|")
    head, _, rest = impl_txt.partition(";")
    h = head.split()
    r = {"margin": Fraction(h[0]), "mb_margin": Fraction(h[1]), "maxbin": int(h[2]), "spec_maxbin": int(h[3]), "norm": h[4] == "1"}
    r["impl"] = None if rest.strip() == "raise" else parse_cols(rest)
    r["spec"] = parse_cols(spec_txt)
    return r


def parse_sq(o):
    if o.strip() == "raise":
        return {"raise": True}
    t = o.split()
    mkey, nq = Fraction(t[0]), int(t[1])
    p = 2
    per = []
    for _ in range(nq):
        per.append([bits2float(x) for x in t[p:p + 5]])
        p += 5
    ng = int(t[p])
    p += 1
    groups = []
    for _ in range(ng):
        groups.append([bits2float(x) for x in t[p:p + 3]])
        p += 3
    return {"raise": False, "mKey": mkey, "per": per, "groups": groups}


# ----------------------------------------------------------------------------- independent brute force of the statement

def _rint_he(x):
    f = math.floor(x)
    r = x - f
    if r < Fraction(1, 2):
        return f
    if r > Fraction(1, 2):
        return f + 1
    return f if f % 2 == 0 else f + 1


def _inv(H):
    n = len(H)
    A = [list(row) + [Fraction(int(i == j)) for j in range(n)] for i, row in enumerate(H)]
    for i in range(n):
        p = next(r for r in range(i, n) if A[r][i] != 0)
        A[i], A[p] = A[p], A[i]
        piv = A[i][i]
        A[i] = [x / piv for x in A[i]]
        for r in range(n):
            if r != i and A[r][i] != 0:
                fac = A[r][i]
                A[r] = [x - fac * y for x, y in zip(A[r], A[i])]
    return [row[n:] for row in A]


def py_weight(kind, d, vi, vj):
    """the pair weight of the property statement in exact arithmetic; vi, vj: lists of (re, im) Fractions"""
    if kind in ("bool", "real", "complex"):
        return vi[0][0] * vj[0][0] + vi[0][1] * vj[0][1]
    if kind == "vector":
        return sum(a[0] * b[0] + a[1] * b[1] for a, b in zip(vi, vj))
    return sum(vi[a * d + b][0] * vj[b * d + a][0] - vi[a * d + b][1] * vj[b * d + a][1] for a in range(d) for b in range(d))


def py_spec_gr(c):
    """(maxbin, [(col, [Fraction])]) : r, gr, gA (, gA_norm for a real scalar) straight from the property statement"""
    d, N = c["d"], c["N"]
    cond = c["cond"]
    kind = cond["kind"]
    delta = Fraction(c["rdelta"])
    L = [Fraction(x) for x in c["box"]]
    V = Fraction(1)
    for x in L:
        V *= x
    maxbin = math.floor(min(L) / (2 * delta))
    ppp = [int(x) for x in c["ppp"]]
    PI = Fraction(math.pi)
    H = [[Fraction(x) for x in row] for row in c["H"]]
    Hi = _inv(H)
    P = [[Fraction(x) for x in row] for row in c["pos"]]
    vals = [[(Fraction(re), Fraction(im)) for re, im in row] for row in cond["vals"]]
    edges2 = [(k * delta) ** 2 for k in range(maxbin + 1)]
    tot = [Fraction(0)] * maxbin
    wA = [Fraction(0)] * maxbin
    for i in range(N):
        for j in range(N):
            if i == j:
                continue
            v = [P[j][k] - P[i][k] for k in range(d)]
            fr_ = [sum(v[a] * Hi[a][k] for a in range(d)) for k in range(d)]
            g = [fr_[k] - _rint_he(fr_[k]) * ppp[k] for k in range(d)]
            w = [sum(g[a] * H[a][k] for a in range(d)) for k in range(d)]
            d2 = sum(x * x for x in w)
            for k in range(maxbin):
                if edges2[k] <= d2 and (d2 < edges2[k + 1] or (k + 1 == maxbin and d2 <= edges2[k + 1])):
                    tot[k] += 1
                    wA[k] += py_weight(kind, d, vals[i], vals[j])
                    break

    def shell(k):
        if d == 3:
            return Fraction(4, 3) * PI * ((k + 1) ** 3 - k ** 3) * delta ** 3
        return PI * ((k + 1) ** 2 - k ** 2) * delta ** 2
    n = sum(1 for v in vals if v[0][0] != 0) if kind == "bool" else N
    out = [("r", [(k + Fraction(1, 2)) * delta for k in range(maxbin)]),
           ("gr", [V / (N * N) * tot[k] / shell(k) for k in range(maxbin)]),
           ("gA", [V / (n * n) * wA[k] / shell(k) if n else Fraction(0) for k in range(maxbin)])]
    if kind == "real":
        mean = sum(v[0][0] for v in vals) / N
        msq = sum(v[0][0] ** 2 for v in vals) / N
        var = msq - mean * mean
        out.append(("gA_norm", [(x - mean * mean) / var if var else Fraction(0) for x in out[2][1]]))
    return maxbin, out


def variance(cond):
    vals = [Fraction(v[0][0]) for v in cond["vals"]]
    n = len(vals)
    mean = sum(vals) / n
    return sum(x * x for x in vals) / n - mean * mean


def np_spec_sq(c):
    """per-vector |Σ_i A_i exp(-i q·r_i)|²/n summed over components (numpy, float64)"""
    cond = c["cond"]
    d = c["d"]
    L = np.array([float(x) for x in c["box"]])
    pos = np.array([[float(x) for x in row] for row in c["pos"]])
    qv = np.array(vectors_of(c), dtype=float).reshape(-1, d) * (2 * np.pi / L)[None, :]
    A = np.array([[complex(float(re), float(im)) for re, im in row] for row in cond["vals"]])
    n = int(np.sum(A[:, 0].real != 0)) if cond["kind"] == "bool" else c["N"]
    ph = np.exp(-1j * (qv @ pos.T))                      # (nq, N)
    F = ph @ A                                            # (nq, m)
    return np.linalg.norm(qv, axis=1), (np.abs(F) ** 2).sum(axis=1) / n


# ----------------------------------------------------------------------------- the property on one case (never uses Impl)

def cmp_cols(cols_real, vals_real, expected, what, tol=1e-9, skip=(), norm_tol=None):
    """values of the columns present on both sides first (a wrong number is the more telling report), then the column list"""
    names = [n for n, _ in expected]
    for n, ev in expected:
        if n in skip or n not in vals_real:
            continue
        rv = vals_real[n]
        if len(rv) != len(ev):
            return "bins", f"{what}: column {n} has {len(rv)} rows, expected {len(ev)} bins"
        for k, (a, b) in enumerate(zip(rv, ev)):
            t = (norm_tol or tol * 30) if n == "gA_norm" else tol
            if isinstance(a, complex):
                if abs(a.imag) > t * max(1.0, abs(a)):
                    return n, f"{what}: {n}[bin {k}] returned the complex number {a!r} but expected {float(b)!r}"
                a = a.real
            if not common.close(a, float(b), t):
                return n, f"{what}: {n}[bin {k}] returned {a!r} but expected {float(b)!r}"
    if cols_real != names:
        return "columns", f"{what}: returned columns {cols_real} but expected {names}"
    return None


def norm_tolerance(cond):
    """gA_norm = (gA − ⟨A⟩²)/(⟨A²⟩ − ⟨A⟩²): 32-bit dtypes take the two averages in float32 (relative error ≤ 2^-23·N each)"""
    if cond["kind"] != "real":
        return None
    var = float(variance(cond))
    if var <= 0:
        return None
    vals = [float(v[0][0]) for v in cond["vals"]]
    msq = sum(x * x for x in vals) / len(vals)
    eps = 2.0 ** -22 if cond["dtype"] == "float32" else 2.0 ** -50
    return max(3e-8, 8 * eps * len(vals) * (msq / var) * (1 + msq / var))


def tol_of(cond):
    return 1e-9


def norm_tol_skip(c):
    """gA_norm is judged only when the variance is well away from zero (its denominator)"""
    cond = c["cond"]
    if cond["kind"] != "real":
        return ()
    if variance(cond) < Fraction(1, 100):
        return ("gA_norm",)
    return ()


def gr_expected(c, spec_cols):
    """what the property demands of the returned frame, from the Spec columns of the driver / brute force"""
    kind = c["cond"]["kind"]
    exp = [(n, v) for n, v in spec_cols if n in ("r", "gr", "gA")]
    if kind == "real":
        exp += [(n, v) for n, v in spec_cols if n == "gA_norm"]
    return exp


def ctype_valid(c):
    ct = c["ctype"]
    return ct in (None, "", "vector", "tensor")


def ctype_matches(c):
    """is `conditiontype` the one the documentation prescribes for this kind of condition?"""
    ct = c["ctype"]
    return (ct in (None, "")) if c["cond"]["kind"] in ("bool", "real", "complex") else ct == default_ctype(c["cond"]["kind"])


def gr_consequences(c, cols, vals):
    """the statement's consequences, measured inside the implementation"""
    cond = c["cond"]
    kind = cond["kind"]
    if kind == "bool":
        full = real_gr_class(c)
        a, K = cond["species"], cond["K"]
        col = "gr" if K == 1 or K > 5 else f"gr{a}{a}"
        if col not in full:
            return "partial", f"real gr class has no column {col} (columns {list(full)})"
        for k, (x, y) in enumerate(zip(vals["gA"], full[col])):
            if not common.close(x, y, 1e-9):
                return "partial", f"boolean selection of species {a}: gA[bin {k}] = {x!r} but the real gr class returns {col}[{k}] = {y!r}"
        for k, (x, y) in enumerate(zip(vals["gr"], full["gr"])):
            if not common.close(x, y, 1e-9):
                return "total", f"reference column gr[bin {k}] = {x!r} but the real gr class returns gr[{k}] = {y!r}"
    if cond.get("special") == "ones":
        for k, (x, y) in enumerate(zip(vals["gA"], vals["gr"])):
            if not common.close(x, y, 1e-9):
                return "ones", f"A = 1: gA[bin {k}] = {x!r} but the total g(r) is {y!r}"
    if kind == "vector" and cond["dtype"] in ("float64", "complex128"):
        acc = None
        for a in range(cond["m"]):
            sub = dict(cond, kind="complex" if cond["dtype"] == "complex128" else "real", rank=1, m=1,
                       vals=[[row[a]] for row in cond["vals"]])
            _, v = real_gr(c, sub, None)
            acc = v["gA"] if acc is None else [x + y for x, y in zip(acc, v["gA"])]
        for k, (x, y) in enumerate(zip(vals["gA"], acc)):
            if not common.close(x, y, 1e-9):
                return "components", f"vector field: gA[bin {k}] = {x!r} but the sum over its components gives {y!r}"
    return None


def failing_gr(c, parsed=None):
    """does the REAL code contradict the property statement on this input?  ('skip', why) | (key, text) | None"""
    if not ctype_valid(c) or not ctype_matches(c):
        return None                       # outside the statement (error branch / mismatched option)
    if c["cond"]["kind"] == "tensor" and not c["cond"].get("symmetric"):
        return None                       # the property quantifies over symmetric tensors (general ones: Impl correspondence only)
    if parsed is None:
        try:
            o = common.drive([op_line(c)])[0]
            if o == "bad-op":
                raise common.Infra("bad-op")
            parsed = parse_gr(o)
        except common.Infra:
            parsed = None
    if parsed is not None:
        if parsed["margin"] < MU:
            return ("skip", "margin")
        spec_mb, spec, mbm = parsed["spec_maxbin"], parsed["spec"], parsed["mb_margin"]
    else:
        spec_mb, spec = py_spec_gr(c)
        mbm = Fraction(1)
    if spec_mb == 0:
        return ("skip", "maxbin0")
    try:
        with np.errstate(all="ignore"):
            cols, vals = real_gr(c)
    except Exception as e:
        return ("raise", f"real conditional_gr raised {type(e).__name__}: {e}")
    real_bins = len(vals[cols[0]]) if cols else 0
    if mbm < MU and real_bins != spec_mb and real_bins == int(min(float(x) for x in c["box"]) / 2.0 / float(c["rdelta"])):
        return ("skip", "maxbin-margin")
    w = cmp_cols(cols, vals, gr_expected(c, spec), "Spec", 1e-9, norm_tol_skip(c), norm_tolerance(c["cond"]))
    if w:
        return w
    try:
        with np.errstate(all="ignore"):
            return gr_consequences(c, cols, vals)
    except Exception as e:
        return ("raise", f"real code raised {type(e).__name__}: {e}")


MKEY_CLASS = Fraction(4, 10 ** 13)    # the `sq` class groups at 1e-6: its rows are compared only when distinct |q| are ≥ 4e-6 apart


def sq_consequences(c, vals, per_real, mkey=None):
    cond = c["cond"]
    if mkey is not None and mkey < MKEY_CLASS and (cond["kind"] == "bool" or cond.get("special") == "ones"):
        return None
    if cond["kind"] == "bool":
        full = real_sq_class(c)                       # averaged per |q|, rounded to 6 decimals
        a, K = cond["species"], cond["K"]
        col = "Sq" if K == 1 or K > 5 else f"Sq{a}{a}"
        if col not in full:
            return "partial", f"real sq class has no column {col} (columns {list(full)})"
        _, _, ave = real_sq(c)
        if len(ave) != len(full[col]):
            return "partial", f"boolean selection: {len(ave)} |q| rows but the real sq class returns {len(full[col])}"
        for k, ((q, x), y) in enumerate(zip(ave, full[col])):
            if not common.close(x, y, 2e-6, 2e-6):
                return "partial", f"boolean selection of species {a}: S(q={q}) = {x!r} but the real sq class returns {col} = {y!r}"
    if cond.get("special") == "ones":
        full = real_sq_class(c)
        _, _, ave = real_sq(c)
        for k, ((q, x), y) in enumerate(zip(ave, full["Sq"])):
            if not common.close(x, y, 2e-6, 2e-6):
                return "ones", f"A = 1: S(q={q}) = {x!r} but the real sq class returns Sq = {y!r}"
    if cond["kind"] == "vector":
        acc = None
        for a in range(cond["m"]):
            sub = dict(cond, kind="complex" if cond["dtype"].startswith("complex") else "real", rank=1, m=1,
                       vals=[[row[a]] for row in cond["vals"]])
            _, v, _ = real_sq(c, sub)
            s = [float(x) for x in v["Sq"]]
            acc = s if acc is None else [x + y for x, y in zip(acc, s)]
        for k, (x, y) in enumerate(zip(per_real, acc)):
            if not common.close(x, y, 1e-6, 1e-6):
                return "components", f"vector field: Sq[vector {k}] = {x!r} but the sum over its components gives {y!r}"
    return None


def sq_tol(cond):
    return 2e-5 if cond["dtype"] in ("float32", "complex64") else 2e-7


def failing_sq(c, parsed=None):
    cond = c["cond"]
    if parsed is None:
        try:
            o = common.drive([op_line(c)])[0]
            if o == "bad-op":
                raise common.Infra("bad-op")
            parsed = parse_sq(o)
        except common.Infra:
            parsed = None
    if parsed is not None and not parsed["raise"] and parsed["mKey"] < MKEY_MIN:
        return ("skip", "key-margin")
    try:
        with np.errstate(all="ignore"):
            cols, vals, ave = real_sq(c)
    except Exception as e:
        return ("raise", f"real conditional_sq raised {type(e).__name__}: {e}")
    qn, want = np_spec_sq(c)
    tol = sq_tol(cond)
    if "Sq" not in vals or "q" not in vals:
        return ("columns", f"returned columns {cols} lack q / Sq")
    got = [float(x) for x in vals["Sq"]]
    if len(got) != len(want):
        return ("rows", f"{len(got)} rows returned for {len(want)} wave vectors")
    for k, (x, y) in enumerate(zip(got, want)):
        if not common.close(x, float(y), tol, tol):
            return ("Sq", f"Sq[vector {k} = {vectors_of(c)[k]}] returned {x!r} but |Σ A_i exp(-i q·r_i)|²/n = {float(y)!r}")
    if parsed is not None and not parsed["raise"]:
        for k, (x, row) in enumerate(zip(got, parsed["per"])):
            if not common.close(x, row[2], tol, tol):
                return ("Sq", f"Sq[vector {k}] returned {x!r} but the Lean Spec gives {row[2]!r}")
        # averaged frame: one row per distinct |q|, mean over the vectors of that |q|
        groups = parsed["groups"]
        if len(ave) != len(groups):
            return ("group", f"averaged frame has {len(ave)} rows but there are {len(groups)} distinct |q|")
        for (q, x), g in zip(ave, groups):
            if not common.close(q, g[0], 1e-6, 1e-6) or not common.close(x, g[2], tol, tol):
                return ("group", f"averaged row (q={q!r}, Sq={x!r}) but the definition gives (q={g[0]!r}, Sq={g[2]!r})")
    try:
        with np.errstate(all="ignore"):
            return sq_consequences(c, vals, got, parsed["mKey"] if parsed is not None and not parsed["raise"] else None)
    except Exception as e:
        return ("raise", f"real code raised {type(e).__name__}: {e}")


def failing(c, parsed=None):
    w = failing_gr(c, parsed) if c["op"] == "gr" else failing_sq(c, parsed)
    return w


# ----------------------------------------------------------------------------- correspondence (Impl vs real code)

def impl_gr(c, parsed):
    """disagreement between the real conditional_gr and Impl (the regenerated data interpreted by the model)"""
    try:
        with np.errstate(all="ignore"):
            cols, vals = real_gr(c)
        raised = None
    except ValueError as e:
        raised = e
    except Exception as e:
        return ("raise", f"real conditional_gr raised {type(e).__name__}: {e}")
    if parsed["impl"] is None:
        return None if raised is not None else ("raise", "Impl rejects conditiontype (ValueError) but the real code returned a frame")
    if raised is not None:
        return ("raise", f"real conditional_gr raised ValueError: {raised}")
    skip = ()
    if parsed["norm"] and (c["cond"]["kind"] not in ("real",) or variance(c["cond"]) < Fraction(1, 100)):
        skip = ("gA_norm",)
    return cmp_cols(cols, vals, parsed["impl"], "Impl", 1e-9, skip, norm_tolerance(c["cond"]))


def impl_sq(c, parsed):
    try:
        with np.errstate(all="ignore"):
            cols, vals, ave = real_sq(c)
    except Exception as e:
        return None if parsed["raise"] else ("raise", f"real conditional_sq raised {type(e).__name__}: {e}")
    if parsed["raise"]:
        return ("raise", "Impl has no branch for this condition but the real code returned a frame")
    tol = sq_tol(c["cond"])
    got = [float(x) for x in vals["Sq"]]
    if len(got) != len(parsed["per"]):
        return ("rows", f"{len(got)} rows returned, Impl has {len(parsed['per'])}")
    for k, (x, row) in enumerate(zip(got, parsed["per"])):
        if not common.close(float(vals["q"][k]), row[0], 1e-7, 1e-7):
            return ("q", f"q[vector {k}] returned {vals['q'][k]!r}, Impl {row[0]!r}")
        if not common.close(x, row[1], tol, tol):
            return ("Sq", f"Sq[vector {k}] returned {x!r}, Impl {row[1]!r}")
    if len(ave) != len(parsed["groups"]):
        return ("group", f"averaged frame has {len(ave)} rows, Impl {len(parsed['groups'])}")
    for (q, x), g in zip(ave, parsed["groups"]):
        if not common.close(q, g[0], 1e-6, 1e-6) or not common.close(x, g[1], tol, tol):
            return ("group", f"averaged row (q={q!r}, Sq={x!r}), Impl (q={g[0]!r}, Sq={g[1]!r})")
    return None


def classify(c):
    cond = c["cond"]
    if c["op"] == "gr":
        return f"gr:{cond['kind']}:{cond['dtype']}:ct={c['ctype']}:d{c['d']}:{c['cell']}:ppp{''.join(c['ppp'])}:{c['config']}"
    return f"sq:{cond['kind']}:{cond['dtype']}:d{c['d']}:{'list' if 'vec' in c else 'default'}"


def run_cases(run, cases, record=True):
    outs = common.drive([op_line(c) for c in cases])
    dis, fail = [], []
    for c, o in zip(cases, outs):
        if o == "bad-op":
            raise common.Infra("driver rejected op: " + op_line(c)[:200])
        cond = c["cond"]
        if record:
            for nm, v in (("op", c["op"]), ("kind", cond["kind"]), ("dtype", cond["dtype"]), ("dim", c["d"]),
                          ("kind×dtype", f"{c['op']}:{cond['kind']}:{cond['dtype']}")):
                run.hist(nm, v)
            if c["op"] == "gr":
                for nm, v in (("cell", c["cell"]), ("mask", "".join(c["ppp"])), ("conditiontype", repr(c["ctype"])),
                              ("config", c["config"]), ("rdelta", c["rdelta"])):
                    run.hist(nm, v)
            else:
                run.hist("vectors", "list" if "vec" in c else "default")
                run.hist("qvector_table", c.get("qdtype", "int32") + (":reused" if c.get("reuse") else ":fresh"))
                run.hist("sq_history", "sibling of the previous case" if c.get("sibling") else "independent")
        if c["op"] == "gr":
            parsed = parse_gr(o)
            if parsed["margin"] < MU:
                if record:
                    run.coverage["skipped_margin"] = run.coverage.get("skipped_margin", 0) + 1
                continue
            if parsed["spec_maxbin"] == 0 or parsed["mb_margin"] < MU:
                if record:
                    run.coverage["skipped_maxbin"] = run.coverage.get("skipped_maxbin", 0) + 1
                continue
            di = impl_gr(c, parsed)
            ds = failing_gr(c, parsed)
            gA = [v for n, vs in (parsed["impl"] or []) if n == "gA" for v in vs]
            nontrivial = any(v != 0 for v in gA)
            sample = {"case": classify(c), "op": op_line(c)[:300], "maxbin": parsed["maxbin"], "model_gA": [float(x) for x in gA][:8]}
        else:
            parsed = parse_sq(o)
            if not parsed["raise"] and parsed["mKey"] < MKEY_MIN:
                if record:
                    run.coverage["skipped_key_margin"] = run.coverage.get("skipped_key_margin", 0) + 1
                continue
            di = impl_sq(c, parsed)
            ds = failing_sq(c, parsed)
            nontrivial = (not parsed["raise"]) and any(abs(r[1]) > 1e-12 for r in parsed["per"])
            sample = {"case": classify(c), "op": op_line(c)[:300], "model_Sq": [r[1] for r in parsed.get("per", [])][:6]}
        if ds and ds[0] == "skip":
            ds = None
        if record:
            run.count(op_line(c), nontrivial, sample=sample)
            if c["op"] == "gr" and not ctype_valid(c):
                run.coverage["error_branch_cases"] = run.coverage.get("error_branch_cases", 0) + 1
        if di:
            dis.append((c, di))
        if ds:
            fail.append((c, ds))
    return dis, fail


def cross_check_spec(run, cases):
    """the Lean Spec (driver) against the independent exact brute force of the statement"""
    cases = [c for c in cases if c["op"] == "gr" and c["N"] <= 9]
    outs = common.drive([op_line(c) for c in cases])
    bad = []
    for c, o in zip(cases, outs):
        p = parse_gr(o)
        mb, ref = py_spec_gr(c)
        got = [(n, v) for n, v in p["spec"] if n in ("r", "gr", "gA", "gA_norm")]
        if mb != p["spec_maxbin"] or [n for n, _ in ref] != [n for n, _ in got] or any(a != b for (_, x), (_, y) in zip(ref, got) for a, b in zip(x, y)):
            bad.append(c)
    run.coverage["spec_cross_checked"] = len(cases)
    return bad


def correspond(run):
    quick = run.tier == "quick"
    ngr, nsq = (130, 70) if quick else (3000, 1500)
    cases = common.load_corpus(PROP)
    kinds = ["bool", "real", "complex", "vector", "tensor"]
    cases += [gen_gr_case(run.rng, big=(i % 5 == 0), kind=(kinds[i % 5] if i < 25 else None)) for i in range(ngr)]
    for i in range(nsq):
        c = gen_sq_case(run.rng, big=(not quick and i % 4 == 0), kind=(kinds[i % 4] if i < 16 else None))
        cases.append(c)
        if i % 3 == 0:
            cases.append(sibling_sq(run.rng, c))      # call history: same timestep, N, box and table; other positions
    dis, fail = [], []
    for s in range(0, len(cases), 100):
        d1, f1 = run_cases(run, cases[s:s + 100])
        dis += d1
        fail += f1
    run.coverage["traces_validated_against_impl"] = run.coverage["evaluations"]
    # scale stream: N ≈ 1 000 – 2 000, coarse bins (counts per particle and bin far above 127), numpy brute force of the statement
    scases = [gen_scale_case(run.rng, k) for k in (["bool", "real"] if quick else ["bool", "real"] * 4)]
    for c in scases:
        w = failing_scale(c)
        run.hist("stream", "scale:" + c["skind"])
        if w and w[0] == "skip":
            continue
        run.count(c, True)
        if w:
            fail.append((c, w))
    # tie stream: lattices whose pair distances are exactly bin edges (exact float arithmetic)
    for k, (n, d, rd) in enumerate([(3, 3, "0.25"), (4, 2, "0.5"), (3, 2, "0.25"), (4, 3, "0.5")]):
        c = {"scale": True, "tie": True, "op": "gr", "skind": ["bool", "real"][k % 2], "species": 1 + k % 2, "sseed": 11 + k,
             "n": n, "d": d, "N": n ** d, "rdelta": rd}
        w = failing_scale(c)
        run.hist("stream", "tie-lattice:" + c["skind"])
        run.count(c, True)
        if w:
            fail.append((c, w))
    # size stream for S(q): particle numbers (and selection sizes) at and around block boundaries 2^k, 3·2^k, 1000
    for kind in (SQSIZE_KINDS if quick else SQSIZE_KINDS * 4):
        c = gen_sqsize_case(run.rng, kind)
        w = failing_scale(c)
        run.hist("stream", "sqsize:" + kind); run.hist("sqsize_n", c["n"])
        run.count(c, True)
        if w:
            fail.append((c, w))
    bad = cross_check_spec(run, cases[:40 if quick else 200])
    if bad:
        raise common.Infra("Lean Spec and the independent brute force disagree on " + op_line(bad[0])[:300])
    broken = []
    if dis:
        broken.append({"kind": "correspondence", "name": "Pms.Cond.Impl~conditional_gr/conditional_sq",
                       "detail": f"{len(dis)} of {len(cases)} cases disagree; first: {dis[0][1][1][:240]}",
                       "cases": [c for c, _ in dis[:20]]})
    if fail:
        broken.append({"kind": "oracle", "name": "conditional_gr/conditional_sq vs Pms.Cond.Spec",
                       "detail": f"{len(fail)} failures; first: {fail[0][1][1][:240]}",
                       "cases": [c for c, _ in fail[:20]], "failing": [(c, w) for c, w in fail[:40]]})
    return broken


# ----------------------------------------------------------------------------- search / shrink / replay

# ----------------------------------------------------------------------------- scale stream (labelled test, see harness/gen/scale.py)

def gen_scale_case(rng, kind):
    from gen import scale
    p = scale.gen_scale_params(rng, K=2)
    p.update({"op": "gr", "skind": kind, "species": rng.choice([1, 2])})
    return p


SQSIZE_KINDS = ["bool", "real", "complex", "vector", "ones"]
SQSIZES = [32, 64, 96, 128, 255, 256, 257, 384, 500, 512, 768, 1000, 1024, 2048]


def gen_sqsize_case(rng, kind):
    """conditional_sq with n summed particles, n at / next to a block boundary; for a selection n of N particles are chosen"""
    n = rng.choice(SQSIZES)
    d = rng.choice([2, 3])
    N = n + rng.choice([0, 1, 37, 88, n]) if kind == "bool" else n
    vecs = []
    while len(vecs) < 6:
        v = [rng.randint(-3, 3) for _ in range(d)]
        if any(v) and v not in vecs:
            vecs.append(v)
    return {"scale": True, "op": "sq", "skind": kind, "sseed": rng.randint(0, 10 ** 9), "n": n, "N": N, "d": d,
            "L": [rng.choice(["6.5", "8", "9.25"]) for _ in range(d)], "vec": vecs, "qdtype": rng.choice(["int64", "float64"])}


def failing_sqsize(c):
    from PyMatterSim.reader.reader_utils import SingleSnapshot
    from PyMatterSim.static.sq import conditional_sq
    g = np.random.default_rng(c["sseed"])
    N, n, d = c["N"], c["n"], c["d"]
    L = np.array([float(x) for x in c["L"]])
    pos = np.round(g.uniform(0.0, 1.0, size=(N, d)) * L, 3)
    kind = c["skind"]
    if kind == "bool":
        cond = np.zeros(N, dtype=bool)
        cond[g.permutation(N)[:n]] = True
        w = cond.astype(float)[:, None]
        norm = n
    elif kind == "real":
        cond = np.round(g.uniform(-2, 2, size=N), 3); w = cond[:, None]; norm = N
    elif kind == "complex":
        cond = np.round(g.uniform(-2, 2, size=N), 3) + 1j * np.round(g.uniform(-2, 2, size=N), 3); w = cond[:, None]; norm = N
    elif kind == "vector":
        cond = np.round(g.uniform(-2, 2, size=(N, d)), 3); w = cond; norm = N
    else:
        cond = np.ones(N); w = cond[:, None]; norm = N
    qi = np.array(c["vec"], dtype=c["qdtype"])
    q = np.array(c["vec"], dtype=float) * (2 * np.pi / L)[None, :]
    amp = np.exp(-1j * (pos @ q.T)).T @ w                       # [nq, components]
    exp = (np.abs(amp) ** 2).sum(axis=1) / norm
    snap = SingleSnapshot(timestep=0, nparticle=N, particle_type=np.ones(N, dtype=int), positions=pos.copy(), boxlength=L.copy(),
                          boxbounds=np.column_stack((np.zeros(d), L)), realbounds=None, hmatrix=np.diag(L))
    try:
        with np.errstate(all="ignore"):
            res, _ave = conditional_sq(snap, qi, cond.copy())
    except Exception as e:
        return ("raise", f"real conditional_sq raised {type(e).__name__}: {e} ({n} of N = {N} particles summed, size stream)")
    got = np.asarray(res["Sq"], dtype=float)
    if got.shape != exp.shape:
        return ("shape", f"conditional_sq returned {got.shape[0]} rows for {exp.shape[0]} wave vectors (size stream)")
    for k in range(len(exp)):
        if not abs(got[k] - exp[k]) <= 1e-6 + 1e-7 * abs(exp[k]):
            return ("value", f"conditional_sq {kind} condition, {n} of N = {N} particles summed, q = {c['vec'][k]}: returned Sq = "
                             f"{got[k]!r}, |Σ A_i exp(−iq·r_i)|²/n = {exp[k]!r}")
    return None


def failing_scale(c):
    """real conditional_gr on a large configuration against the numpy brute force of the statement"""
    if c.get("op") == "sq":
        return failing_sqsize(c)
    from gen import scale
    from PyMatterSim.reader.reader_utils import SingleSnapshot
    from PyMatterSim.static.gr import conditional_gr
    if c.get("tie"):
        # tie stream: a simple (hyper)cubic lattice of spacing 1 on dyadic coordinates in a box of edge n + 1/2 — float arithmetic is
        # exact, no rint argument is a half-integer, and MANY pair distances (1, 2, 3, …) are exactly bin edges: the histogram
        # convention [a, b) (last bin closed) decides where they are counted
        n, d = c["n"], c["d"]
        idx = np.array(np.meshgrid(*[np.arange(n)] * d, indexing="ij")).reshape(d, -1).T
        pos = idx.astype(float) + 0.25
        types = (idx.sum(axis=1) % 2 + 1).astype(int)
        L = np.full(d, n + 0.5)
    else:
        pos, types, L = scale.scale_arrays(c)
    N, d, delta = c["N"], c["d"], float(c["rdelta"])
    maxbin = int(L.min() / 2.0 / delta)
    if c["skind"] == "bool":
        cond = types == c["species"]
        w = cond.astype(float)
        n = int(cond.sum())
        ctype = None
    else:
        g = np.random.default_rng(c["sseed"] + 1)
        cond = np.round(g.uniform(0.5, 2.5, size=N), 3)
        w = cond
        n = N
        ctype = None
    tot, wsum, margin = scale.pair_hist(pos, L, delta, maxbin, w)
    if margin < 1e-9 and not c.get("tie"):
        return ("skip", "margin")
    V = float(np.prod(L))
    exp = {"r": [(k + 0.5) * delta for k in range(maxbin)],
           "gr": [V / (N * N) * tot[k] / scale.shell(d, k, delta) for k in range(maxbin)],
           "gA": [V / (n * n) * wsum[k] / scale.shell(d, k, delta) for k in range(maxbin)]}
    snap = SingleSnapshot(timestep=0, nparticle=N, particle_type=types, positions=pos.copy(), boxlength=L.copy(),
                          boxbounds=np.column_stack((np.zeros(d), L)), realbounds=None, hmatrix=np.diag(L))
    try:
        with np.errstate(all="ignore"):
            df = conditional_gr(snap, cond.copy(), ctype, np.array([1] * d), delta)
    except Exception as e:
        return ("raise", f"real conditional_gr raised {type(e).__name__}: {e} (N = {N}, scale stream)")
    for col, ev in exp.items():
        if col not in df.columns:
            return ("columns", f"scale stream: column {col} missing from {list(df.columns)}")
        rv = [float(x) for x in df[col].values]
        if len(rv) != len(ev):
            return ("bins", f"scale stream: column {col} has {len(rv)} rows, expected {len(ev)} bins")
        for k, (a, b) in enumerate(zip(rv, ev)):
            if not common.close(a, b, 1e-9):
                return (col, f"scale stream (N = {N}, {c['skind']} condition, rdelta {c['rdelta']}): {col}[bin {k}] returned {a!r} "
                             f"but the weighted ordered-pair histogram of the statement gives {b!r}")
    return None


def sig(c):
    if c.get("scale") and c.get("op") == "sq":
        return f"conditional_sq:size:{c['skind']}"
    if c.get("scale"):
        return f"conditional_gr:scale:{c['skind']}"
    cond = c["cond"]
    return f"{'conditional_gr' if c['op'] == 'gr' else 'conditional_sq'}:{cond['kind']}:{cond['dtype']}"


def real_failure(c):
    if c.get("scale"):
        w = failing_scale(c)
        return w if w and w[0] != "skip" else None
    w = failing(c)
    return w if w and w[0] != "skip" else None


def drop_particle(c, a):
    cond = dict(c["cond"], vals=c["cond"]["vals"][:a] + c["cond"]["vals"][a + 1:])
    if "types" in cond:
        cond["types"] = cond["types"][:a] + cond["types"][a + 1:]
        if set(cond["types"]) != set(c["cond"]["types"]) or sum(1 for t in cond["types"] if t == cond["species"]) < 1:
            return None
    return dict(c, N=c["N"] - 1, pos=c["pos"][:a] + c["pos"][a + 1:], cond=cond)


def shrink(c):
    if c.get("scale"):
        return c
    best = c
    changed = True
    while changed and best["N"] > 2:
        changed = False
        for a in range(best["N"] - 1, -1, -1):
            cand = drop_particle(best, a)
            if cand is not None and real_failure(cand):
                best = cand
                changed = True
                break
    if best["op"] == "sq" and "vec" in best and len(best["vec"]) > 1:
        for v in best["vec"]:
            cand = dict(best, vec=[v])
            if real_failure(cand):
                best = cand
                break
    return best


def directed_cases(rng):
    out = []
    for kind in ("bool", "real", "complex", "vector", "tensor"):
        for dt in sorted(set(KIND_DTYPES[kind])):
            for _ in range(3):
                for _try in range(60):
                    c = gen_gr_case(rng, kind=kind)
                    if c["cond"]["dtype"] == dt and ctype_matches(c):
                        out.append(c)
                        break
            if kind != "tensor":
                for _ in range(2):
                    for _try in range(60):
                        c = gen_sq_case(rng, kind=kind)
                        if c["cond"]["dtype"] == dt:
                            out.append(c)
                            break
    return out


def search(run, broken):
    found = set()
    tried = 0
    pool = []
    for b in broken:
        pool += [c for c, _ in b.get("failing", [])]
        pool += list(b.get("cases", []))
    if any(b["kind"] != "oracle" for b in broken) or not pool:
        pool += directed_cases(run.rng)
        n = 120 if run.tier == "quick" else 900
        pool += [gen_gr_case(run.rng) for _ in range(n)]
        for _ in range(n // 2):
            c0 = gen_sq_case(run.rng)
            pool += [c0, sibling_sq(run.rng, c0)]
        for kind in SQSIZE_KINDS:                      # every block-boundary size once per kind of condition
            for n in SQSIZES:
                c0 = gen_sqsize_case(run.rng, kind)
                c0["N"] = c0["N"] - c0["n"] + n if kind == "bool" and c0["N"] != 2 * c0["n"] else (2 * n if kind == "bool" else n)
                c0["n"] = n
                pool.append(c0)
    for c in pool:
        tried += 1
        why = real_failure(c)
        if not why:
            continue
        key = f"C13:{sig(c)}:{why[0]}"
        if key in found:
            continue
        c2 = shrink(c)
        why2 = real_failure(c2) or why
        key = f"C13:{sig(c2)}:{why2[0]}"
        if key in found:
            continue
        found.add(key)
        run.violation(key, why2[1], {"case": c2, "broken": [b["name"] for b in broken][:5]})
        if len(found) >= 6:
            break
    run.coverage["search_cases"] = tried
    return [] if found else list(broken)


def replay(run, rp):
    c = rp.get("case")
    if c is not None:
        return bool(real_failure(c))
    return any(real_failure(c) for c in rp.get("cases", []))
