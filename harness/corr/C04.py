"""C04 — S(q).  Tie = translator (routing chain, product list, divisors, dispatch, __init__ arithmetic of sq.py and the loop
nest / filters of choosewavevector are REGENERATED into Pms/Gen/{Sq,Wave}.lean, which the theorems quantify over and the
compiled model interprets) + differential correspondence of the real `sq(...).getresults()` with that model (Impl mode).
Failing-input search = real code against the Spec (driver `spec` mode with independently enumerated wave vectors, a
numpy brute-force of the density-mode definition, and the monitors of the property's own statements)."""
import itertools
import logging
import math
import os
import shutil
import tempfile
from fractions import Fraction

import numpy as np

import common
from common import dec, bits2float

logging.disable(logging.WARNING)      # the library logs every call at INFO

PROP = "C04"
PROPS_FILES = ["Pms/Props/C04.lean"]
GENERATORS = ["sq", "wave"]
RULE = ("seeded trajectories: d∈{2,3} × species K∈1..6 (ids 1..K, every species present, random composition) × N≤26 (thorough: ≤40) × 1..3 frames "
        "× orthogonal box with pairwise different decimal-grid edges × positions on a decimal grid (also outside the box) × "
        "{explicit integer wave-vector list incl. ±/duplicate/zero vectors, default set from qrange with onlypositive∈{False,True,'x','y','z'}}; "
        "judged only if the int() of numofq is ≥1e-6 from its flip point and distinct |q| are ≥4e-6 apart (exact ℚ check on |n/L|²; the code groups at 1e-6; every fifth box has nearly equal edges); "
        "non-trivial = some |q| group averages ≥2 vectors or partial columns exist (2≤K≤5); distinct = distinct literal inputs")
TRUSTED_BASE = [
    "Lean 4.33 kernel; axioms propext, Classical.choice, Quot.sound only",
    "proved for all inputs over any ordered field with cos/sin arrays arbitrary: regenerated routing/product/divisor tables give Spec.S_ab "
    "(Impl = Spec), sum rule, non-negativity, group-mean structure, default wave-vector set characterisation; and over ℝ/ℂ: the pair-form "
    "equals Re[ρ_a(q)ρ_b(−q)] with ρ defined by Complex.exp",
    "contracts (not proved): float64 ≈ ℝ; np.exp(-1j·θ) = (cos θ, −sin θ); np.unique = sorted distinct ids + counts; math.sqrt as a "
    "non-negative root; DataFrame.round(6) as a map within 5e-7 that is monotone and fixes 0; pandas groupby(q).mean() = mean over rows "
    "of equal rounded q, keys ascending; modf(sqrt(n))[0]==0 ⇔ n is a perfect square; int() truncation; np.linalg.norm",
    "species ids are assumed to be exactly 1..K (the library-wide LAMMPS convention); composition constant over frames",
    "translator translator/gens/sq.py (AST walkers) and this harness (generators, margin guard, tolerance 2e-6 after round(6)) are trusted; "
    "mitigated by the mutant self-test recorded in design/C04.md",
]

TOL = 2e-6
KEYTOL = 1.5e-6
MKEY_MIN = Fraction(4, 10 ** 13)      # ((q2-q1)/2π)² ≥ (6.3e-7)²  ⇒ q2-q1 ≥ 4e-6: four times the 1e-6 resolution at which the code groups
MINT_MIN = Fraction(1, 10 ** 6)


# ----------------------------------------------------------------------------- generator

def gen_case(rng, tier="quick", force=None):
    d = rng.choice([2, 3])
    K = rng.choice([1, 2, 2, 3, 3, 4, 4, 5, 5, 6])
    if force:
        d, K = force.get("d", d), force.get("K", K)
    big = tier == "thorough" and rng.random() < 0.3
    N = rng.randint(K, K + 34) if big else rng.randint(K, min(26, K + 18))
    T = rng.choice([1, 1, 2, 3])
    while True:
        L = [dec(rng, 3, 9, rng.choice([1, 2, 3])) for _ in range(d)]
        if rng.random() < 0.2:
            # nearly equal edges (an anisotropic barostat): |q| of (1,0,…) and (0,1,…) differ by a few 1e-5 — distinct shells at the
            # code's 1e-6 resolution, which must NOT be averaged together
            for j in range(1, d):
                L[j] = str(Fraction(L[0]) + Fraction(rng.choice([4, 7, 10, -5, 12]), 10 ** 4) * j).replace("/", "/")
                L[j] = format(float(Fraction(L[j])), ".4f")
        if len({Fraction(x) for x in L}) == d:
            break
    types = list(range(1, K + 1)) + [rng.randint(1, K) for _ in range(N - K)]
    rng.shuffle(types)
    ty = []
    for f in range(T):
        if f and rng.random() < 0.25:
            t2 = types[:]
            rng.shuffle(t2)       # same composition, different particles
            ty.append(t2)
        else:
            ty.append(types[:])
    pos = [[[dec(rng, -1.5, float(L[j]) + 1.5, 3) for j in range(d)] for _ in range(N)] for _ in range(T)]
    c = {"d": d, "T": T, "N": N, "K": K, "L": L, "ty": ty, "pos": pos, "again": rng.choice([0, 0, 0, 1, 2])}
    if rng.random() < 0.5:
        nq = rng.randint(1, 24 if big else 10)
        vs = []
        while len(vs) < nq:
            r = rng.random()
            if vs and r < 0.3:
                v = [-x for x in rng.choice(vs)]                 # −q: same |q|
            elif vs and r < 0.4:
                v = list(rng.choice(vs))                          # duplicate
            elif vs and r < 0.5:
                v = list(rng.choice(vs))
                j = rng.randrange(d)
                v[j] = -v[j]                                      # mirror one axis: same |q|
            elif r < 0.55:
                v = [0] * d
            else:
                v = [rng.randint(-7, 7) if big else rng.randint(-4, 4) for _ in range(d)]
            vs.append(v)
        c["vec"] = vs
    else:
        # pick qrange so that numofq lands in a useful range: numofq = int(qrange·Lmax/π)
        Lmax = max(float(x) for x in L)
        want = rng.randint(2, (22 if big else 14) if d == 2 else (10 if big else 7)) + rng.random()
        if rng.random() < 0.05:
            want = rng.random() * 2       # numofq 0 or 1: empty set
        c["qrange"] = dec(rng, want * math.pi / Lmax, want * math.pi / Lmax, 3)
        c["onlypos"] = rng.choice(["F", "F", "T", "x", "y", "z"])
    return c


SIZES = [32, 64, 96, 128, 255, 256, 257, 384, 500, 512, 768, 1000, 1024]


def gen_size_case(rng, K=None, n=None):
    """size stream: species populations at / next to block boundaries (2^k, 3·2^k, 1000); judged by the numpy brute force of the
    statement only (the exact-ℚ driver is not run at this size) — a labelled test supporting the tie, not a theorem"""
    d = rng.choice([2, 3])
    K = K or rng.choice([1, 2, 2, 3])
    counts = [n or rng.choice(SIZES)] + [rng.choice([rng.choice(SIZES[:8]), rng.randint(1, 40)]) for _ in range(K - 1)]
    rng.shuffle(counts)
    N = sum(counts)
    types = [k + 1 for k, n in enumerate(counts) for _ in range(n)]
    rng.shuffle(types)
    T = rng.choice([1, 2])
    L = [rng.choice(["6.5", "8", "9.25", "7.3"]) for _ in range(d)]
    while len(set(L)) < d:
        L = [rng.choice(["6.5", "8", "9.25", "7.3"]) for _ in range(d)]
    g = np.random.default_rng(rng.randint(0, 10 ** 9))
    pos = [[[format(x, ".3f") for x in row] for row in np.round(g.uniform(0, 1, size=(N, d)) * np.array([float(x) for x in L]), 3)]
           for _ in range(T)]
    vs = []
    while len(vs) < 5:
        v = [rng.randint(-3, 3) for _ in range(d)]
        if any(v) and v not in vs and [-x for x in v] not in vs:
            vs.append(v)
    return {"d": d, "T": T, "N": N, "K": K, "L": L, "ty": [types[:] for _ in range(T)], "pos": pos, "vec": vs, "size": counts}


def op_line(c, mode="impl", vectors=None):
    head = "sq {} {} {} {} {} {} {}".format(
        mode, c["d"], c["T"], c["N"], " ".join(c["L"]),
        " ".join(str(t) for fr_ in c["ty"] for t in fr_),
        " ".join(x for fr_ in c["pos"] for p in fr_ for x in p))
    vs = vectors if vectors is not None else c.get("vec")
    if vs is not None:
        return head + " E {} {}".format(len(vs), " ".join(str(x) for v in vs for x in v))
    return head + " D {} {}".format(c["qrange"], c["onlypos"])


def parse_out(o):
    t = o.split()
    r = {"mInt": Fraction(t[0]), "mKey": Fraction(t[1]), "numofq": int(t[2]), "K": int(t[3])}
    nv = int(t[4])
    return r, nv, t[5:]


def parse_model(o, d):
    r, nv, t = parse_out(o)
    r["vec"] = [[int(x) for x in t[k * d:(k + 1) * d]] for k in range(nv)]
    t = t[nv * d:]
    nc = int(t[0])
    r["cols"] = t[1:1 + nc]
    t = t[1 + nc:]
    ng = int(t[0])
    t = t[1:]
    r["rows"] = [[bits2float(x) for x in t[g * (nc + 1):(g + 1) * (nc + 1)]] for g in range(ng)]
    return r


# ----------------------------------------------------------------------------- the real code

def snapshots_of(c):
    from PyMatterSim.reader.reader_utils import SingleSnapshot, Snapshots
    d = c["d"]
    L = np.array([float(x) for x in c["L"]])
    snaps = []
    for f in range(c["T"]):
        pos = np.array([[float(x) for x in p] for p in c["pos"][f]], dtype=float).reshape(c["N"], d)
        snaps.append(SingleSnapshot(timestep=f, nparticle=c["N"], particle_type=np.array(c["ty"][f], dtype=int), positions=pos,
                                    boxlength=L.copy(), boxbounds=np.column_stack((np.zeros(d), L)), realbounds=None, hmatrix=np.diag(L)))
    return Snapshots(nsnapshots=c["T"], snapshots=snaps)


def real_run(c, outputfile=None):
    """-> dict(vec, cols, rows) from the real sq(...).getresults()"""
    from PyMatterSim.static.sq import sq
    kw = {}
    if "vec" in c:
        kw["qvector"] = np.array(c["vec"], dtype=np.int64).reshape(len(c["vec"]), c["d"])
        # options that are documented as ignored when the wave vectors are supplied must be ignored: a value chosen from the list itself
        import zlib
        k = zlib.crc32(repr(c["vec"]).encode()) % 5
        if k:
            kw["onlypositive"] = [None, True, "x", False, "z"][k]
            kw["qrange"] = [None, 3.0, 12.5, 0.5, 7.0][k]
    else:
        kw["qrange"] = float(c["qrange"])
        kw["onlypositive"] = {"F": False, "T": True}.get(c["onlypos"], c["onlypos"])
    if outputfile:
        kw["outputfile"] = outputfile
        kw["saveqvectors"] = True
    obj = sq(snapshots_of(c), **kw)
    # object history: earlier compute calls on the SAME object (the judged result is the last one)
    for k in range(c.get("again", 0)):
        (obj.getresults if k == 0 else obj.unary)()
    res = obj.getresults()
    if res is None:
        raise ValueError("getresults() returned None")
    cols = list(res.columns)
    return {"vec": [[int(x) for x in row] for row in np.asarray(obj.df_qvector.values).reshape(-1, c["d"]).tolist()],
            "cols": cols[1:], "qcol": cols[0] if cols else None,
            "rows": [[float(x) for x in row] for row in res.values.tolist()], "frame": res}


real_run = common.with_history(real_run)


# ----------------------------------------------------------------------------- independent oracles (Spec side)

def is_square(n):
    r = math.isqrt(n)
    return r * r == n


def py_default_set(d, numofq, onlypos):
    """the property's own words: all non-zero integer vectors of the range [-h, h) whose norm is an integer (+ option)"""
    h = numofq // 2
    axis = {"x": 0, "y": 1, "z": 2}
    out = []
    for v in itertools.product(range(-h, h), repeat=d):
        if not any(v) or not is_square(sum(x * x for x in v)):
            continue
        if onlypos == "T" and any(x < 0 for x in v):
            continue
        if onlypos in axis and axis[onlypos] < d and not (v[axis[onlypos]] > 0 and all(x == 0 for j, x in enumerate(v) if j != axis[onlypos])):
            continue
        out.append(list(v))
    return out


def py_spec(c, vecs):
    """numpy brute force of the statement: per-vector S_ab = <Re ρ_a(q) conj ρ_b(q)>/sqrt(N_a N_b), round(6), mean over equal |n/L|²"""
    d, T, N = c["d"], c["T"], c["N"]
    L = np.array([float(x) for x in c["L"]])
    n = np.array(vecs, dtype=float).reshape(len(vecs), d)
    qv = n * (2 * np.pi / L)[None, :]
    t0 = np.array(c["ty"][0])
    K = len(set(c["ty"][0]))
    pairs = [] if (K == 1 or K > 5) else [(a, a) for a in range(1, K + 1)] + [(a, b) for a in range(1, K + 1) for b in range(a + 1, K + 1)]
    acc = {p: np.zeros(len(vecs)) for p in pairs}
    tot = np.zeros(len(vecs))
    for f in range(T):
        pos = np.array([[float(x) for x in p] for p in c["pos"][f]]).reshape(N, d)
        ph = np.exp(-1j * (pos @ qv.T))
        tf = np.array(c["ty"][f])
        rho = {a: ph[tf == a].sum(axis=0) for a in range(1, K + 1)}
        r = ph.sum(axis=0)
        tot += (r * np.conj(r)).real
        for (a, b) in pairs:
            acc[(a, b)] += (rho[a] * np.conj(rho[b])).real
    cols = ["Sq"] + [f"Sq{a}{b}" for a, b in pairs]
    vals = {"Sq": tot / T / N}
    for (a, b) in pairs:
        vals[f"Sq{a}{b}"] = acc[(a, b)] / T / math.sqrt(int((t0 == a).sum()) * int((t0 == b).sum()))
    keys = [sum((Fraction(int(x)) / Fraction(Lj)) ** 2 for x, Lj in zip(v, c["L"])) for v in vecs]
    rows = []
    for k in sorted(set(keys)):
        idx = [i for i, kk in enumerate(keys) if kk == k]
        rows.append([2 * math.pi * math.sqrt(float(k))] + [float(np.mean(np.round(vals[col][idx], 6))) for col in cols])
    return {"cols": cols, "rows": rows}


def compare_tables(real, exp, what):
    """rows matched by key with tolerance; returns failure text or None"""
    if real["cols"] != exp["cols"]:
        return f"columns: returned {real['cols']} expected {exp['cols']} ({what})"
    if len(real["rows"]) != len(exp["rows"]):
        return f"rows: {len(real['rows'])} |q| groups returned, {len(exp['rows'])} expected ({what})"
    rr = sorted(real["rows"])
    ee = sorted(exp["rows"])
    for a, b in zip(rr, ee):
        if abs(a[0] - round(b[0], 6)) > KEYTOL:
            return f"q: returned key {a[0]!r}, expected {round(b[0], 6)!r} ({what})"
        for col, x, y in zip(real["cols"], a[1:], b[1:]):
            if not (abs(x - y) <= TOL * max(1.0, abs(y))):
                return f"{col}: returned {x!r} at q={a[0]!r}, expected {y!r} ({what})"
    return None


def monitors(c, real):
    """the property's own statements on the REAL output: sum rule, non-negative diagonals, 1e-6 rounding of singleton groups"""
    cols = real["cols"]
    t0 = c["ty"][0]
    K = len(set(t0))
    Na = {a: t0.count(a) for a in range(1, K + 1)}
    N = c["N"]
    vecs = real["vec"]
    keys = [sum((Fraction(int(x)) / Fraction(Lj)) ** 2 for x, Lj in zip(v, c["L"])) for v in vecs]
    sizes = sorted((2 * math.pi * math.sqrt(float(k)), keys.count(k)) for k in set(keys))
    rows = sorted(real["rows"])
    for gi, row in enumerate(rows):
        v = dict(zip(cols, row[1:]))
        for col, x in v.items():
            if col == "Sq" or (len(col) == 4 and col[2] == col[3]):
                if x < 0:
                    return f"nonneg: {col} = {x!r} < 0 at q={row[0]!r}"
        if 2 <= K <= 5 and all(f"Sq{a}{a}" in v for a in Na):
            rhs = sum(Na[a] * v[f"Sq{a}{a}"] for a in Na)
            slack = 5e-7 * (N + sum(Na.values()))
            for a in Na:
                for b in Na:
                    if a < b:
                        if f"Sq{a}{b}" not in v:
                            return f"columns: cross column Sq{a}{b} missing"
                        w = math.sqrt(Na[a] * Na[b])
                        rhs += 2 * w * v[f"Sq{a}{b}"]
                        slack += 2 * w * 5e-7
            if abs(N * v["Sq"] - rhs) > slack + 1e-9 * max(1.0, abs(rhs)):
                return f"sumrule: N·S = {N * v['Sq']!r} but Σ N_a S_aa + 2Σ√(N_a N_b) S_ab = {rhs!r} at q={row[0]!r}"
        if len(sizes) == len(rows) and sizes[gi][1] == 1:
            for col, x in v.items():
                if abs(x * 1e6 - round(x * 1e6)) > 1e-4:
                    return f"round: {col} = {x!r} at q={row[0]!r} (single vector) is not rounded to 1e-6"
    return None


# ----------------------------------------------------------------------------- correspondence

def classify(c):
    return "d{}:K{}:T{}:{}".format(c["d"], c["K"], c["T"], "explicit" if "vec" in c else "default-" + c["onlypos"])


def judge(c, model, real):
    """real vs Impl model; returns failure text or None"""
    if real["vec"] != model["vec"]:
        return f"vectors: real code uses {real['vec'][:8]}… ({len(real['vec'])}), model {model['vec'][:8]}… ({len(model['vec'])})"
    if real["qcol"] != "q":
        return f"columns: first column is {real['qcol']!r}"
    return compare_tables(real, model, "Impl model")


def check_csv(c, rng):
    """glue: the csv files agree with the returned frame"""
    tmp = tempfile.mkdtemp(prefix="c04-")
    try:
        out = os.path.join(tmp, "sq.csv")
        real = real_run(c, outputfile=out)
        import pandas as pd
        got = pd.read_csv(out)
        if list(got.columns) != ["q"] + real["cols"]:
            return f"csv: columns {list(got.columns)}"
        if got.shape[0] != len(real["rows"]) or (got.shape[0] and np.max(np.abs(got.values - np.array(real["rows"]))) > 6e-7):
            return "csv: values differ from the returned frame by more than the %.6f format"
        qv = pd.read_csv(out[:-4] + "_qvectors.csv")
        d = c["d"]
        if list(qv.columns) != [f"q{i}" for i in range(d)] + ["q"] + real["cols"] or qv.shape[0] != len(real["vec"]):
            return f"csv: _qvectors file has columns {list(qv.columns)} and {qv.shape[0]} rows"
        if qv.shape[0] and not np.array_equal(qv.values[:, :d].astype(int), np.array(real["vec"]).reshape(-1, d)):
            return "csv: _qvectors integer vectors differ"
        return None
    finally:
        shutil.rmtree(tmp, ignore_errors=True)


def run_cases(run, cases, record=True):
    outs = common.drive([op_line(c) for c in cases])
    dis, mon = [], []
    skipped = 0
    for idx, (c, o) in enumerate(zip(cases, outs)):
        if o == "bad-op":
            raise common.Infra("driver rejected op: " + op_line(c)[:200])
        model = parse_model(o, c["d"])
        if model["mInt"] < MINT_MIN or model["mKey"] < MKEY_MIN:
            skipped += 1
            continue
        try:
            real = real_run(c)
        except Exception as e:
            dis.append((c, f"raised: real code raised {type(e).__name__}: {e}"))
            continue
        if record:
            run.hist("dim", c["d"]); run.hist("species", c["K"]); run.hist("frames", c["T"])
            run.hist("vectors", "explicit" if "vec" in c else "default:" + c["onlypos"])
            run.hist("nvec", min(len(model["vec"]) // 10 * 10, 200))
            run.hist("groups_lt_vectors", len(model["rows"]) < len(model["vec"]))
            nontriv = len(model["rows"]) < len(model["vec"]) or 2 <= c["K"] <= 5
            run.count(op_line(c), nontriv, sample={"case": classify(c), "nvec": len(model["vec"]), "cols": model["cols"],
                                                   "first_row_model": model["rows"][:1], "first_row_real": real["rows"][:1]})
        why = judge(c, model, real)
        if why:
            dis.append((c, why))
            continue
        why = monitors(c, real)
        if why is None and idx % 7 == 0:
            why = check_csv(c, run.rng)
        if why:
            mon.append((c, why))
    run.coverage["skipped_inside_margin"] = run.coverage.get("skipped_inside_margin", 0) + skipped
    return dis, mon


def wave_sweep(run):
    """choosewavevector itself against the regenerated model, exact, over a grid of (ndim, numofq, onlypositive)"""
    from PyMatterSim.utils.wavevector import choosewavevector
    cases = []
    top2, top3 = (24, 9) if run.tier == "quick" else (60, 16)
    for d, top in ((2, top2), (3, top3)):
        for n in range(0, top + 1):
            for p in ("F", "T", "x", "y", "z"):
                cases.append((d, n, p))
    outs = common.drive([f"wave {d} {n} {p}" for d, n, p in cases])
    bad = []
    for (d, n, p), o in zip(cases, outs):
        t = o.split()
        model = [[int(x) for x in t[1 + k * d:1 + (k + 1) * d]] for k in range(int(t[0]))]
        try:
            real = np.asarray(choosewavevector(d, n, {"F": False, "T": True}.get(p, p))).reshape(-1, d).tolist()
        except Exception as e:
            bad.append(({"wave": [d, n, p]}, f"raised: choosewavevector({d},{n},{p}) raised {type(e).__name__}: {e}"))
            continue
        run.hist("wave_sweep", f"d{d}")
        run.coverage["evaluations"] += 1
        if real != model:
            bad.append(({"wave": [d, n, p]}, f"vectors: choosewavevector({d},{n},{p!r}) returns {len(real)} vectors, model {len(model)}"))
    return bad


def sibling(rng, c):
    """same frame count, labels, composition, box, wave vectors — other positions"""
    s = dict(c)
    s["pos"] = [[[dec(rng, -1.5, float(c["L"][j]) + 1.5, 3) for j in range(c["d"])] for _ in range(c["N"])] for _ in range(c["T"])]
    return s


def correspond(run):
    n = 160 if run.tier == "quick" else 2500
    cases = common.load_corpus(PROP) + common.add_siblings(run.rng, [gen_case(run.rng, run.tier) for _ in range(n)], sibling)
    dis, mon = run_cases(run, cases)
    wbad = wave_sweep(run)
    run.coverage["traces_validated_against_impl"] = run.coverage["evaluations"]
    for _ in range(4 if run.tier == "quick" else 24):
        c = gen_size_case(run.rng)
        run.hist("stream", "size"); run.hist("size_population", max(c["size"]))
        run.count({k: c[k] for k in ("size", "vec", "L", "T")}, True)
        w = failing(c)
        if w:
            mon.append((c, w[1]))
    broken = []
    if dis:
        broken.append({"kind": "correspondence", "name": "Pms.Sq.Method.table~sq.getresults",
                       "detail": f"{len(dis)} of {len(cases)} cases disagree; first: {dis[0][1][:300]}", "cases": [c for c, _ in dis[:20]]})
    if mon:
        broken.append({"kind": "monitor", "name": "C04 monitors on real output",
                       "detail": f"{len(mon)} monitor failures; first: {mon[0][1][:300]}", "cases": [c for c, _ in mon[:20]]})
    if wbad:
        broken.append({"kind": "correspondence", "name": "Pms.Wave.choose~choosewavevector",
                       "detail": f"{len(wbad)} disagreements; first: {wbad[0][1][:300]}", "cases": [c for c, _ in wbad[:20]]})
    return broken


# ----------------------------------------------------------------------------- failing-input search (real code vs Spec)

def numofq_of(c):
    """int(qrange·2/(2π/Lmax)) with a guard: None if within 1e-6 of a flip"""
    x = float(Fraction(c["qrange"]) * max(Fraction(v) for v in c["L"])) / math.pi
    if abs(x - round(x)) < 1e-6:
        return None
    return int(x)


def failing(c):
    """does the REAL code contradict the property statement on this input?  -> (key, text) or None.
    Uses only Spec-side oracles: independently enumerated default set, numpy brute force, driver spec mode, monitors."""
    if "wave" in c:
        from PyMatterSim.utils.wavevector import choosewavevector
        d, n, p = c["wave"]
        try:
            real = np.asarray(choosewavevector(d, n, {"F": False, "T": True}.get(p, p))).reshape(-1, d).tolist()
        except Exception as e:
            return ("C04:vectors:raised", f"choosewavevector({d},{n},{p!r}) raised {type(e).__name__}: {e}")
        exp = py_default_set(d, n, p)
        if sorted(real) != sorted(exp):
            extra = [v for v in real if v not in exp][:3]
            miss = [v for v in exp if v not in real][:3]
            return ("C04:vectors:default", f"choosewavevector({d},{n},{p!r}): not the non-zero integer-norm vectors of [-{n // 2},{n // 2}): "
                    f"{len(real)} returned, {len(exp)} expected; unexpected {extra}, missing {miss}")
        return None
    try:
        real = real_run(c)
    except Exception as e:
        return ("C04:raised", f"sq(...).getresults() raised {type(e).__name__}: {e}")
    if "vec" in c:
        vecs = c["vec"]
        if real["vec"] != vecs:
            return ("C04:vectors:explicit", f"explicit list {vecs[:6]} but the code uses {real['vec'][:6]}")
    else:
        nq = numofq_of(c)
        if nq is None:
            return None
        vecs = py_default_set(c["d"], nq, c["onlypos"])
        if sorted(real["vec"]) != sorted(vecs):
            extra = [v for v in real["vec"] if v not in vecs][:3]
            miss = [v for v in vecs if v not in real["vec"]][:3]
            return ("C04:vectors:default", f"default set for numofq={nq}, onlypositive={c['onlypos']}: {len(real['vec'])} vectors used, "
                    f"{len(vecs)} expected; unexpected {extra}, missing {miss}")
    if real["qcol"] != "q":
        return ("C04:columns", f"first column is {real['qcol']!r}")
    if not vecs:
        return None if not real["rows"] else ("C04:rows", "rows returned for an empty wave-vector set")
    # exact-key guard for the oracle's own grouping
    keys = sorted({sum((Fraction(int(x)) / Fraction(Lj)) ** 2 for x, Lj in zip(v, c["L"])) for v in vecs})
    if any((b - a) ** 2 < MKEY_MIN * 2 * (a + b) for a, b in zip(keys, keys[1:])):
        return None
    exp = py_spec(c, vecs)
    why = compare_tables(real, exp, "density-mode definition, numpy brute force")
    if why is None and os.path.exists(common.DRIVER) and "size" not in c:
        try:
            o = common.drive([op_line(c, "spec", vectors=vecs)])[0]
            if o != "bad-op":
                m = parse_model(o, c["d"])
                if m["mKey"] >= MKEY_MIN:
                    why = compare_tables(real, m, "Spec model")
        except common.Infra:
            pass
    if why is None:
        why = monitors(c, real)
    if why:
        return ("C04:" + why.split(":")[0].split(" ")[0], why)
    return None


def shrink(c):
    """fewer frames → fewer vectors → fewer particles, while the real code still fails with the same key"""
    f0 = failing(c)
    if not f0 or "wave" in c:
        return c
    key = f0[0]

    def still(x):
        try:
            r = failing(x)
        except Exception:
            return False
        return bool(r) and r[0] == key
    best = c
    if best["T"] > 1:
        cand = dict(best, T=1, ty=best["ty"][:1], pos=best["pos"][:1])
        if still(cand):
            best = cand
    if "vec" in best:
        changed = True
        while changed and len(best["vec"]) > 1:
            changed = False
            for k in range(len(best["vec"])):
                cand = dict(best, vec=best["vec"][:k] + best["vec"][k + 1:])
                if still(cand):
                    best, changed = cand, True
                    break
    changed = "size" not in best          # size stream: the populations are the point, keep them
    while changed and best["N"] > 1:
        changed = False
        for i in range(best["N"] - 1, -1, -1):
            t0 = best["ty"][0]
            if t0.count(t0[i]) <= 1:
                continue    # keep every species present
            if any(fr_[i] != t0[i] for fr_ in best["ty"]):
                continue
            cand = dict(best, N=best["N"] - 1, ty=[fr_[:i] + fr_[i + 1:] for fr_ in best["ty"]],
                        pos=[fr_[:i] + fr_[i + 1:] for fr_ in best["pos"]])
            if still(cand):
                best, changed = cand, True
                break
    return best


def directed_cases(rng):
    """small inputs exercising every species pair / every option once"""
    out = []
    for d in (2, 3):
        for K in (1, 2, 3, 4, 5, 6):
            for _ in range(2):
                out.append(gen_case(rng, force={"d": d, "K": K}))
    for d, top in ((2, 16), (3, 12)):      # h = 5 is the first half-range with a mixed integer-norm vector (0,3,4) in 3-D
        for n in range(0, top + 1):
            for p in ("F", "T", "x", "y", "z"):
                out.append({"wave": [d, n, p]})
    return out


def search(run, broken):
    unexplained = []
    tried = 0
    extra = None
    for b in broken:
        found = False
        pool = list(b.get("cases", []))
        if extra is None:
            extra = directed_cases(run.rng) + [gen_case(run.rng) for _ in range(150 if run.tier == "quick" else 1500)]
            extra += [gen_size_case(run.rng, K, n) for K in (1, 2, 3) for n in SIZES]
        for c in pool + extra:
            tried += 1
            try:
                r = failing(c)
            except common.Infra:
                r = None
            if r:
                c2 = shrink(c)
                r2 = failing(c2) or r
                run.violation(r2[0], r2[1], {"case": c2, "broken": b["name"]})
                found = True
                break
        if not found:
            unexplained.append(b)
    run.coverage["search_cases"] = tried
    return unexplained


def replay(run, rp):
    if "case" in rp:
        return bool(failing(rp["case"]))
    dis, mon = run_cases(run, [c for c in rp.get("cases", []) if "wave" not in c], record=False)
    return bool(dis or mon)
