"""C09 — 3-D bond-orientational order (`boo_3d`).
Tie = (a) correspondence: the REAL boo_3d (smallqlm/largeQlm, ql_Ql, sij_ql_Ql incl. the thresholded count written to
its csv, w_W_cap, time_corr) against the Lean model `Pms.Model.Boo` executed by the compiled driver (bond vectors in
exact ℚ through the C02 model, Y_lm from the Rodrigues definition of C08, everything downstream through the same
polymorphic definitions the theorems are about); spatial_corr against a brute-force pair histogram;
(b) translator: Wigner index loops/condition, index shift, ŵ exponent, q_l and time_corr formulas regenerated.
Failing-input search = real code against an independent Python transcription of the property statement
(own minimum image, own Y_lm, own Racah 3-j) + the tabulated crystal values."""
import logging
import math
import os
import shutil
import tempfile
from fractions import Fraction

import numpy as np

import common
from common import bits2float, dec, float2bits

PROP = "C09"
PROPS_FILES = ["Pms/Props/C09.lean", "Pms/Props/C09Add.lean"]
GENERATORS = ["boo"]
RULE = ("seeded generator over n∈5..12 particles × cell {orthogonal, triclinic (lower-triangular h-matrix)} × ppp masks × T∈1..3 "
        "frames (linear or non-uniform time steps) × neighbour definition {random lists, N-nearest (real writer), cutoff (real "
        "writer), Voronoi (real freud writer, with face-area weights)} × weights {none, random positive, equal, freud} × l∈2..12 × "
        "threshold c∈[−0.6,0.9] × Nmax (sometimes truncating) — every quantity for both q_lm and coarse-grained Q_lm; "
        "plus fcc/bcc/hcp/sc/icosahedron shells against tabulated q_l, ŵ_l.  A case is non-trivial when coordination numbers "
        "differ between particles and at least one bond crosses a periodic boundary; distinct = distinct literal inputs. "
        "Cases with a rint argument < 1e-6 from a tie, |s_ij − c| < 1e-5, a pair distance < 1e-6·rdelta from a bin edge or "
        "Σ|q_lm|² < 1e-8 are counted and skipped.")
TRUSTED_BASE = [
    "Lean 4.33 kernel; axioms propext, Classical.choice, Quot.sound only",
    "proved for all inputs over ℝ/ℂ: Impl = definition for q_lm, weighted q_lm, Q_lm, q_l, s_ij, count, w_l, ŵ_l, time/spatial correlation "
    "composition; equal weights ⇒ unweighted; 0 ≤ q_l ≤ 1 (triangle inequality + Unsöld, which is PROVED for the C08 Y_lm for l ≤ 12 and a hypothesis "
    "on the Y table beyond); |s_ij| ≤ 1 (Cauchy–Schwarz); count ≤ N_i; Y depends on the unit bond vector only (arccos/arg form = unit-vector form)",
    "proved for l ≤ 12 (Props/C09Add.lean): the spherical-harmonic addition theorem for the model's Y_lm — a free polynomial identity in three "
    "variables decided in the kernel on nested coefficient lists (`decide +kernel`, ≈ 1 min, no native_decide) — hence q_l² = mean of P_l over "
    "the bond-bond cosines, and the exact rational q_l² of perfect fcc / hcp / bcc(8,14) / sc shells (within 1e-6 of the tabulated values) for every "
    "rotated, bond-wise rescaled copy; the real boo_3d is run on crystals built from the theorem's shell vectors (driver op refshell)",
    "contracts (not proved): float64 ≈ ℝ (validated at 1e-7 under margin guards); np.arccos/np.arctan2/np.linalg.norm; scipy sph_harm_y = Y_lm for l = 11, 12 "
    "(exercised numerically against the Lean-evaluated Rodrigues Y_lm); sympy wigner_3j values = Racah formula (harness-side independent Racah sum passed to the model as data); "
    "read_neighbors: the parsed neighbour / weight tables (with Nmax truncation) are INPUT DATA of the model (C05); remove_pbc is the C02 model; "
    "conditional_gr histogramming/normalisation (C13) and np.histogram are covered by a brute-force Python pair histogram only; s_ij is stored as float32 (compared at 5e-7)",
    "translator/gens/boo.py (AST walker for Wignerindex / w_W_cap / ql_Ql / time_corr) and this harness (generators, tolerance comparison, margin guards)",
]

logging.disable(logging.INFO)      # the library logs every call at INFO
TOL = 1e-7
TOL_S = 5e-7


# ----------------------------------------------------------------------------- independent reference pieces

def racah_3j(l, m1, m2, m3):
    """Wigner 3-j symbol (l l l; m1 m2 m3) by the Racah formula, exact rational part × one sqrt"""
    if m1 + m2 + m3 != 0 or max(abs(m1), abs(m2), abs(m3)) > l:
        return 0.0
    f = math.factorial
    delta = Fraction(f(l) ** 3, f(3 * l + 1))
    pref = delta * f(l + m1) * f(l - m1) * f(l + m2) * f(l - m2) * f(l + m3) * f(l - m3)
    s = Fraction(0)
    for k in range(0, 3 * l + 1):
        den = [k, l - k, l - m1 - k, l + m2 - k, m1 + k, -m2 + k]     # j1+j2-j3-k, j1-m1-k, j2+m2-k, j3-j2+m1+k, j3-j1-m2+k
        if min(den) < 0:
            continue
        d = 1
        for x in den:
            d *= f(x)
        s += Fraction((-1) ** k, d)
    sign = (-1) ** ((l - l - m3) % 2)
    # sqrt of a rational: do it in high precision
    import mpmath as mp
    mp.mp.dps = 40
    return float(sign * mp.sqrt(mp.mpf(pref.numerator) / mp.mpf(pref.denominator)) * (mp.mpf(s.numerator) / mp.mpf(s.denominator)))


_T3J = {}


def t3j_table(l):
    """T[m1+l][m2+l] = 3j(l l l; m1 m2 −m1−m2) (0 where |m1+m2| > l)"""
    if l not in _T3J:
        L = 2 * l + 1
        T = np.zeros((L, L))
        for a in range(-l, l + 1):
            for b in range(-l, l + 1):
                if abs(a + b) <= l:
                    T[a + l, b + l] = racah_3j(l, a, b, -a - b)
        _T3J[l] = T
    return _T3J[l]


def ref_Yrow(l, v):
    """Y_{l,m}, m = −l..l, of the direction of v — independent of the code under test (C08 reference)"""
    from corr.C08 import ref_Y
    r = math.sqrt(v[0] ** 2 + v[1] ** 2 + v[2] ** 2)
    theta = math.acos(max(-1.0, min(1.0, v[2] / r)))
    phi = math.atan2(v[1], v[0])
    return np.array([ref_Y(l, m, theta, phi) for m in range(-l, l + 1)])


def min_image(d, H, ppp):
    f = d @ np.linalg.inv(H)
    f = f - np.rint(f) * ppp
    return f @ H


# ----------------------------------------------------------------------------- cases

def parse_table(rows, Nmax):
    """what read_neighbors returns for these rows (count truncated to Nmax, first Nmax entries kept)"""
    return [r[:Nmax] for r in rows]


def gen_positions(rng, n, H, nd=3):
    """n distinct decimal-grid points inside the cell (fractional coordinates in [0.02, 0.98))"""
    seen, out = set(), []
    Hf = np.array([[float(x) for x in row] for row in H])
    while len(out) < n:
        s = [rng.random() * 0.96 + 0.02 for _ in range(3)]
        p = np.array(s) @ Hf
        key = tuple(f"{x:.{nd}f}" for x in p)
        if key in seen:
            continue
        seen.add(key)
        out.append(list(key))
    return out


def nbkind_unfold_ok(ppp):
    return True


def gen_case(rng, tier="quick"):
    n = rng.randint(5, 12)
    kind = rng.choice(["orth", "orth", "tri"])
    H = [["0"] * 3 for _ in range(3)]
    for i in range(3):
        H[i][i] = dec(rng, 3, 7, 2)
    if kind == "tri":
        H[1][0] = dec(rng, -1.5, 1.5, 2)
        H[2][0] = dec(rng, -1.5, 1.5, 2)
        H[2][1] = dec(rng, -1.5, 1.5, 2)
        common.sparse_tilt(rng, H)
    ppp = rng.choice([[1, 1, 1], [1, 1, 1], [1, 1, 1], [1, 1, 0], [0, 1, 1], [0, 0, 0]])
    T = rng.choice([1, 2, 2, 3])
    base = gen_positions(rng, n, H)
    frames = [base]
    for _ in range(T - 1):
        prev = frames[-1]
        nxt = []
        for p in prev:
            nxt.append([f"{float(x) + rng.randint(-150, 150) / 1000:.3f}" for x in p])
        frames.append(nxt)
    if rng.random() < 0.3 and nbkind_unfold_ok(ppp):
        frames = [common.unfold_positions(rng, fr, H, ppp) for fr in frames]      # unfolded (xu) coordinates
    if T == 3 and rng.random() < 0.4:
        steps = [0, 10, 30]          # non-uniform -> "log" branch of time_correlation
    else:
        steps = [10 * t for t in range(T)]
    l = rng.choice([2, 3, 4, 5, 6, 6, 7, 8, 9, 10, 11, 12])
    nbkind = rng.choice(["random", "random", "nearest", "cutoff", "voronoi"])
    if nbkind == "voronoi" and (kind != "orth" or ppp != [1, 1, 1]):
        nbkind = "random"
    if nbkind in ("nearest", "cutoff") and ppp != [1, 1, 1]:
        nbkind = "random"
    wkind = rng.choice(["none", "none", "random", "random", "equal"])
    if nbkind == "voronoi":
        wkind = rng.choice(["none", "freud"])
    c = dec(rng, -0.6, 0.9, 2)
    case = {"n": n, "kind": kind, "H": H, "ppp": ppp, "T": T, "steps": steps, "frames": frames, "l": l, "nbkind": nbkind,
            "wkind": wkind, "c": c, "dt": "0.002", "rdelta": rng.choice(["0.25", "0.4", "0.5"])}
    nb, wt = [], []
    if nbkind == "random":
        for _ in range(T):
            rows, wrows = [], []
            for i in range(n):
                k = rng.randint(1, min(6, n - 1))
                others = [j for j in range(n) if j != i]
                rng.shuffle(others)
                rows.append(others[:k])
            nb.append(rows)
        case["nparam"] = None
    else:
        nb = None  # produced by the real writer in materialise()
        case["nparam"] = rng.randint(2, min(5, n - 2)) if nbkind == "nearest" else (dec(rng, 1.8, 2.8, 2) if nbkind == "cutoff" else None)
    case["nb"] = nb
    case["wt"] = None
    case["wseed"] = rng.randint(0, 10 ** 9)
    case["Nmax"] = rng.choice([30, 30, 30, 8, 4, 3])
    return case


def snapshots_of(case):
    from PyMatterSim.reader.reader_utils import SingleSnapshot, Snapshots
    Hf = np.array([[float(x) for x in row] for row in case["H"]])
    L = np.array([Hf[0, 0], Hf[1, 1], Hf[2, 2]])
    snaps = []
    for t in range(case["T"]):
        pos = np.array([[float(x) for x in p] for p in case["frames"][t]])
        snaps.append(SingleSnapshot(timestep=case["steps"][t], nparticle=case["n"], particle_type=np.ones(case["n"], dtype=np.int32),
                                    positions=pos, boxlength=L.copy(), boxbounds=np.array([[0.0, L[0]], [0.0, L[1]], [0.0, L[2]]]),
                                    realbounds=None, hmatrix=Hf.copy()))
    return Snapshots(nsnapshots=case["T"], snapshots=snaps)


def read_rows(path, T, n, as_float):
    out = []
    with open(path) as f:
        for _ in range(T):
            f.readline()
            rows = [None] * n
            for _ in range(n):
                it = f.readline().split()
                k = int(it[1])
                vals = it[2:2 + k]
                rows[int(it[0]) - 1] = [v if as_float else int(v) - 1 for v in vals]
            out.append(rows)
    return out


def materialise(case, d):
    """make sure case['nb'] / case['wt'] hold the literal file content (lists per frame), using the real writers where the
    neighbour definition asks for it; write the files; returns (neighborfile, weightsfile|None)"""
    import random
    S = snapshots_of(case)
    n, T = case["n"], case["T"]
    if case["nb"] is None:
        base = os.path.join(d, "wr")
        if case["nbkind"] == "nearest":
            from PyMatterSim.neighbors.calculate_neighbors import Nnearests
            Nnearests(S, N=case["nparam"], ppp=np.array(case["ppp"]), fnfile=base + ".neighbor.dat")
        elif case["nbkind"] == "cutoff":
            from PyMatterSim.neighbors.calculate_neighbors import cutoffneighbors
            cutoffneighbors(S, r_cut=float(case["nparam"]), ppp=np.array(case["ppp"]), fnfile=base + ".neighbor.dat")
        else:
            from PyMatterSim.neighbors.freud_neighbors import cal_neighbors
            cal_neighbors(S, outputfile=base)
        case["nb"] = read_rows(base + ".neighbor.dat", T, n, False)
        if case["wkind"] == "freud":
            case["wt"] = read_rows(base + ".facearea.dat", T, n, True)
    if any(len(r) == 0 or i in r for fr in case["nb"] for i, r in enumerate(fr)):
        return None, None           # a particle without neighbour, or neighbour of its own periodic image (no bond direction): outside the quantifier
    if case["wt"] is None and case["wkind"] in ("random", "equal"):
        wr = random.Random(case["wseed"])
        wt = []
        for fr in case["nb"]:
            rows = []
            for r in fr:
                if case["wkind"] == "equal":
                    rows.append(["2.500"] * len(r))
                else:
                    rows.append([f"{wr.randint(50, 5000) / 1000:.3f}" if wr.random() > 0.1 else "0.000" for _ in r])
                    if all(float(x) == 0 for x in rows[-1]):
                        rows[-1][0] = "1.000"
            wt.append(rows)
        if wr.random() < 0.3:
            # bond weights in another unit (× 10^k): only the ratios w_ij / Σ_j w_ij enter q_lm
            k = wr.choice([-9, -6, 5])
            wt = [[[x if float(x) == 0 else f"{x}e{k}" for x in row] for row in fr] for fr in wt]
        case["wt"] = wt
    nf = os.path.join(d, "n.dat")
    with open(nf, "w") as f:
        for fr in case["nb"]:
            f.write("id     cn     neighborlist\n")
            for i in common.row_order(fr, "n"):
                r = fr[i]
                f.write(f"{i + 1} {len(r)} " + " ".join(str(j + 1) for j in r) + "\n")
    wf = None
    if case["wt"] is not None:
        wf = os.path.join(d, "w.dat")
        with open(wf, "w") as f:
            for fr in case["wt"]:
                f.write("id   cn   facearealist\n")
                for i in common.row_order(fr, "w"):
                    r = fr[i]
                    f.write(f"{i + 1} {len(r)} " + " ".join(r) + "\n")
    return nf, wf


def real_run(case):
    """everything observable of the real boo_3d on this case"""
    from PyMatterSim.static.boo import boo_3d
    d = tempfile.mkdtemp(prefix="c09_")
    try:
        nf, wf = materialise(case, d)
        if nf is None:
            return None
        S = snapshots_of(case)
        b = boo_3d(S, l=case["l"], neighborfile=nf, weightsfile=wf, ppp=np.array(case["ppp"]), Nmax=case["Nmax"])
        out = {"qlm": np.array(b.smallqlm), "Qlm": np.array(b.largeQlm)}
        for cg, tag in ((False, "q"), (True, "Q")):
            out["ql" + tag] = np.array(b.ql_Ql(coarse_graining=cg))
            csv = os.path.join(d, f"cnt{tag}.csv")
            sres = b.sij_ql_Ql(coarse_graining=cg, c=float(case["c"]), outputqlQl=csv)
            out["sij" + tag] = [np.array(a) for a in sres]
            import pandas as pd
            out["cnt" + tag] = pd.read_csv(csv).values
            w, wc = b.w_W_cap(coarse_graining=cg)
            out["w" + tag] = np.array(w, dtype=float)
            out["wc" + tag] = np.array(wc, dtype=float)
            out["tc" + tag] = b.time_corr(coarse_graining=cg, dt=float(case["dt"])).values
            out["gl" + tag] = b.spatial_corr(coarse_graining=cg, rdelta=float(case["rdelta"])).values
        return out
    finally:
        shutil.rmtree(d, ignore_errors=True)


real_run = common.with_history(real_run)


def tables(case, t):
    """parsed tables of frame t as the reader returns them (Nmax truncation)"""
    nb = parse_table(case["nb"][t], case["Nmax"])
    wt = parse_table(case["wt"][t], case["Nmax"]) if case["wt"] is not None else None
    return nb, wt


def op_line(case, t):
    l, n = case["l"], case["n"]
    nb, wt = tables(case, t)
    toks = ["boo3", str(l), case["c"], "1" if wt is not None else "0"]
    toks += [x for row in case["H"] for x in row] + [str(p) for p in case["ppp"]] + [str(n)]
    toks += [x for p in case["frames"][t] for x in p]
    for r in nb:
        toks.append(str(len(r)))
        toks += [str(j) for j in r]
    if wt is not None:
        W = max(len(r) for r in wt)
        toks.append(str(W))
        for r in wt:
            toks += list(r) + ["0"] * (W - len(r))
    toks += [float2bits(x) for x in t3j_table(l).reshape(-1)]
    return " ".join(toks)


def parse_model(case, t, line):
    l, n = case["l"], case["n"]
    L = 2 * l + 1
    nb, _ = tables(case, t)
    toks = line.split()
    margin = Fraction(toks[0])
    mS = bits2float(toks[1])
    p = [2]

    def take(k):
        v = toks[p[0]:p[0] + k]
        p[0] += k
        return v

    def cplx(k):
        v = [bits2float(x) for x in take(2 * k)]
        return np.array(v[0::2]) + 1j * np.array(v[1::2])
    out = {"margin": margin, "mS": mS}
    out["qlm"] = cplx(n * L).reshape(n, L)
    out["Qlm"] = cplx(n * L).reshape(n, L)
    for tag in ("q", "Q"):
        out["ql" + tag] = np.array([bits2float(x) for x in take(n)])
        srows, cnts = [], []
        for i in range(n):
            srows.append([bits2float(x) for x in take(len(nb[i]))])
            cnts.append(int(take(1)[0]))
        out["sij" + tag], out["cnt" + tag] = srows, cnts
        ww = [bits2float(x) for x in take(2 * n)]
        out["w" + tag], out["wc" + tag] = np.array(ww[0::2]), np.array(ww[1::2])
    if p[0] != len(toks):
        raise common.Infra(f"boo3 output length {len(toks)} vs consumed {p[0]}")
    return out


def cl(a, b, tol=TOL):
    return common.close(a.real, b.real, tol) and common.close(a.imag, b.imag, tol) if isinstance(a, complex) or isinstance(b, complex) \
        else common.close(a, b, tol)


def cmp_arrays(name, a, b, tol=TOL):
    a, b = np.asarray(a), np.asarray(b)
    if a.shape != b.shape:
        return f"{name}: shape {a.shape} vs expected {b.shape}"
    if a.size == 0:
        return None
    if not np.all(np.isfinite(a)):
        return f"{name}: non-finite value returned"
    err = np.abs(a - b)
    bound = np.maximum(tol, tol * np.maximum(np.abs(a), np.abs(b)))
    if np.any(err > bound):
        k = np.unravel_index(np.argmax(err - bound), a.shape)
        return f"{name}{list(map(int, k))}: returned {a[k]!r}, expected {b[k]!r}"
    return None


def compare_frame(case, t, real, ref, with_counts=True):
    """compare every per-frame observable of the real run with a reference dict (Lean model or Python spec)"""
    n = case["n"]
    nb, _ = tables(case, t)
    for key, nm in (("qlm", "qlm"), ("Qlm", "Qlm")):
        why = cmp_arrays(f"{nm}:frame{t}", real[key][t], ref[key])
        if why:
            return why
    for tag in ("q", "Q"):
        why = cmp_arrays(f"ql:{tag}:frame{t}", real["ql" + tag][t], ref["ql" + tag])
        if why:
            return why
        sr = real["sij" + tag][t]
        if sr.shape[0] != n or sr.shape[1] < 2:
            return f"sij:{tag}:frame{t}: shape {sr.shape}"
        for i in range(n):
            k = len(nb[i])
            if int(sr[i, 0]) != i + 1 or int(sr[i, 1]) != k:
                return f"sij:{tag}:frame{t}: row {i} carries id/CN {sr[i, :2].tolist()}, expected {[i + 1, k]}"
            why = cmp_arrays(f"sij:{tag}:frame{t}:i{i}", sr[i, 2:2 + k], ref["sij" + tag][i], TOL_S)
            if why:
                return why
            if np.any(sr[i, 2 + k:] != 0):
                return f"sij:{tag}:frame{t}: row {i} has non-zero padding"
        crow = real["cnt" + tag][t * n:(t + 1) * n]
        for i in range(n):
            if int(crow[i, 0]) != i + 1 or int(crow[i, 2]) != len(nb[i]):
                return f"count:{tag}:frame{t}: csv row {i} carries id/num_neighbors {crow[i].tolist()}"
            if with_counts and int(crow[i, 1]) != int(ref["cnt" + tag][i]):
                return (f"count:{tag}:frame{t}: particle {i} with {len(nb[i])} neighbours, c={case['c']}: "
                        f"csv reports {int(crow[i, 1])} bonds with s_ij > c, definition gives {int(ref['cnt' + tag][i])}")
        why = cmp_arrays(f"w:{tag}:frame{t}", real["w" + tag][t], ref["w" + tag]) or \
            cmp_arrays(f"wcap:{tag}:frame{t}", real["wc" + tag][t], ref["wc" + tag], 1e-6)
        if why:
            return why
        if case["l"] % 2 == 1 and float(np.abs(real["w" + tag][t]).max()) > 1e-9:
            # C09_w_odd_zero: the 3-j numbers of an odd degree are antisymmetric in their orders, so w_l vanishes for every q_lm
            return (f"w-odd:{tag}:frame{t}: w_l of the odd degree l = {case['l']} is {float(np.abs(real['w' + tag][t]).max())!r}, "
                    f"it vanishes identically (antisymmetry of the 3-j symbol)")
    return None


# ----------------------------------------------------------------------------- Python transcription of the property statement

def spec_frame(case, t):
    l, n = case["l"], case["n"]
    L = 2 * l + 1
    nb, wt = tables(case, t)
    H = np.array([[float(x) for x in row] for row in case["H"]])
    ppp = np.array(case["ppp"], dtype=float)
    X = np.array([[float(x) for x in p] for p in case["frames"][t]])
    q = np.zeros((n, L), dtype=complex)
    for i in range(n):
        Ys = np.array([ref_Yrow(l, min_image(X[j] - X[i], H, ppp)) for j in nb[i]])
        if wt is None:
            q[i] = Ys.mean(axis=0)
        else:
            w = np.array([float(x) for x in wt[i]])
            q[i] = (Ys * (w / w.sum())[:, None]).sum(axis=0)
    Q = np.array([(q[i] + sum(q[j] for j in nb[i])) / (1 + len(nb[i])) for i in range(n)])
    out = {"qlm": q, "Qlm": Q}
    T3 = t3j_table(l)
    c = float(case["c"])
    mS = 1.0
    for tag, v in (("q", q), ("Q", Q)):
        S = (np.abs(v) ** 2).sum(axis=1)
        out["ql" + tag] = np.sqrt(4 * math.pi / L * S)
        srows, cnts = [], []
        for i in range(n):
            row = [float((v[i] * np.conj(v[j])).sum().real / math.sqrt(S[i] * S[j])) for j in nb[i]]
            srows.append(row)
            cnts.append(sum(1 for s in row if s > c))
            mS = min([mS] + [abs(s - c) for s in row])
        out["sij" + tag], out["cnt" + tag] = srows, cnts
        w = np.zeros(n)
        for i in range(n):
            acc = 0.0
            for a in range(-l, l + 1):
                for b in range(max(-l, -l - a), min(l, l - a) + 1):
                    acc += T3[a + l, b + l] * (v[i, a + l] * v[i, b + l] * v[i, -a - b + l]).real
            w[i] = acc
        out["w" + tag] = w
        out["wc" + tag] = w / S ** 1.5
        out["S" + tag] = S
    out["mS"] = mS
    return out


def spec_tcorr(case, q):
    """normalised autocorrelation of the (T, n, L) array q"""
    T = case["T"]
    steps = case["steps"]
    linear = len(set(np.diff(np.array(steps)).tolist())) == 1
    if linear:
        raw = np.array([np.mean([(q[nn] * np.conj(q[nn - k])).sum().real for nn in range(k, T)]) for k in range(T)])
    else:
        raw = np.array([(q[k] * np.conj(q[0])).sum().real for k in range(T)])
    tt = (np.array(steps) - steps[0]) * float(case["dt"])
    return np.column_stack((tt, raw / raw[0])), linear


def spec_gl(case, q):
    """brute-force conditional g(r): returns (table [r, gr, gA], margin of the binning decisions)"""
    n, T = case["n"], case["T"]
    H = np.array([[float(x) for x in row] for row in case["H"]])
    Lb = np.array([H[0, 0], H[1, 1], H[2, 2]])
    ppp = np.array(case["ppp"], dtype=float)
    rd = float(case["rdelta"])
    mb = Fraction(min(Fraction(case["H"][k][k]) for k in range(3))) / 2 / Fraction(case["rdelta"])
    maxbin = int(mb)
    margin = float(min(mb - maxbin, maxbin + 1 - mb))
    gr = np.zeros(maxbin)
    gA = np.zeros(maxbin)
    for t in range(T):
        X = np.array([[float(x) for x in p] for p in case["frames"][t]])
        for i in range(n - 1):
            for j in range(i + 1, n):
                dist = np.linalg.norm(min_image(X[j] - X[i], H, ppp))
                u = dist / rd
                margin = min(margin, abs(u - round(u)))
                if u >= maxbin:
                    continue
                b = int(u)
                gr[b] += 1
                gA[b] += (q[t, j] * np.conj(q[t, i])).sum().real
    edges = np.arange(maxbin + 1) * rd
    nideal = 4.0 / 3 * math.pi * (edges[1:] ** 3 - edges[:-1] ** 3)
    rho = n / np.prod(Lb)
    r = edges[1:] - 0.5 * rd
    return np.column_stack((r, gr * 2 / n / (nideal * rho) / T, gA * 2 / n / (nideal * rho) / T)), margin


def monitors(case, real):
    """the proved bounds evaluated on the REAL output"""
    for tag in ("q", "Q"):
        v = real["ql" + tag]
        if np.any(v < -1e-12) or np.any(v > 1 + 1e-9):
            k = np.unravel_index(np.argmax(np.abs(v - 0.5)), v.shape)
            return f"bounds:ql:{tag}: q_l = {v[k]!r} outside [0, 1] at frame/particle {list(map(int, k))}"
        for t, sr in enumerate(real["sij" + tag]):
            if np.any(np.abs(sr[:, 2:]) > 1 + 1e-6):
                return f"bounds:sij:{tag}: |s_ij| > 1 in frame {t}"
        cn = real["cnt" + tag]
        if np.any(cn[:, 1] > cn[:, 2]) or np.any(cn[:, 1] < 0):
            k = int(np.argmax(cn[:, 1] - cn[:, 2]))
            return (f"count:{tag}: particle {int(cn[k, 0])} has {int(cn[k, 2])} neighbours but the csv reports {int(cn[k, 1])} bonds with "
                    f"s_ij > c (c = {case['c']})")
    return None


def failing(case):
    """does the REAL code contradict the property statement on this input?  returns text or None.
    Uses only the independent Python transcription (never the Lean model)."""
    try:
        real = real_run(case)
    except Exception as e:
        return f"raised:{type(e).__name__}: {e}"
    if real is None:
        return None
    why = monitors(case, real)
    if why:
        return why
    specs = [spec_frame(case, t) for t in range(case["T"])]
    if any(min(s["Sq"].min(), s["SQ"].min()) < 1e-8 for s in specs):
        return None
    counts_ok = all(s["mS"] > 1e-5 for s in specs)
    for t in range(case["T"]):
        why = compare_frame(case, t, real, specs[t], with_counts=counts_ok)
        if why:
            return why
    for tag, key in (("q", "qlm"), ("Q", "Qlm")):
        q = np.array([s[key] for s in specs])
        tc, _ = spec_tcorr(case, q)
        why = cmp_arrays(f"tcorr:{tag}", real["tc" + tag], tc, 1e-6)
        if why:
            return why
        gl, mg = spec_gl(case, q)
        if mg > 1e-6:
            why = cmp_arrays(f"gl:{tag}", real["gl" + tag], gl, 1e-6)
            if why:
                return why
    return None


def key_of(why):
    parts = why.split(":")
    head = parts[0]
    if head in ("bounds", "raised"):
        return f"C09:{head}:{parts[1].strip()}"
    return f"C09:{head}"


# ----------------------------------------------------------------------------- crystals (labelled test)

def shells():
    s3, s2 = math.sqrt(3), math.sqrt(2)
    fcc = [(a, b, 0) for a in (1, -1) for b in (1, -1)] + [(a, 0, b) for a in (1, -1) for b in (1, -1)] + [(0, a, b) for a in (1, -1) for b in (1, -1)]
    bcc8 = [(a, b, c) for a in (1, -1) for b in (1, -1) for c in (1, -1)]
    sc = [(1, 0, 0), (-1, 0, 0), (0, 1, 0), (0, -1, 0), (0, 0, 1), (0, 0, -1)]
    bcc14 = bcc8 + [(2 * x, 2 * y, 2 * z) for x, y, z in sc]
    h = math.sqrt(2.0 / 3)
    inpl = [(math.cos(k * math.pi / 3), math.sin(k * math.pi / 3), 0.0) for k in range(6)]
    up = [(0.5, s3 / 6, h), (-0.5, s3 / 6, h), (0.0, -s3 / 3, h)]
    hcp = inpl + up + [(x, y, -z) for x, y, z in up]
    g = (1 + math.sqrt(5)) / 2
    ico = [(0, a, b * g) for a in (1, -1) for b in (1, -1)] + [(a, b * g, 0) for a in (1, -1) for b in (1, -1)] + [(b * g, 0, a) for a in (1, -1) for b in (1, -1)]
    return {"fcc": fcc, "bcc8": bcc8, "bcc14": bcc14, "sc": sc, "hcp": hcp, "ico": ico}


# (q4, q6, ŵ4, ŵ6) — Steinhardt, Nelson, Ronchetti PRB 28, 784 (1983); Lechner & Dellago JCP 129, 114707 (2008), table I
TABULATED = {
    "fcc": (0.190941, 0.574524, -0.159317, -0.013161),
    "hcp": (0.097222, 0.484762, 0.134097, -0.012442),
    "bcc14": (0.036369, 0.510688, 0.159317, 0.013161),
    "bcc8": (0.509175, 0.628539, -0.159317, 0.013161),
    "sc": (0.763763, 0.353553, 0.159317, 0.013161),
    "ico": (0.0, 0.663146, None, -0.169754),
}


def rot(rng):
    a = np.array([[rng.gauss(0, 1) for _ in range(3)] for _ in range(3)])
    qm, r = np.linalg.qr(a)
    qm = qm * np.sign(np.diag(r))
    if np.linalg.det(qm) < 0:
        qm[:, 0] = -qm[:, 0]
    return qm


def crystal_case(rng, name, l, rotate=True):
    pts = np.array(shells()[name], dtype=float)
    pts = pts / np.linalg.norm(pts, axis=1).min() * 1.1
    if rotate:
        pts = pts @ rot(rng).T
    Z = len(pts)
    ctr = np.array([6.0, 6.0, 6.0])
    pos = [ctr] + [ctr + p for p in pts]
    frames = [[[f"{x:.4f}" for x in p] for p in pos]]
    nbrows = [list(range(1, Z + 1))] + [[0] for _ in range(Z)]
    return {"n": Z + 1, "kind": "orth", "H": [["12", "0", "0"], ["0", "12", "0"], ["0", "0", "12"]], "ppp": [0, 0, 0], "T": 1, "steps": [0],
            "frames": frames, "l": l, "nbkind": "crystal:" + name, "wkind": "none", "c": "0.70", "dt": "0.002", "rdelta": "0.5",
            "nb": [nbrows], "wt": None, "wseed": 0, "Nmax": 30, "nparam": None, "crystal": name}


def model_shell_case(rng, name, l, tight):
    """a perfect shell built from the MODEL's integer bond vectors (driver op `refshell`, the vectors the theorem
    `C09_reference_shells` quantifies over), every bond rescaled by its own factor; tight: unrotated, positions exactly on the
    decimal grid, so the real q_l must equal the theorem's exact value √(ql2) to rounding; otherwise rotated (1e-4 grid)."""
    out = common.drive([f"refshell {name} {l}"])[0].split()
    exact = out[0]
    vec = np.array([int(t) for t in out[1:]], dtype=float).reshape(-1, 3)
    if tight:
        pts = np.array([v * rng.choice([0.25, 0.5, 0.125]) for v in vec])
    else:
        pts = np.array([v / np.linalg.norm(v) * rng.uniform(0.9, 1.4) for v in vec]) @ rot(rng).T
    Z = len(pts)
    ctr = np.array([6.0, 6.0, 6.0])
    pos = [ctr] + [ctr + p for p in pts]
    frames = [[[f"{x:.4f}" for x in p] for p in pos]]
    nbrows = [list(range(1, Z + 1))] + [[0] for _ in range(Z)]
    return {"n": Z + 1, "kind": "orth", "H": [["12", "0", "0"], ["0", "12", "0"], ["0", "0", "12"]], "ppp": [0, 0, 0], "T": 1, "steps": [0],
            "frames": frames, "l": l, "nbkind": "crystal:" + name, "wkind": "none", "c": "0.70", "dt": "0.002", "rdelta": "0.5",
            "nb": [nbrows], "wt": None, "wseed": 0, "Nmax": 30, "nparam": None, "crystal": name, "exact_ql2": exact, "tight": bool(tight)}


def crystal_check(case, real=None):
    """centre particle of a perfect shell against the tabulated values (positions on a 1e-4 grid → 2e-4 tolerance)"""
    name, l = case["crystal"], case["l"]
    if real is None:
        real = real_run(case)
    tab = TABULATED[name]
    q = float(real["qlq"][0][0])
    wc = float(real["wcq"][0][0])
    qt = tab[0] if l == 4 else tab[1]
    wt = tab[2] if l == 4 else tab[3]
    if "exact_ql2" in case:
        qe = math.sqrt(float(Fraction(case["exact_ql2"])))
        if abs(q - qe) > (1e-9 if case.get("tight") else 3e-4):
            return (f"crystal:{name}: q_{l} of the centre of a perfect {name} shell (model vectors) is {q!r}, "
                    f"the exact value proved in C09_reference_shells is sqrt({case['exact_ql2']}) = {qe!r}")
    if abs(q - qt) > 3e-4:
        return f"crystal:{name}: q_{l} of the centre of a perfect {name} shell is {q:.6f}, tabulated {qt:.6f}"
    if wt is not None and qt > 1e-3 and abs(wc - wt) > 3e-4:
        return f"crystal:{name}: ŵ_{l} of the centre of a perfect {name} shell is {wc:.6f}, tabulated {wt:.6f}"
    return None


# ----------------------------------------------------------------------------- correspondence

def classify(case):
    return f"{case['kind']}:ppp{''.join(map(str, case['ppp']))}:T{case['T']}:{case['nbkind'].split(':')[0]}:w-{case['wkind']}"


def nontrivial(case):
    cns = {len(r) for fr in case["nb"] for r in fr}
    if len(cns) < 2 or 1 not in case["ppp"]:
        return False
    H = np.array([[float(x) for x in row] for row in case["H"]])
    ppp = np.array(case["ppp"], dtype=float)
    for t in range(case["T"]):
        X = np.array([[float(x) for x in p] for p in case["frames"][t]])
        for i, r in enumerate(case["nb"][t]):
            for j in r:
                d = X[j] - X[i]
                if np.abs(min_image(d, H, ppp) - d).max() > 1e-9:
                    return True
    return False


def run_case(run, case):
    """real vs Lean model on one case → (status, why)   status ∈ ok / skip / dis / prop"""
    try:
        real = real_run(case)
    except Exception as e:
        return "prop", f"raised:{type(e).__name__}: {e}"
    if real is None:
        return "skip", "particle without neighbour"
    outs = common.drive([op_line(case, t) for t in range(case["T"])])
    models = []
    for t, o in enumerate(outs):
        if o == "bad-op":
            raise common.Infra("driver rejected boo3 op")
        models.append(parse_model(case, t, o))
    if "crystal" in case:
        why = crystal_check(case, real)
        if why:
            return "prop", why
    if "crystal" not in case and any(m["margin"] < Fraction(1, 10 ** 6) for m in models):
        return "skip", "rint margin"
    if any(not np.all(np.isfinite(m["wcq"])) or not np.all(np.isfinite(m["wcQ"])) for m in models):
        return "skip", "zero q vector"
    if any(min((np.abs(m["qlm"]) ** 2).sum(axis=1).min(), (np.abs(m["Qlm"]) ** 2).sum(axis=1).min()) < 1e-8 for m in models):
        return "skip", "zero q vector"
    why = monitors(case, real)
    if why:
        return "prop", why
    counts_ok = all(m["mS"] > 1e-5 for m in models)
    for t in range(case["T"]):
        why = compare_frame(case, t, real, models[t], with_counts=counts_ok)
        if why:
            return "dis", why
    # time correlation: the Lean model of time_correlation ∘ normalisation applied to the real q arrays
    _, linear = spec_tcorr(case, real["qlm"])
    ops = []
    for key in ("qlm", "Qlm"):
        arr = real[key]
        flat = np.column_stack((arr.reshape(-1).real, arr.reshape(-1).imag)).reshape(-1)
        ops.append(f"bootc {case['l']} {0 if linear else 1} {case['T']} {case['n']} " + " ".join(float2bits(x) for x in flat))
    tco = common.drive(ops)
    tt = (np.array(case["steps"]) - case["steps"][0]) * float(case["dt"])
    for tag, o in zip(("q", "Q"), tco):
        if o == "bad-op":
            raise common.Infra("driver rejected bootc op")
        col = np.array([bits2float(x) for x in o.split()])
        why = cmp_arrays(f"tcorr:{tag}", real["tc" + tag], np.column_stack((tt, col)), 1e-7)
        if why:
            return "dis", why
    # spatial correlation: brute-force pair histogram of the real q arrays
    for tag, key in (("q", "qlm"), ("Q", "Qlm")):
        gl, mg = spec_gl(case, real[key])
        if mg > 1e-6:
            why = cmp_arrays(f"gl:{tag}", real["gl" + tag], gl, 1e-7)
            if why:
                return "dis", why
        else:
            run.coverage["skipped_gl_bin_margin"] = run.coverage.get("skipped_gl_bin_margin", 0) + 1
    return "ok", None


def correspond(run):
    n = 40 if run.tier == "quick" else 500
    cases = list(common.load_corpus(PROP))
    for name in ("fcc", "hcp", "bcc14", "bcc8", "sc", "ico"):
        for l in (4, 6):
            cases.append(crystal_case(run.rng, name, l))
    for name in ("fcc", "hcp", "bcc14", "bcc8", "sc"):
        for l in (4, 6):
            cases.append(model_shell_case(run.rng, name, l, True))
            cases.append(model_shell_case(run.rng, name, l, False))
    def sibling(rng, c):
        # same cell, mask, frames, degree, neighbour definition — every position moved a little (explicit lists stay valid)
        return dict(c, frames=[common.jitter_positions(rng, fr, 0.1, 3) for fr in c["frames"]])
    cases += common.add_siblings(run.rng, [gen_case(run.rng, run.tier) for _ in range(n)], sibling, every=5)
    dis, prop, skipped = [], [], {}
    # contract behind C09_w_odd_zero, on the table the library really uses: (l l l; m1 m2 m3) = −(l l l; m2 m1 m3) for odd l
    from PyMatterSim.utils.funcs import Wignerindex
    for l_ in (1, 3, 5):
        tab = {(int(a), int(b), int(c)): float(w) for a, b, c, w in np.asarray(Wignerindex(l_), dtype=float)}
        if any(abs(w + tab.get((k[1], k[0], k[2]), -w)) > 1e-12 for k, w in tab.items()):
            prop.append(({"kind": "wigner", "l": l_}, f"the table of 3-j numbers returned by Wignerindex({l_}) is not antisymmetric under "
                                                      f"the exchange of its first two orders"))
    for case in cases:
        st, why = run_case(run, case)
        run.hist("class", classify(case))
        run.hist("l", case["l"])
        if st == "skip":
            skipped[why] = skipped.get(why, 0) + 1
            continue
        run.hist("Nmax_truncates", any(len(r) > case["Nmax"] for fr in case["nb"] for r in fr))
        run.count({k: case[k] for k in ("H", "ppp", "frames", "nb", "wt", "l", "c", "Nmax")}, nontrivial(case),
                  sample={"class": classify(case), "l": case["l"], "n": case["n"], "c": case["c"], "first_rows": case["nb"][0][:3]})
        if st == "dis":
            dis.append((case, why))
        elif st == "prop":
            prop.append((case, why))
    run.coverage["skipped_inside_margin"] = skipped
    run.coverage["traces_validated_against_impl"] = run.coverage["evaluations"]
    broken = []
    if dis:
        broken.append({"kind": "correspondence", "name": "Pms.Boo.*~boo_3d", "detail": f"{len(dis)} of {len(cases)} cases disagree; first: {dis[0][1][:300]}",
                       "cases": [c for c, _ in dis[:10]]})
    if prop:
        broken.append({"kind": "monitor", "name": "C09 bounds / crystals on the real output", "detail": f"{len(prop)} failures; first: {prop[0][1][:300]}",
                       "cases": [c for c, _ in prop[:10]]})
    return broken


# ----------------------------------------------------------------------------- search / shrink / replay

def drop_particle(case, k):
    """remove particle k (only if nobody lists it as a neighbour)"""
    if any(k in r for fr in case["nb"] for i, r in enumerate(fr) if i != k):
        return None
    c = dict(case)
    c["n"] = case["n"] - 1
    c["frames"] = [[p for i, p in enumerate(fr) if i != k] for fr in case["frames"]]
    ren = lambda j: j - 1 if j > k else j
    c["nb"] = [[[ren(j) for j in r] for i, r in enumerate(fr) if i != k] for fr in case["nb"]]
    if case["wt"] is not None:
        c["wt"] = [[r for i, r in enumerate(fr) if i != k] for fr in case["wt"]]
    return c


def shrink(case, why):
    cat = key_of(why)
    best = case
    if case["T"] > 1 and "tcorr" not in cat:
        for t in range(case["T"]):
            c = dict(best, T=1, steps=[0], frames=[case["frames"][t]], nb=[case["nb"][t]], wt=None if case["wt"] is None else [case["wt"][t]])
            w2 = failing(c)
            if w2 and key_of(w2) == cat:
                best = c
                break
    changed = True
    while changed and best["n"] > 3:
        changed = False
        for k in range(best["n"] - 1, -1, -1):
            c = drop_particle(best, k)
            if c is None:
                continue
            w2 = failing(c)
            if w2 and key_of(w2) == cat:
                best, changed = c, True
                break
    return best


def search(run, broken):
    import random
    unexplained = []
    tried = 0
    found_keys = set()
    for b in broken:
        pool = [c for c in b.get("cases", [])]
        found = False
        for c in pool:
            if "crystal" in c:
                why = crystal_check(c) or failing(c)
            else:
                why = failing(c)
            tried += 1
            if why:
                c2 = shrink(c, why) if "crystal" not in c else c
                why2 = (crystal_check(c2) if "crystal" in c2 else None) or failing(c2) or why
                run.violation(key_of(why2), why2, {"case": c2, "broken": b["name"]})
                found_keys.add(key_of(why2))
                found = True
                break
        if not found:
            unexplained.append(b)
    if unexplained:
        # directed by nothing better: crystals (every l-dependent formula shows there) and a fresh random sweep
        rng = random.Random(f"C09-search-{run.seed}")
        extra = [crystal_case(rng, nm, l) for nm in ("fcc", "hcp", "bcc14", "sc", "ico") for l in (4, 6)]
        extra += [gen_case(rng) for _ in range(25 if run.tier == "quick" else 150)]
        for c in extra:
            tried += 1
            try:
                why = (crystal_check(c) if "crystal" in c else None) or failing(c)
            except Exception as e:  # generator trouble is not a violation
                continue
            if why:
                c2 = shrink(c, why) if "crystal" not in c else c
                why2 = (crystal_check(c2) if "crystal" in c2 else None) or failing(c2) or why
                run.violation(key_of(why2), why2, {"case": c2, "broken": [b["name"] for b in unexplained]})
                unexplained = []
                break
    run.coverage["search_cases"] = tried
    return unexplained


def replay(run, rp):
    if "case" in rp:
        c = rp["case"]
        return bool((crystal_check(c) if "crystal" in c else None) or failing(c))
    bad = False
    for c in rp.get("cases", []):
        st, _ = run_case(run, c)
        bad = bad or st in ("dis", "prop")
    return bad
