"""C08 — spherical harmonics table.  Tie = translator (the 120 closed forms are regenerated as exact
rational data and proved equal to Y_lm for all angles) + numeric validation of the extraction against the real
functions; failing-input search = real functions vs an independent recurrence-free reference Y_lm."""
import importlib
import math
import sys

import numpy as np

import common
from common import bits2float, float2bits

PROP = "C08"
PROPS_FILES = ["Pms/Props/C08.lean"]
GENERATORS = ["sph"]
RULE = ("random (θ, φ) ∈ [0,π]×(−π,π] plus the poles θ∈{0,π} and φ=±π, × l=1..10 (table, 120 closed forms: regenerated entry vs "
        "real function vs independent reference), l=11..20 (delegated branch vs reference), l=1..20 (dispatcher); "
        "non-trivial = angle not at a pole (all orders non-zero generically); distinct = distinct (l, θ, φ)")
TRUSTED_BASE = [
    "Lean 4.33 kernel; axioms propext, Classical.choice, Quot.sound only; decide +kernel over exact ℚ for the 120 entries",
    "Y_lm DEFINED in Pms/Props/C08.lean (Rodrigues P_l, Condon–Shortley phase, orthonormal prefactor); Bonnet recurrence checked for n<12",
    "translator/pms2lean.py table extractor (AST → Entry{c,s,m,k,poly}); validated numerically every run against the real SphHarm{l}",
    "np.sin/np.cos/cmath.exp/np.sqrt ≈ real functions (float64), contract; scipy.special.sph_harm(_y) = Y_lm is a contract for l>10, exercised numerically",
]


def load_module():
    name = "PyMatterSim.utils.spherical_harmonics"
    if name in sys.modules:
        return sys.modules[name]
    return importlib.import_module(name)


def legendre_coeffs(l):
    """Rodrigues, exact integers/fractions as python floats via Fraction"""
    from fractions import Fraction as F
    p = [F(0)] * (2 * l + 1)
    for j in range(l + 1):
        p[2 * j] = F(math.comb(l, j) * (-1) ** (l - j))
    for _ in range(l):
        p = [p[i] * i for i in range(1, len(p))]
    return [a / (2 ** l * math.factorial(l)) for a in p]


_LEG = {}


def ref_Y(l, m, theta, phi):
    """independent reference: (−1)^m √((2l+1)/(4π)(l−m)!/(l+m)!) sin^m θ D^m P_l(cos θ) e^{imφ}; Y_{l,−m} = (−1)^m conj"""
    am = abs(m)
    key = (l, am)
    if key not in _LEG:
        p = legendre_coeffs(l)
        for _ in range(am):
            p = [p[i] * i for i in range(1, len(p))]
        _LEG[key] = [float(a) for a in p]
    x = math.cos(theta)
    pv = 0.0
    for a in reversed(_LEG[key]):
        pv = pv * x + a
    # accurate evaluation for high degree: use mpmath when cancellation could matter
    N = (2 * l + 1) / (4 * math.pi) * math.factorial(l - am) / math.factorial(l + am)
    val = (-1) ** am * math.sqrt(N) * math.sin(theta) ** am * pv * complex(math.cos(am * phi), math.sin(am * phi))
    if m < 0:
        val = (-1) ** am * val.conjugate()
    return val


def ref_Y_mp(l, m, theta, phi):
    import mpmath as mp
    mp.mp.dps = 40
    return complex(mp.spherharm(l, m, mp.mpf(theta), mp.mpf(phi)))


def gen_angles(rng, n):
    out = [(0.0, 0.3), (math.pi, -1.0), (1.0, math.pi), (0.7, -math.pi + 1e-9), (math.pi / 2, 0.0)]
    for _ in range(n):
        out.append((float(common.dec(rng, 0.001, 3.14, 4)), float(common.dec(rng, -3.1415, 3.1415, 4))))
    return out


def check_point(sh, l, theta, phi):
    """property check on the real code at one point; returns failure text or None"""
    want = [ref_Y(l, m, theta, phi) if l <= 12 else ref_Y_mp(l, m, theta, phi) for m in range(-l, l + 1)]
    scale = math.sqrt((2 * l + 1) / (4 * math.pi))
    tol = 1e-9 * max(1.0, scale) * (1 if l <= 12 else 100)
    if l <= 10:
        got = np.asarray(getattr(sh, f"SphHarm{l}")(theta, phi))
        if got.shape != (2 * l + 1,):
            return f"SphHarm{l}: returned shape {got.shape}, expected {(2 * l + 1,)}"
        for i, m in enumerate(range(-l, l + 1)):
            if abs(got[i] - want[i]) > tol:
                return f"SphHarm{l}[m={m}]: table gives {got[i]!r} at (θ={theta}, φ={phi}) but Y_lm = {want[i]!r}"
    else:
        got = np.asarray(sh.SphHarm_above(l, theta, phi))
        if got.shape != (2 * l + 1,):
            return f"SphHarm_above({l}): returned shape {got.shape}"
        for i, m in enumerate(range(-l, l + 1)):
            if abs(got[i] - want[i]) > tol:
                return f"SphHarm_above(l={l})[m={m}]: returned {got[i]!r} at (θ={theta}, φ={phi}) but Y_lm = {want[i]!r}"
    disp = sh.sph_harm_l(l, theta, phi)
    if disp is None:
        return f"dispatch: sph_harm_l({l}, …) returned None instead of the table of degree {l}"
    disp = np.asarray(disp)
    if disp.shape != (2 * l + 1,) or np.max(np.abs(disp - np.asarray(want))) > tol:
        return f"dispatch: sph_harm_l({l}, …) does not return the degree-{l} values"
    return None


def check_kept(sh, l, angles):
    """call history: the routine is called for every angle and the RETURNED OBJECTS are kept; only after the last call is each
    one compared with Y_lm of its own angle (a result must not be a view of state that a later call rewrites)"""
    kept = []
    for (t, p) in angles:
        for fn in ((f"SphHarm{l}" if l <= 10 else None), "sph_harm_l", ("SphHarm_above" if l > 10 else None)):
            if fn is None:
                continue
            f = getattr(sh, fn)
            kept.append((fn, t, p, f(t, p) if fn.startswith("SphHarm") and l <= 10 else f(l, t, p)))
    scale = math.sqrt((2 * l + 1) / (4 * math.pi))
    tol = 1e-9 * max(1.0, scale) * (1 if l <= 12 else 100)
    for fn, t, p, got in kept:
        want = np.asarray([ref_Y(l, m, t, p) if l <= 12 else ref_Y_mp(l, m, t, p) for m in range(-l, l + 1)])
        got = np.asarray(got)
        if got.shape != want.shape or np.max(np.abs(got - want)) > tol:
            return (f"kept results: after {len(kept)} calls of degree {l} the array returned earlier by {fn}(θ={t}, φ={p}) no longer "
                    f"holds Y_lm of that direction (max deviation {float(np.max(np.abs(got - want))) if got.shape == want.shape else 'shape'})")
    return None


def correspond(run):
    npts = 5 if run.tier == "quick" else 400
    angles = gen_angles(run.rng, npts)
    broken = []
    try:
        sh = load_module()
    except Exception as e:
        why = f"module PyMatterSim.utils.spherical_harmonics cannot be imported: {type(e).__name__}: {e}"
        return [{"kind": "oracle", "name": "import", "detail": why, "cases": [], "failing": [("import", why, {"import": True})]}]
    ops, meta = [], []
    for l in range(1, 11):
        for (t, p) in angles:
            ops.append(f"sph {l} {float2bits(t)} {float2bits(p)}")
            meta.append((l, t, p))
    outs = common.drive(ops)
    tdis, pfail = [], []
    for (l, t, p), o in zip(meta, outs):
        if o == "bad-op":
            raise common.Infra("driver rejected sph op")
        vals = [bits2float(x) for x in o.split()]
        model = [complex(vals[2 * i], vals[2 * i + 1]) for i in range(len(vals) // 2)]
        try:
            real = np.asarray(getattr(sh, f"SphHarm{l}")(t, p))
        except Exception as e:
            pfail.append(({"l": l, "theta": t, "phi": p}, f"SphHarm{l}: raised {type(e).__name__}: {e}"))
            continue
        nontriv = 1e-3 < t < math.pi - 1e-3
        run.count((l, t, p), nontriv, sample={"l": l, "theta": t, "phi": p, "table_m0": [model[l].real, model[l].imag]})
        run.hist("l", l)
        if len(model) != len(real) or any(abs(a - b) > 1e-11 * (1 + abs(b)) for a, b in zip(model, real)):
            tdis.append(({"l": l, "theta": t, "phi": p}, f"l={l}: regenerated entries differ from SphHarm{l} at θ={t}, φ={p}"))
    for l in range(1, 21):
        for (t, p) in (angles if l <= 10 else angles[: max(4, len(angles) // 10)]):
            try:
                why = check_point(sh, l, t, p)
            except Exception as e:
                why = f"l={l}: raised {type(e).__name__}: {e}"
            if l > 10:
                run.count((l, t, p), 1e-3 < t < math.pi - 1e-3)
                run.hist("l", l)
            if why:
                pfail.append(({"l": l, "theta": t, "phi": p}, why))
    for l in range(1, 21):
        sub = angles[5:9] if len(angles) >= 9 else angles[:4]
        try:
            why = check_kept(sh, l, sub)
        except Exception as e:
            why = f"kept results: l={l}: raised {type(e).__name__}: {e}"
        run.hist("stream", "kept-results")
        run.count(("kept", l, tuple(sub)), True)
        if why:
            pfail.append(({"l": l, "kept": [list(a) for a in sub]}, why))
    run.coverage["programs"] = 120
    run.coverage["disagreements_checked"] = len(tdis)
    if tdis:
        broken.append({"kind": "translator-validation", "name": "Pms.Gen.Sph.table~SphHarm1..10",
                       "detail": f"{len(tdis)} disagreements; first: {tdis[0][1]}", "cases": [c for c, _ in tdis[:10]]})
    if pfail:
        broken.append({"kind": "oracle", "name": "spherical_harmonics vs reference Y_lm",
                       "detail": f"{len(pfail)} failures; first: {pfail[0][1]}", "cases": [c for c, _ in pfail[:10]],
                       "failing": [(key_of(w), w, c) for c, w in pfail]})
    return broken


def key_of(why):
    return "C08:" + why.split(":")[0].split("[")[0]


def search(run, broken):
    found = False
    for b in broken:
        for key, why, c in b.get("failing", []):
            run.violation(key if key.startswith("C08:") else "C08:" + key, why, {"case": c})
            found = True
    if found:
        return []
    # a proof/translator obligation broke but the standard sweep found nothing: densify the sweep
    try:
        sh = load_module()
    except Exception as e:
        run.violation("C08:import", f"cannot import: {e}", {"case": {"import": True}})
        return []
    for l in range(1, 21):
        ang = gen_angles(run.rng, 6)[5:]
        why = check_kept(sh, l, ang)
        if why:
            run.violation(key_of(why), why, {"case": {"l": l, "kept": [list(a) for a in ang]}})
            return []
    for (t, p) in gen_angles(run.rng, 300):
        for l in range(1, 21):
            why = check_point(sh, l, t, p)
            if why:
                run.violation(key_of(why), why, {"case": {"l": l, "theta": t, "phi": p}})
                return []
    return list(broken)


def replay(run, rp):
    c = rp.get("case", {})
    try:
        sh = load_module()
    except Exception:
        return True
    if c.get("import"):
        return False
    if "kept" in c:
        return bool(check_kept(sh, c["l"], [tuple(a) for a in c["kept"]]))
    return bool(check_point(sh, c["l"], c["theta"], c["phi"]))
