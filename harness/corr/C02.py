"""C02 — minimum image (`remove_pbc`): correspondence with Pms.Pbc.removePbc (exact ℚ), exact
monitors of the proved statements on the real output, metamorphic runs."""
from fractions import Fraction

import numpy as np

import common
from common import dec, fr

PROP = "C02"
PROPS_FILES = ["Pms/Props/C02.lean"]
GENERATORS = []
RULE = ("seeded generator over d∈{2,3} × cell kind {orthogonal, lower-triangular, general invertible} × mask {0,1}^d × "
        "array shape (n,d)/(d,) × decimal-grid displacements up to ±3 cells (+ dyadic tie stream); a case is non-trivial "
        "when at least one component is actually wrapped (rint ≠ 0 on a periodic axis); distinct = distinct literal inputs")
TRUSTED_BASE = [
    "Lean 4.33 kernel; axioms propext, Classical.choice, Quot.sound only",
    "np.linalg.inv modelled by contract IsInv (two-sided inverse); np.rint by contract IsRintHE (nearest, half→even at ±1/2, odd); np.dot by exact sums",
    "float64 arithmetic ≈ ℝ: validated by the correspondence under a margin guard (rint arguments ≥1e-6 from a tie), not proved",
    "hand-written model Pms/Model/Pbc.lean tied to pbc.py by the correspondence harness harness/corr/C02.py",
]


def _real(R, H, ppp):
    from PyMatterSim.utils.pbc import remove_pbc
    return np.asarray(remove_pbc(np.array(R, dtype=float), np.array(H, dtype=float), np.array(ppp)))


def gen_case(rng, tie=False):
    d = rng.choice([2, 3])
    kind = rng.choice(["orth", "tri", "gen"])
    H = [["0"] * d for _ in range(d)]
    if tie:
        kind = "orth"
        for i in range(d):
            H[i][i] = rng.choice(["1", "2", "4", "8"])
    else:
        for i in range(d):
            H[i][i] = dec(rng, 2, 9)
        if kind in ("tri", "gen"):
            for i in range(d):
                for j in range(i):
                    H[i][j] = dec(rng, -2, 2)
            common.sparse_tilt(rng, H)
        if kind == "gen":
            for i in range(d):
                for j in range(i + 1, d):
                    H[i][j] = dec(rng, -1, 1)
    ppp = [rng.choice(["0", "1"]) for _ in range(d)]
    if rng.random() < 0.4:
        ppp = ["1"] * d
    n = rng.randint(1, 6)
    flat = rng.random() < 0.15
    if flat:
        n = 1
    if tie:
        R = [[str(Fraction(rng.randint(-24, 24), 2) * Fraction(H[k][k])) if rng.random() < .5 else
              str(float(Fraction(rng.randint(-96, 96), 8))) for k in range(d)] for _ in range(n)]
        R = [[str(float(Fraction(x))) for x in row] for row in R]
    else:
        R = [[dec(rng, -25, 25) for _ in range(d)] for _ in range(n)]
    return {"d": d, "kind": kind, "H": H, "ppp": ppp, "n": n, "flat": flat, "R": R, "tie": tie}


def gen_sibling(rng, c):
    """a second call in the same process whose cell has the SAME diagonal (box lengths) but different tilt factors and the
    same vectors: `remove_pbc` is a pure function of its arguments, so hidden state carried from one call to the next (a cached
    inverse keyed by box lengths, a module-level buffer) shows up as a disagreement on the second call of the pair"""
    d = c["d"]
    H = [row[:] for row in c["H"]]
    for i in range(d):
        for j in range(i):
            H[i][j] = dec(rng, -2, 2) if c["kind"] != "orth" or rng.random() < 0.8 else "0"
    common.sparse_tilt(rng, H)
    if c["kind"] != "orth" and rng.random() < 0.3:      # sheared cell followed by the orthogonal cell of the same lengths
        for i in range(d):
            for j in range(d):
                if i != j:
                    H[i][j] = "0"
    kind = "orth" if all(H[i][j] in ("0", "0.000") for i in range(d) for j in range(d) if i != j) else "tri"
    return dict(c, H=H, kind=kind, sibling=True, prev={k: v for k, v in c.items() if k != 'prev'})


def op_line(c):
    d = c["d"]
    return "pbc {} {} {} {} {}".format(d, " ".join(x for row in c["H"] for x in row), " ".join(c["ppp"]), c["n"],
                                       " ".join(x for row in c["R"] for x in row))


def real_out(c):
    if c.get("prev"):
        real_out(c["prev"])        # replay the call history: the predecessor call happens first, in the same process
    R = [[float(x) for x in row] for row in c["R"]]
    H = [[float(x) for x in row] for row in c["H"]]
    ppp = [int(x) for x in c["ppp"]]
    if c["flat"]:
        R = R[0]
    return _real(R, H, ppp).reshape(-1)


def monitors(c, out):
    """the proved statements C02_lattice / C02_halfcell evaluated on the REAL output; exact rational
    arithmetic on the float values, 1e-9 slack for float rounding.  Returns a failure string or None."""
    d = c["d"]
    H = [[Fraction(x) for x in row] for row in c["H"]]
    Hf = np.array([[float(x) for x in row] for row in H])
    Hinv = np.linalg.inv(Hf)
    ppp = [int(x) for x in c["ppp"]]
    R = np.array([[float(Fraction(x)) for x in row] for row in c["R"]])
    out = np.asarray(out, dtype=float).reshape(-1, d)
    if out.shape != R.shape:
        return f"shape {out.shape} vs {R.shape}"
    for a in range(R.shape[0]):
        nvec = (R[a] - out[a]) @ Hinv           # should be integer * ppp
        g = out[a] @ Hinv
        f = R[a] @ Hinv
        for i in range(d):
            if abs(nvec[i] - round(nvec[i])) > 1e-8:
                return f"lattice: vector {a} axis {i}: shift {nvec[i]!r} cell vectors is not an integer"
            if ppp[i] == 0 and abs(nvec[i]) > 1e-8:
                return f"lattice: vector {a}: non-periodic axis {i} shifted by {nvec[i]!r}"
            if ppp[i] == 1 and abs(g[i]) > 0.5 + 1e-8:
                return f"halfcell: vector {a} axis {i}: fractional coordinate {g[i]!r} outside [-1/2,1/2]"
            if ppp[i] == 0 and abs(g[i] - f[i]) > 1e-8:
                return f"halfcell: vector {a}: fractional coordinate on non-periodic axis {i} changed {f[i]!r}->{g[i]!r}"
    return None


def metamorphic(c, rng):
    """idempotence, lattice-shift invariance, oddness, orthogonal shortest image on the real code"""
    d = c["d"]
    H = np.array([[float(x) for x in row] for row in c["H"]])
    ppp = np.array([int(x) for x in c["ppp"]])
    R = np.array([[float(x) for x in row] for row in c["R"]])
    o1 = _real(R, H, ppp)
    o2 = _real(o1, H, ppp)
    if not np.allclose(o1, o2, rtol=0, atol=1e-9):
        return "idempotent: second application moved the vectors"
    m = np.array([[rng.randint(-3, 3) for _ in range(d)] for _ in range(R.shape[0])])
    o3 = _real(R + (m * ppp) @ H, H, ppp)
    if not np.allclose(o1, o3, rtol=0, atol=1e-8):
        return f"shift_invariant: adding lattice vectors {m.tolist()} changed the result"
    if c["kind"] == "orth":
        L = np.diag(H)
        for _ in range(4):
            mm = np.array([[rng.randint(-2, 2) for _ in range(d)] for _ in range(R.shape[0])])
            alt = o1 + mm * ppp * L
            if np.any((o1 ** 2).sum(1) > (alt ** 2).sum(1) + 1e-9):
                return f"orthogonal_shortest: image shifted by {mm.tolist()} is shorter"
    return None


def classify(c):
    return f"d{c['d']}:{c['kind']}:ppp{''.join(c['ppp'])}:{'flat' if c['flat'] else 'nd'}{':tie' if c['tie'] else ''}"


def run_cases(run, cases):
    """returns list of (case, reason) disagreements (real vs Impl) and monitor failures"""
    outs = common.drive([op_line(c) for c in cases])
    disagreements, monitor_fail = [], []
    skipped = 0
    for c, o in zip(cases, outs):
        try:
            real = real_out(c)
            rerr = None
        except Exception as e:  # the real code raised on a well-formed input
            real, rerr = None, f"{type(e).__name__}: {e}"
        if o == "bad-op":
            raise common.Infra("driver rejected op: " + op_line(c)[:200])
        toks = o.split()
        margin = fr(toks[0])
        model = [float(fr(t)) for t in toks[1:]]
        run.hist("dim", c["d"]); run.hist("cell", c["kind"]); run.hist("mask", "".join(c["ppp"]))
        run.hist("shape", "(d,)" if c["flat"] else "(n,d)"); run.hist("history", "second call, same box lengths" if c.get("sibling") else "independent")
        if rerr is not None:
            disagreements.append((c, "real code raised " + rerr))
            continue
        if not c["tie"] and margin < Fraction(1, 10 ** 6):
            skipped += 1
            continue
        flatin = [float(Fraction(v)) for row in c["R"] for v in row]
        wrapped = any(abs(a - b) > 1e-12 for a, b in zip(flatin, real))
        run.count(op_line(c), wrapped, sample={"op": op_line(c), "model": toks[1:][:6], "real": [float(x) for x in real[:6]]})
        if len(model) != len(real) or any(not common.close(a, b, 1e-9) for a, b in zip(model, real)):
            disagreements.append((c, f"real {real.tolist()} vs model {model}"))
        mf = monitors(c, real)
        if mf is None and not c["tie"]:
            mf = metamorphic(c, run.rng)
        if mf:
            monitor_fail.append((c, mf))
    run.coverage["skipped_inside_margin"] = run.coverage.get("skipped_inside_margin", 0) + skipped
    return disagreements, monitor_fail


def correspond(run):
    n = 1500 if run.tier == "quick" else 20000
    cases = common.load_corpus(PROP)
    for i in range(n):
        c = gen_case(run.rng, tie=(i % 10 == 9))
        cases.append(c)
        if i % 4 == 0 and not c["tie"] and c["kind"] != "gen":
            cases.append(gen_sibling(run.rng, c))       # call history: same box lengths, different tilt, same process
    dis, mon = run_cases(run, cases)
    run.coverage["traces_validated_against_impl"] = run.coverage["evaluations"]
    broken = []
    if dis:
        broken.append({"kind": "correspondence", "name": "Pms.Pbc.removePbc~remove_pbc",
                       "detail": f"{len(dis)} of {len(cases)} cases disagree; first: {dis[0][1][:200]}",
                       "cases": [c for c, _ in dis[:20]]})
    if mon:
        broken.append({"kind": "monitor", "name": "C02 monitors on real output",
                       "detail": f"{len(mon)} monitor failures; first: {mon[0][1][:200]}",
                       "cases": [c for c, _ in mon[:20]], "reasons": [r for _, r in mon[:20]]})
    return broken


def failing(c, rng):
    """does the REAL code violate the property statement on this input?  (monitors + metamorphic)"""
    try:
        real = real_out(c)
    except Exception as e:
        return f"raised {type(e).__name__}: {e}"
    return monitors(c, real) or (None if c.get("tie") else metamorphic(c, rng))


def shrink(c, rng):
    best = c
    for a in range(len(c["R"])):
        cand = dict(c, R=[c["R"][a]], n=1)
        if c.get("prev"):
            cand["prev"] = dict(c["prev"], R=[c["prev"]["R"][a]], n=1)
        if failing(cand, rng):
            best = cand
            break
    return best


def search(run, broken):
    unexplained = []
    tried = 0
    for b in broken:
        found = False
        pool = list(b.get("cases", []))
        if not pool:
            pool = [gen_case(run.rng) for _ in range(2000)]
        for c in pool:
            tried += 1
            why = failing(c, run.rng)
            if why:
                c2 = shrink(c, run.rng)
                why2 = failing(c2, run.rng) or why
                run.violation(f"C02:{why2.split(':')[0]}:{c2['kind']}", why2, {"case": c2, "broken": b["name"]})
                found = True
                break
        if not found:
            unexplained.append(b)
    run.coverage["search_cases"] = tried
    return unexplained


def replay(run, rp):
    if "case" in rp:
        return bool(failing(rp["case"], run.rng))
    dis, mon = run_cases(run, rp.get("cases", []))
    return bool(dis or mon)
