"""C19 — header writer, auxiliary readers and the dump reader agree on the same data.

Tie: (a) translator `writer` regenerates the header templates of lammps_writer.py (Pms/Gen/Writer.lean); the theorems
are about the regenerated templates; (b) differential correspondence between the REAL routines and the exact-ℚ models
`Pms.AuxIo.Impl.*` / C01's `Lammps.Impl.readAll` on the same text / the same duck-typed frame objects, six streams:
  hdr     write_dump_header / write_data_header → text (token-for-token vs the rendered templates) → read_lammps_wrapper
  center  read_lammps_centertype_wrapper     vector  read_lammps_vector_wrapper     adds  read_additions
  gsd     read_gsd / read_gsd_dcd on duck-typed HOOMD frames      log  read_lammpslog on synthetic logs
Failing-input search: the real routine against the Spec (Lean `Spec.*` through the driver, or the property statement
checked directly), never against Impl."""
import logging
import os
import shutil
import tempfile
from fractions import Fraction
from types import SimpleNamespace as NS

import numpy as np

import common
from common import dec
from gen import auxio as ax

logging.disable(logging.ERROR)

PROP = "C19"
PROPS_FILES = ["Pms/Props/C19.lean"]
GENERATORS = ["writer"]
RULE = ("six seeded streams.  hdr: ndim∈{2,3} × timestep × N∈0..10 (shuffled ids) × bounds with 0..8 decimals (either sign) × "
        "addson∈{None,'',one,two names}, 1..3 frames per file; center/vector/adds: C01-style trajectories (orthogonal, some "
        "triclinic for the model tie only; styles x/xs/xu; 1..4 frames; 0..12 atoms; extra columns) × type maps over "
        "subsets of the types × column lists with repetition × every column index; gsd: 1..4 duck-typed frames, N∈1..8, "
        "2-D/3-D, with/without DCD, wrong-dimension and inconsistent-DCD cases; log: 0..4 sections × 0..6 rows × noise "
        "lines × blank tail, plus incomplete trailing sections.  Non-trivial: ≥2 frames/sections or atoms not in id order "
        "or a non-identity selection; distinct = distinct inputs")
TRUSTED_BASE = [
    "Lean 4.33 kernel; axioms propext, Classical.choice, Quot.sound only",
    "str.split(), int(), float(), str(int), f'{x:.6f}' (= x rounded half-even to 6 decimals, `rnd`), str.startswith, "
    "str.isnumeric and decimal→double rounding are primitives: files are lines of tokens classified int / float-only / "
    "word; log lines are rendered without leading blanks and with single spaces, so startswith('Step ') ⟺ first token "
    "'Step' and a second token exists; a blank line is a line without tokens",
    "the header templates are regenerated from lammps_writer.py by translator/gens/writer.py (AST walker, trusted; "
    "cross-checked every run token-for-token against the strings the real writers return)",
    "numpy assignment/broadcasting/boolean-mask indexing/np.where/np.diag/min/max/column_stack, pandas Series.map on a "
    "dict and pd.read_csv(sep=r'\\s+', skiprows, nrows) (header = first line after the skipped ones, then nrows rows; no "
    "blank or ragged lines inside a section) are modelled by contract in Pms/Model/AuxIo.lean (hand-written Impl), tied "
    "to the source only by this correspondence; dataclasses.replace by contract",
    "float64 ≈ ℝ compared at 1e-9; decisions guarded by model-computed margins: distance of every printed bound·10^6 "
    "from a rounding tie ≥ 1e-4, C01's wrap margin ≥ 1e-6",
    "gsd / mdtraj are not installed: read_gsd / read_gsd_dcd are exercised on duck-typed frame objects (attributes "
    "configuration.{dimensions,box,step}, particles.{N,typeid,position}) and a fake DCD object with read(); the "
    "*_wrapper functions that open real files are not covered",
    "Spec (hand-written): C01's LAMMPS dump conventions; centre reader claimed for orthogonal cells only (the code has "
    "no triclinic branch); column ids ≥ 1; read_additions for files whose frames all have the same N; logs whose last "
    "line is not a digit-first line unless the last section is incomplete; error behaviour on malformed input is "
    "modelled and reported as coverage only",
]
GUARD = Fraction(1, 10 ** 6)
TIE_GUARD = Fraction(1, 10 ** 4)


# ----------------------------------------------------------------------------- scratch files

_tmp = [None]


def tmp(name):
    if _tmp[0] is None:
        _tmp[0] = tempfile.mkdtemp(prefix="c19-")
    return os.path.join(_tmp[0], name)


def cleanup():
    if _tmp[0]:
        shutil.rmtree(_tmp[0], ignore_errors=True)
        _tmp[0] = None


def put(name, text):
    p = tmp(name)
    with open(p, "w") as f:
        f.write(text)
    return p


def sections(o, n):
    sec = [s.strip() for s in (o + " ").split(" ;;")]
    if len(sec) != n:
        raise common.Infra(f"driver output has {len(sec)} sections, expected {n}: {o[:200]}")
    return sec


def snap_frames(snaps):
    frames = []
    for s in snaps.snapshots:
        frames.append({"timestep": s.timestep if not isinstance(s.timestep, np.generic) else s.timestep.item(),
                       "nparticle": s.nparticle if not isinstance(s.nparticle, np.generic) else s.nparticle.item(),
                       "particle_type": np.asarray(s.particle_type).tolist(),
                       "positions": None if s.positions is None else np.asarray(s.positions).tolist(),
                       "boxlength": np.asarray(s.boxlength).tolist(),
                       "boxbounds": np.asarray(s.boxbounds).tolist(),
                       "realbounds": None if s.realbounds is None else np.asarray(s.realbounds).tolist(),
                       "hmatrix": np.asarray(s.hmatrix).tolist()})
    note = None if snaps.nsnapshots == len(frames) else f"nsnapshots={snaps.nsnapshots} but {len(frames)} snapshots"
    return ("ok", frames, note)


def call(fn):
    try:
        return fn()
    except Exception as e:      # noqa: BLE001 — the class is the observation
        return ("err", type(e).__name__, str(e)[:160])


def frame_spec_words(f, nd):
    parts = [str(f["ts"]), "1" if f["tric"] else "0", str(ax.STYLES.index(f["style"]))] + f["lo"] + f["hi"]
    parts += [f["xy"], f["xz"], f["yz"], str(len(f["flags"]))] + f["flags"] + [str(len(f["names"]))] + f["names"]
    parts.append(str(len(f["atoms"])))
    for a in f["atoms"]:
        parts += [str(a["id"]), str(a["type"])] + a["c"][:nd] + [str(len(a["extras"]))] + a["extras"]
    return parts


def atom_words(a, nd):
    return [str(a["id"]), str(a["type"])] + a["c"][:nd] + [str(len(a["extras"]))] + a["extras"]


# ----------------------------------------------------------------------------- stream: hdr

ADDSONS = [None, "", "order", "q6 q4", "c_order vx", "Q6"]


def gen_hdr_frame(rng, nd, ts):
    bb = []
    tie = rng.random() < 0.12      # tie stream: dyadic bounds (exact in float64), many of them exact rounding ties at 6 decimals
    for _ in range(nd):
        if tie:
            q = rng.choice([128, 256, 512])
            lo = ax.str_frac(Fraction(rng.randint(-30 * q, 30 * q), q))
            hi = ax.str_frac(Fraction(lo) + Fraction(rng.randint(2 * q, 15 * q), q))
        else:
            k = rng.choice([0, 1, 3, 6, 7, 8, 8])
            lo = dec(rng, -30, 30, k) if k else str(rng.randint(-30, 30))
            L = dec(rng, 2, 15, rng.choice([0, 2, 7, 8]))
            hi = ax.fsum(lo, L)
        bb.append([lo, hi])
    addson = rng.choice(ADDSONS)
    nex = len(str(addson).split())
    n = rng.choice([0, 1, 2, 3, 3, 4, 5, 6, 10])
    ids = list(range(1, n + 1))
    if rng.random() < 0.8:
        rng.shuffle(ids)
    atoms = []
    for i in ids:
        c = []
        for k in range(nd):
            lo, hi = float(Fraction(bb[k][0])), float(Fraction(bb[k][1]))
            if rng.random() < 0.75:
                c.append(dec(rng, lo + 1e-3, hi - 1e-3, 4))
            else:
                c.append(dec(rng, lo - (hi - lo) + 1e-2, hi + (hi - lo) - 1e-2, 4))
        ex = [("i%d" % rng.randint(-3, 3)) if rng.random() < 0.3 else "n" + dec(rng, -9, 9, 3) for _ in range(nex)]
        atoms.append({"id": i, "type": rng.randint(1, 3), "c": c, "extras": ex})
    return {"ts": ts, "ntypes": rng.randint(1, 4), "bb": bb, "addson": addson, "atoms": atoms}


def gen_hdr(rng):
    nd = rng.choice([2, 3])
    ts = rng.choice([0, 0, 7, 1000, 5451182])
    frames = []
    for _ in range(rng.choice([1, 1, 2, 3])):
        frames.append(gen_hdr_frame(rng, nd, ts))
        ts += rng.choice([1, 10, 5000])
    return {"stream": "hdr", "nd": nd, "frames": frames, "fmt": rng.randint(0, 10 ** 9)}


def hdr_op(nd, f):
    bb = [x for r in f["bb"] for x in r] + ["0"] * (6 - 2 * len(f["bb"]))
    add = str(f["addson"]).split()
    parts = ["c19hdr", str(nd), str(f["ts"]), str(len(f["atoms"])), str(f["ntypes"]), str(len(f["bb"]))] + bb
    parts += [str(len(add))] + add + [str(len(f["atoms"]))]
    for a in f["atoms"]:
        parts += atom_words(a, nd)
    return " ".join(parts)


def dyadic(c):
    """all bounds exactly representable in float64: the printed digits are then the exact half-even rounding"""
    ds = [Fraction(x).denominator for f in c["frames"] for r in f["bb"] for x in r]
    return all(d & (d - 1) == 0 and d <= 2 ** 20 for d in ds)


def eval_hdr(c):
    """→ dict(margin, tokerr, real, impl, spec, specerr, text)"""
    from PyMatterSim.writer.lammps_writer import write_dump_header, write_data_header
    from PyMatterSim.reader.lammps_reader_helper import read_lammps_wrapper
    nd = c["nd"]
    outs = common.drive([hdr_op(nd, f) for f in c["frames"]])
    margin = Fraction(1)
    text = ""
    tokerr = specerr = None
    spec_frames = []
    for f, o in zip(c["frames"], outs):
        if o == "bad-op":
            raise common.Infra("driver rejected op: " + hdr_op(nd, f)[:300])
        sec = sections(o, 7)
        margin = min(margin, Fraction(sec[0]))
        lines = ax.parse_wire_lines(sec[1])
        bbarr = np.array([[float(Fraction(x)) for x in r] for r in f["bb"]])
        rd = call(lambda: write_dump_header(f["ts"], len(f["atoms"]), bbarr, f["addson"]))
        ra = call(lambda: write_data_header(len(f["atoms"]), f["ntypes"], bbarr))
        if isinstance(rd, tuple) or isinstance(ra, tuple):
            e = rd if isinstance(rd, tuple) else ra
            tokerr = tokerr or f"writer raised {e[1]}: {e[2]}"
            specerr = specerr or ("raised:" + e[1], tokerr)
            continue
        hd = ax.tokenise(rd)
        e1 = ax.lines_agree(lines[:9], hd, strict=True) if len(hd) == 9 else f"{len(hd)} header lines"
        e2 = ax.lines_agree(ax.parse_wire_lines(sec[2]), ax.tokenise(ra), strict=True)
        tokerr = tokerr or (("dump header: " + e1) if e1 else (("data header: " + e2) if e2 else None))
        s1 = ax.lines_agree(ax.parse_wire_lines(sec[5]), hd, strict=True)
        s2 = ax.lines_agree(ax.parse_wire_lines(sec[6]), ax.tokenise(ra), strict=True)
        if s1 and not specerr:
            specerr = ("dump:tokens", "write_dump_header: " + s1)
        if s2 and not specerr:
            specerr = ("data:tokens", "write_data_header: " + s2)
        text += rd + ax.render(lines[9:], c["fmt"])
        spec_frames += ax.parse_result(sec[4])[1]
    path = put("hdr.dump", text)
    real = call(lambda: snap_frames(read_lammps_wrapper(path, nd)))
    o = common.drive([f"c19raw lammps {nd} " + ax.wire_lines(ax.tokenise(text))])[0]
    if o == "bad-op":
        raise common.Infra("driver rejected c19raw lammps")
    sec = sections(o, 2)
    return {"margin": margin, "wrap_margin": Fraction(sec[0]), "tokerr": tokerr, "real": real,
            "impl": ax.parse_result(sec[1]), "spec": ("ok", spec_frames), "specerr": specerr, "text": text,
            "ok_margin": (margin >= TIE_GUARD or dyadic(c)) and Fraction(sec[0]) >= GUARD}


# ----------------------------------------------------------------------------- streams: center / vector / adds

def gen_traj(rng, stream):
    nd = rng.choice([2, 3])
    nf = rng.choice([1, 1, 2, 2, 3, 4])
    ts = rng.choice([0, 100, 26000])
    frames = []
    tric_ok = rng.random() < 0.12
    for _ in range(nf):
        force = None
        if frames:
            force = (frames[0]["tric"], frames[0]["style"], frames[0]["names"])
        f = ax.gen_frame(rng, nd, ts, False, force)
        if f["tric"] and not tric_ok:
            f = ax.gen_frame(rng, nd, ts, False, (False, f["style"], f["names"]))
        if stream == "adds" and frames:
            # every frame of a file read by read_additions has the same N: regenerate the atoms with the same ids
            while len(f["atoms"]) != len(frames[0]["atoms"]):
                f = ax.gen_frame(rng, nd, ts, False, (frames[0]["tric"], frames[0]["style"], frames[0]["names"]))
        frames.append(f)
        ts += rng.choice([1, 10, 1000])
    c = {"stream": stream, "nd": nd, "pr": rng.choice([0, 0, 1]), "frames": frames, "fmt": rng.randint(0, 10 ** 9)}
    width = 2 + nd + len(frames[0]["names"])
    if stream == "center":
        keys = rng.sample([1, 2, 3, 4, 5], rng.choice([0, 1, 1, 2, 2, 3, 4]))
        c["mol"] = [[k, rng.randint(1, 3)] for k in keys]
    elif stream == "vector":
        c["cols"] = [rng.randint(1, width) for _ in range(rng.choice([1, 1, 2, 3]))]
        if rng.random() < 0.03:
            c["cols"] = []
        elif rng.random() < 0.04:
            c["cols"][0] = rng.choice([0, width + 1, -1])
    else:
        c["ncol"] = rng.randint(0, width - 1) if rng.random() < 0.94 else rng.choice([-1, width, -width])
    return c


def traj_op(c):
    nd = c["nd"]
    if c["stream"] == "center":
        head = ["c19center", str(nd), str(c["pr"]), str(len(c["mol"]))] + [str(x) for kv in c["mol"] for x in kv]
    elif c["stream"] == "vector":
        head = ["c19vector", str(nd), str(c["pr"]), str(len(c["cols"]))] + [str(x) for x in c["cols"]]
    else:
        head = ["c19adds", str(nd), str(c["pr"]), str(c["ncol"])]
    head.append(str(len(c["frames"])))
    for f in c["frames"]:
        head += frame_spec_words(f, nd)
    return " ".join(head)


def parse_mat(s):
    t = s.split()
    if t[0] == "err":
        return ("err", {"value": "ValueError", "index": "IndexError"}[t[1]])
    pos = [1]

    def nxt():
        v = t[pos[0]]; pos[0] += 1
        return v
    rows = []
    for _ in range(int(nxt())):
        n = int(nxt())
        rows.append([Fraction(nxt()) for _ in range(n)])
    return ("ok", rows)


def real_traj(c, text):
    from PyMatterSim.reader.lammps_reader_helper import (read_lammps_centertype_wrapper, read_lammps_vector_wrapper,
                                                          read_additions)
    path = put("traj.dump", text)
    nd = c["nd"]
    if c["stream"] == "center":
        mol = {k: v for k, v in c["mol"]}
        return call(lambda: snap_frames(read_lammps_centertype_wrapper(path, nd, mol)))
    if c["stream"] == "vector":
        return call(lambda: snap_frames(read_lammps_vector_wrapper(path, nd, list(c["cols"]))))
    return call(lambda: ("ok", np.asarray(read_additions(path, c["ncol"])).tolist()))


def spec_applies(c):
    """is the case inside the claim of the Spec?"""
    if any(f["tric"] for f in c["frames"]):
        return False
    if c["stream"] == "vector":
        width = 2 + c["nd"] + len(c["frames"][0]["names"])
        if not c["cols"] or any(not (1 <= k <= width) for k in c["cols"]):
            return False
        for f in c["frames"]:
            for a in f["atoms"]:
                for k in c["cols"]:
                    j = k - 3 - c["nd"]
                    if j >= 0 and a["extras"][j].startswith("w"):
                        return False
    if c["stream"] == "adds":
        width = 2 + c["nd"] + len(c["frames"][0]["names"])
        if not (0 <= c["ncol"] < width):
            return False
        if len({len(f["atoms"]) for f in c["frames"]}) != 1:
            return False
        j = c["ncol"] - 2 - c["nd"]
        if j >= 0 and any(a["extras"][j].startswith("w") for f in c["frames"] for a in f["atoms"]):
            return False
    return True


def mat_diff(real, model):
    if real[0] != model[0]:
        if real[0] == "err":
            return ("raised:" + real[1], f"read_additions raised {real[1]}: {real[2]}")
        return ("no-error", "read_additions returned where an exception was expected")
    if real[0] == "err":
        return None if real[1] == model[1] else ("raised:" + real[1], f"raised {real[1]}, expected {model[1]}")
    a, b = real[1], model[1]
    if len(a) != len(b):
        return ("shape", f"{len(a)} rows, expected {len(b)}")
    for n, (x, y) in enumerate(zip(a, b)):
        if not ax.num_eq(x, y, False):
            return ("values", f"frame {n}: real {x} expected {ax.tofloat(y)}")
    return None


def eval_traj(c):
    o = common.drive([traj_op(c)])[0]
    if o == "bad-op":
        raise common.Infra("driver rejected op: " + traj_op(c)[:300])
    sec = sections(o, 4)
    lines = ax.parse_wire_lines(sec[1])
    text = ax.render(lines, c["fmt"])
    tokerr = ax.lines_agree(lines, ax.tokenise(text), strict=True)
    real = real_traj(c, text)
    if c["stream"] == "adds":
        impl, spec = parse_mat(sec[2]), parse_mat(sec[3])
        d_impl, d_spec = mat_diff(real, impl), mat_diff(real, spec)
    else:
        impl, spec = ax.parse_result(sec[2]), ax.parse_result(sec[3])
        d_impl, d_spec = ax.diff(real, impl), ax.diff(real, spec)
    return {"margin": Fraction(sec[0]), "tokerr": tokerr, "real": real, "impl": impl, "spec": spec, "text": text,
            "d_impl": d_impl, "d_spec": d_spec if spec_applies(c) else None, "inst": spec_applies(c) and impl != spec,
            "ok_margin": Fraction(sec[0]) >= GUARD}


# ----------------------------------------------------------------------------- stream: gsd

def gen_gsd(rng):
    nd = rng.choice([2, 3])
    nf = rng.choice([1, 2, 2, 3, 4])
    n = rng.choice([1, 1, 2, 3, 5, 8])
    f32 = rng.random() < 0.3
    wrong = rng.random() < 0.08
    frames = []
    step = rng.choice([0, 10, 5000])
    for _ in range(nf):
        if f32:
            val = lambda lo, hi: str(Fraction(rng.randint(lo * 8, hi * 8), 8))     # noqa: E731 — dyadic: exact in float32
        else:
            val = lambda lo, hi: dec(rng, lo, hi, 4)     # noqa: E731
        box = [val(2, 12), val(2, 12), (val(2, 12) if nd == 3 else "1"), "0", "0", "0"]
        pos = [[val(-6, 6), val(-6, 6), (val(-6, 6) if nd == 3 else "0")] for _ in range(n)]
        frames.append({"dims": (nd if not (wrong and not frames) else 5 - nd), "step": step, "N": n, "box": box,
                       "typeid": [rng.randint(0, 3) for _ in range(n)], "pos": pos})
        step += rng.choice([1, 100])
    if rng.random() < 0.04:
        frames[-1]["pos"] = []
        frames[-1]["typeid"] = []
        frames[-1]["N"] = 0
    c = {"stream": "gsd", "nd": nd, "frames": frames, "f32": f32, "dcd": None}
    if rng.random() < 0.5:
        nfd, na = nf, n
        u = rng.random()
        if u < 0.08:
            nfd = nf + rng.choice([-1, 1])
        elif u < 0.16:
            na = n + 1
        c["dcd"] = [[[dec(rng, -30, 30, 4) if not f32 else str(Fraction(rng.randint(-240, 240), 8)) for _ in range(3)]
                     for _ in range(na)] for _ in range(max(nfd, 0))]
    return c


def gsd_op(c):
    parts = ["c19gsd", str(c["nd"]), "0" if c["dcd"] is None else "1", str(len(c["frames"]))]
    for f in c["frames"]:
        parts += [str(f["dims"]), str(f["step"]), str(f["N"]), str(len(f["box"]))] + f["box"]
        parts += [str(len(f["typeid"]))] + [str(t) for t in f["typeid"]]
        parts += [str(len(f["pos"])), "3"] + [x for r in f["pos"] for x in r]
    if c["dcd"] is not None:
        parts.append(str(len(c["dcd"])))
        for fr in c["dcd"]:
            parts += [str(len(fr)), "3"] + [x for r in fr for x in r]
    return " ".join(parts)


class FakeDCD:
    def __init__(self, xyz):
        self.xyz = xyz

    def read(self):
        return (self.xyz, None, None)


def real_gsd(c):
    from PyMatterSim.reader.gsd_reader_helper import read_gsd, read_gsd_dcd
    ft = np.float32 if c["f32"] else np.float64
    fl = lambda rows, w: np.array([[float(Fraction(x)) for x in r] for r in rows], dtype=ft).reshape(len(rows), w)  # noqa: E731
    f = [NS(configuration=NS(dimensions=fr["dims"], box=np.array([float(Fraction(x)) for x in fr["box"]], dtype=ft),
                             step=fr["step"]),
            particles=NS(N=fr["N"], typeid=np.array(fr["typeid"], dtype=np.uint32), position=fl(fr["pos"], 3)))
         for fr in c["frames"]]

    def go():
        if c["dcd"] is None:
            r = read_gsd(f, c["nd"])
        else:
            nfd = len(c["dcd"])
            na = len(c["dcd"][0]) if nfd else 0
            xyz = np.array([[[float(Fraction(x)) for x in r] for r in fr] for fr in c["dcd"]], dtype=ft).reshape(nfd, na, 3)
            r = read_gsd_dcd(f, FakeDCD(xyz), c["nd"])
        return ("none",) if r is None else snap_frames(r)
    return call(go)


def parse_opt_frames(s):
    if s.strip() == "ok none":
        return ("none",)
    return ax.parse_result(s)


def gsd_expected(c):
    """the property statement, directly: types +1, positions cut to ndim (DCD positions frame by frame), in order"""
    fr = c["frames"]
    if not fr or fr[0]["dims"] != c["nd"] or any(not f["pos"] for f in fr):
        return None
    if c["dcd"] is not None and (len(c["dcd"]) != len(fr) or len(c["dcd"][0]) != fr[0]["N"]):
        return None
    out = []
    for i, f in enumerate(fr):
        src = f["pos"] if c["dcd"] is None else c["dcd"][i]
        out.append({"timestep": f["step"], "nparticle": f["N"], "particle_type": [t + 1 for t in f["typeid"]],
                    "positions": [[Fraction(x) for x in r[:c["nd"]]] for r in src],
                    "boxlength": [Fraction(x) for x in f["box"][:c["nd"]]]})
    return out


def gsd_diff(real, model):
    if real[0] != model[0]:
        if real[0] == "err":
            return ("raised:" + real[1], f"raised {real[1]}: {real[2]}")
        return ("result-kind", f"real returned {real[0]}, expected {model[0]}")
    if real[0] in ("none",):
        return None
    if real[0] == "err":
        return None if real[1] == model[1] else ("raised:" + real[1], f"raised {real[1]}, expected {model[1]}")
    return ax.diff(real, model)


def gsd_spec_diff(c, real):
    exp = gsd_expected(c)
    if exp is None:
        return None
    if real[0] != "ok":
        return ("raised:" + real[1], f"raised {real[1]}: {real[2]}") if real[0] == "err" else ("none", "returned None")
    if real[2]:
        return ("nsnapshots", real[2])
    if len(real[1]) != len(exp):
        return ("nsnapshots", f"{len(real[1])} snapshots for {len(exp)} frames")
    for n, (a, b) in enumerate(zip(real[1], exp)):
        for fld in ("timestep", "nparticle", "particle_type", "positions", "boxlength"):
            if not ax.num_eq(a[fld], b[fld], fld in ("timestep", "nparticle", "particle_type")):
                return (fld, f"frame {n}: {fld} real {a[fld]} expected {ax.tofloat(b[fld])}")
    return None


def eval_gsd(c):
    o = common.drive([gsd_op(c)])[0]
    if o == "bad-op":
        raise common.Infra("driver rejected op: " + gsd_op(c)[:300])
    impl = parse_opt_frames(o)
    real = real_gsd(c)
    return {"real": real, "impl": impl, "d_impl": gsd_diff(real, impl), "d_spec": gsd_spec_diff(c, real),
            "inst": False, "ok_margin": True, "tokerr": None}


# ----------------------------------------------------------------------------- stream: log

NAMES = ["Temp", "PotEng", "KinEng", "TotEng", "Press", "Volume", "E_pair", "c_msd[4]", "v_q6"]
NOISE = ["units lj", "run 100", "WARNING: Using a manybody potential with bonds", "Total wall time: 0:00:01", "",
         "Stepping stones", "Loop unrolled 4 times", "Step", "12 atoms created", "Loop time",
         "Per MPI rank memory allocation (min/avg/max) = 3.1 3.1 3.1 Mbytes", "3 by 1 by 2 MPI processor grid"]


def gen_value(rng):
    u = rng.random()
    if u < 0.2:
        return str(rng.randint(-50, 5000))
    if u < 0.3:
        return f"{rng.randint(1, 9)}.{rng.randint(0, 999):03d}e{rng.choice(['-', '+'])}{rng.randint(0, 5):02d}"
    return dec(rng, -500, 500, rng.choice([1, 3, 6]))


def gen_log(rng):
    nsec = rng.choice([0, 1, 1, 2, 2, 3, 4])
    pre = [rng.choice(NOISE) for _ in range(rng.randint(0, 3))]
    secs = []
    step = 0
    for _ in range(nsec):
        names = ["Step"] + rng.sample(NAMES, rng.randint(1, 4))
        rows = []
        for _ in range(rng.choice([0, 1, 2, 3, 4, 6])):
            rows.append([str(step)] + [gen_value(rng) for _ in names[1:]])
            step += rng.choice([1, 10, 50])
        loop = f"Loop time of {dec(rng, 0, 9, 4)} on {rng.randint(1, 8)} procs for {step} steps with {rng.randint(2, 500)} atoms"
        noise = [rng.choice(NOISE) for _ in range(rng.randint(0, 3))]
        secs.append({"header": " ".join(names), "rows": [" ".join(r) for r in rows], "loop": loop, "noise": noise})
    c = {"stream": "log", "pre": pre, "secs": secs, "tail": None}
    if rng.random() < 0.15:
        names = ["Step"] + rng.sample(NAMES, rng.randint(1, 3))
        c["tail"] = {"header": " ".join(names),
                     "rows": [" ".join([str(step + 5 * k)] + [gen_value(rng) for _ in names[1:]]) for k in range(rng.randint(0, 5))]}
    fix_last(c)
    return c


def log_lines(c):
    ls = list(c["pre"])
    for s in c["secs"]:
        ls += [s["header"]] + s["rows"] + [s["loop"]] + s["noise"]
    return ls


def fix_last(c):
    """keep the log inside the claim: the last line of a complete log is blank or does not start with digits, and is not
    whitespace-only / the file is not empty"""
    if c["tail"] is not None:
        return
    ls = log_lines(c)
    if not ls or (ls[-1].split() and ls[-1].split()[0].isnumeric()) or (ls[-1] != "" and not ls[-1].split()):
        (c["secs"][-1]["noise"] if c["secs"] else c["pre"]).append("Total wall time: 0:00:03")


def log_text(c):
    ls = log_lines(c)
    if c["tail"] is not None:
        ls += [c["tail"]["header"]] + c["tail"]["rows"]
    return "".join(l + "\n" for l in ls), ls


def parse_tables(s):
    t = s.split()
    if t[0] == "err":
        return ("err", {"value": "ValueError", "index": "IndexError"}[t[1]])
    pos = [2]
    tabs = []
    for _ in range(int(t[1])):
        assert t[pos[0]] == "T"
        nl = int(t[pos[0] + 1])
        pos[0] += 2
        lines, cur = [], []
        while len(lines) < nl:
            w = t[pos[0]]; pos[0] += 1
            if w == "|":
                lines.append(cur); cur = []
            else:
                cur.append(ax.unwire(w))
        tabs.append({"columns": [str(v) for _, v in lines[0]], "rows": [[v for _, v in r] for r in lines[1:]]})
    return ("ok", tabs)


def real_log(text):
    from PyMatterSim.reader.simulation_log import read_lammpslog
    path = put("log.lammps", text)

    def go():
        r = read_lammpslog(path)
        return ("ok", [{"columns": [str(x) for x in d.columns], "rows": d.values.tolist()} for d in r])
    return call(go)


def cell_eq(p, q):
    if isinstance(p, str) or isinstance(q, str):
        return str(p) == str(q)
    return common.close(float(p), float(q))


def tables_diff(real, model):
    if real[0] != model[0]:
        if real[0] == "err":
            return ("raised:" + real[1], f"read_lammpslog raised {real[1]}: {real[2]}")
        return ("no-error", "read_lammpslog returned where an exception was expected")
    if real[0] == "err":
        ok = real[1] == model[1] or (real[1] == "ParserError" and model[1] == "ValueError")
        return None if ok else ("raised:" + real[1], f"raised {real[1]}, expected {model[1]}")
    a, b = real[1], model[1]
    if len(a) != len(b):
        return ("sections", f"{len(a)} tables returned, {len(b)} expected")
    for n, (x, y) in enumerate(zip(a, b)):
        if x["columns"] != y["columns"]:
            return ("columns", f"section {n}: columns {x['columns']} expected {y['columns']}")
        if len(x["rows"]) != len(y["rows"]):
            return ("rows", f"section {n}: {len(x['rows'])} rows, expected {len(y['rows'])}")
        for k, (r, s) in enumerate(zip(x["rows"], y["rows"])):
            if len(r) != len(s) or not all(cell_eq(p, q) for p, q in zip(r, s)):
                return ("values", f"section {n} row {k}: {r} expected {[float(q) if not isinstance(q, str) else q for q in s]}")
    return None


def eval_log(c):
    text, ls = log_text(c)
    toks = ax.tokenise(text)
    if c["tail"] is None:
        counts = [str(len(c["secs"]))] + [str(x) for s in c["secs"] for x in (len(s["rows"]), len(s["noise"]))]
        op = " ".join(["c19logspec", str(len(c["pre"]))] + counts) + " " + ax.wire_lines(toks)
        o = common.drive([op])[0]
        if o == "bad-op":
            raise common.Infra("driver rejected op: " + op[:300])
        sec = sections(o, 3)
        tokerr = ax.lines_agree(ax.parse_wire_lines(sec[0]), toks, strict=True)
        impl, spec = parse_tables(sec[1]), parse_tables(sec[2])
    else:
        o = common.drive(["c19raw log " + ax.wire_lines(toks)])[0]
        if o == "bad-op":
            raise common.Infra("driver rejected c19raw log")
        sec = sections(o, 2)
        tokerr = None
        impl = parse_tables(sec[1])
        # documented behaviour of an incomplete trailing section (theorem C19_log_incomplete): every complete section in
        # full, then the open section without its last two rows; fewer than two rows → ValueError
        m = len(c["tail"]["rows"])
        if m >= 2:
            full = [{"columns": s["header"].split(), "rows": [[ax.classify(t)[1] for t in r.split()] for r in s["rows"]]}
                    for s in c["secs"]]
            full.append({"columns": c["tail"]["header"].split(),
                         "rows": [[ax.classify(t)[1] for t in r.split()] for r in c["tail"]["rows"][:m - 2]]})
            spec = ("ok", full)
        else:
            spec = None
    real = real_log(text)
    return {"real": real, "impl": impl, "spec": spec, "tokerr": tokerr, "text": text,
            "d_impl": tables_diff(real, impl), "d_spec": tables_diff(real, spec) if spec else None,
            "inst": spec is not None and c["tail"] is None and impl != spec, "ok_margin": True}


# ----------------------------------------------------------------------------- dispatch

GEN = {"hdr": gen_hdr, "center": lambda r: gen_traj(r, "center"), "vector": lambda r: gen_traj(r, "vector"),
       "adds": lambda r: gen_traj(r, "adds"), "gsd": gen_gsd, "log": gen_log}
NAME = {"hdr": "write_dump_header→read_lammps_wrapper~render Gen.Writer.dumpHeader/Lammps.Impl.readAll",
        "center": "read_lammps_centertype_wrapper~Impl.readCenterAll", "vector": "read_lammps_vector_wrapper~Impl.readVectorAll",
        "adds": "read_additions~Impl.readAdditions", "gsd": "read_gsd/read_gsd_dcd~Impl.readGsd/readGsdDcd",
        "log": "read_lammpslog~Impl.readLog"}


def evaluate(c):
    s = c["stream"]
    if s == "hdr":
        r = eval_hdr(c)
        r["d_impl"] = ax.diff(r["real"], r["impl"])
        # the round trip (the property statement) first; the token-level layout of the headers second
        r["d_spec"] = ax.diff(r["real"], r["spec"]) or r["specerr"]
        r["inst"] = r["impl"] != r["spec"]
        return r
    if s in ("center", "vector", "adds"):
        return eval_traj(c)
    if s == "gsd":
        return eval_gsd(c)
    return eval_log(c)


def nontrivial(c):
    s = c["stream"]
    if s == "gsd":
        return len(c["frames"]) >= 2 or c["dcd"] is not None
    if s == "log":
        return len(c["secs"]) >= 2 or c["tail"] is not None
    fr = c["frames"]
    return len(fr) >= 2 or any([a["id"] for a in f["atoms"]] != sorted(a["id"] for a in f["atoms"]) for f in fr)


def describe(run, c):
    s = c["stream"]
    run.hist("stream", s)
    if s == "hdr":
        run.hist("hdr:ndim", c["nd"]); run.hist("hdr:frames", len(c["frames"]))
        for f in c["frames"]:
            run.hist("hdr:addson", repr(f["addson"])); run.hist("hdr:natoms", len(f["atoms"]))
            run.hist("hdr:tie_stream", dyadic({"frames": [f]}))
            run.hist("hdr:max_decimals", max(len(x.split(".")[1]) if "." in x else 0 for r in f["bb"] for x in r))
    elif s in ("center", "vector", "adds"):
        for f in c["frames"]:
            run.hist(s + ":cell:style", ("tric" if f["tric"] else "orth") + ":" + f["style"])
            run.hist(s + ":natoms", len(f["atoms"]))
        run.hist(s + ":ndim", c["nd"]); run.hist(s + ":frames", len(c["frames"]))
        if s == "center":
            run.hist("center:map_size", len(c["mol"]))
        if s == "vector":
            run.hist("vector:ncols", len(c["cols"]))
        if s == "adds":
            run.hist("adds:ncol", c["ncol"])
    elif s == "gsd":
        run.hist("gsd:ndim", c["nd"]); run.hist("gsd:frames", len(c["frames"]))
        run.hist("gsd:dcd", "none" if c["dcd"] is None else f"{len(c['dcd'])} frames")
        run.hist("gsd:dtype", "float32" if c["f32"] else "float64")
    else:
        run.hist("log:sections", len(c["secs"])); run.hist("log:incomplete_tail", c["tail"] is not None)
        for x in c["secs"]:
            run.hist("log:rows", len(x["rows"]))


def run_malformed(run, texts, n):
    """coverage of the models' error paths: damaged files (truncated, a line dropped / duplicated, a wrong count); the
    real routine and Impl are compared, the outcome is reported, never judged (outside the property)"""
    if not texts:
        return
    rng = run.rng
    agree, dis = 0, []
    for _ in range(n):
        c, text = rng.choice(texts)
        lines = text.split("\n")[:-1]
        kind = rng.choice(["truncate", "drop", "dup", "count"])
        if kind == "truncate":
            lines = lines[:rng.randint(0, max(0, len(lines) - 1))]
        elif kind == "drop" and lines:
            del lines[rng.randrange(len(lines))]
        elif kind == "dup" and lines:
            k = rng.randrange(len(lines))
            lines.insert(k, lines[k])
        elif kind == "count" and len(lines) > 3 and c["stream"] != "log":
            try:
                lines[3] = str(int(lines[3]) + rng.choice([-1, 1]))
            except ValueError:
                pass
        bad = "".join(l + "\n" for l in lines)
        toks = ax.wire_lines(ax.tokenise(bad))
        s = c["stream"]
        if s == "center":
            op = f"c19raw center {c['nd']} {len(c['mol'])} " + " ".join(str(x) for kv in c["mol"] for x in kv) + " " + toks
            real = real_traj(c, bad)
        elif s == "vector":
            op = f"c19raw vector {c['nd']} {len(c['cols'])} " + " ".join(str(x) for x in c["cols"]) + " " + toks
            real = real_traj(c, bad)
        elif s == "adds":
            op = f"c19raw adds {c['ncol']} " + toks
            real = real_traj(c, bad)
        else:
            op = "c19raw log " + toks
            real = real_log(bad)
        o = common.drive([" ".join(op.split())])[0]
        if o == "bad-op":
            continue
        sec = sections(o, 2)
        if Fraction(sec[0]) < GUARD:
            continue
        if s == "adds":
            d = mat_diff(real, parse_mat(sec[1]))
        elif s == "log":
            d = tables_diff(real, parse_tables(sec[1]))
        else:
            d = ax.diff(real, ax.parse_result(sec[1]))
        run.hist("malformed", s + ":" + kind + ":" + (real[0] if real[0] != "err" else real[1]))
        if d is None:
            agree += 1
        else:
            dis.append({"stream": s, "kind": kind, "text": bad[:300], "difference": d[1][:200]})
    run.coverage["malformed_stream"] = {"cases": n, "agree": agree, "disagree": len(dis), "first_disagreements": dis[:3],
                                        "note": "coverage of the models' error paths; outside the property, never a violation"}


def correspond(run):
    try:
        return _correspond(run)
    finally:
        cleanup()


def _correspond(run):
    quick = run.tier == "quick"
    per = {"hdr": 150, "center": 150, "vector": 120, "adds": 120, "gsd": 150, "log": 150} if quick else \
          {"hdr": 1200, "center": 1500, "vector": 1200, "adds": 1200, "gsd": 1500, "log": 1500}
    cases = list(common.load_corpus(PROP))
    for s in ("hdr", "center", "vector", "adds", "gsd", "log"):
        cases += [GEN[s](run.rng) for _ in range(per[s])]
    dis, spec_dis, inst, tokfail = {}, {}, {}, {}
    skipped = 0
    outcome = {}
    texts = []
    for c in cases:
        s = c["stream"]
        r = evaluate(c)
        describe(run, c)
        if not r["ok_margin"]:
            skipped += 1
            continue
        if r.get("tokerr"):
            tokfail.setdefault(s, []).append((c, r["tokerr"]))
            continue
        kind = r["real"][0] if r["real"][0] != "err" else "raised:" + r["real"][1]
        outcome[s + ":" + kind] = outcome.get(s + ":" + kind, 0) + 1
        run.count({"c": c}, nontrivial(c), sample={"stream": s, "input": (r.get("text") or str(c))[:400],
                                                    "real": str(r["real"])[:300]})
        if s in ("center", "vector", "adds", "log") and r.get("text") and len(texts) < 400:
            texts.append((c, r["text"]))
        if r["inst"]:
            inst.setdefault(s, []).append((c, "Impl ≠ Spec in the driver on an input inside the claim"))
        if r["d_impl"]:
            dis.setdefault(s, []).append((c, r["d_impl"]))
        if r["d_spec"]:
            spec_dis.setdefault(s, []).append((c, r["d_spec"]))
    run.coverage["skipped_inside_margin"] = skipped
    run_malformed(run, texts, 60 if quick else 600)
    run.coverage["real_outcomes"] = outcome
    run.coverage["traces_validated_against_impl"] = run.coverage["evaluations"]
    broken = []
    for s, v in tokfail.items():
        broken.append({"kind": "correspondence", "name": "text~tokens:" + s, "detail": f"{len(v)} cases: {v[0][1][:200]}",
                       "cases": [c for c, _ in v[:10]]})
    for s, v in inst.items():
        broken.append({"kind": "correspondence", "name": "theorem instance in the driver:" + s,
                       "detail": f"{len(v)} cases: {v[0][1]}", "cases": [c for c, _ in v[:10]]})
    for s, v in dis.items():
        broken.append({"kind": "correspondence", "name": NAME[s], "detail": f"{len(v)} cases disagree; first: {v[0][1][1][:200]}",
                       "cases": [c for c, _ in v[:40]]})
    for s, v in spec_dis.items():
        if s not in dis:
            broken.append({"kind": "monitor", "name": "real vs Spec:" + s, "detail": f"{len(v)} cases; first: {v[0][1][1][:200]}",
                           "cases": [c for c, _ in v[:40]]})
    return broken


# ----------------------------------------------------------------------------- search / replay

def failing(c):
    """does the REAL code contradict the Spec / property statement on this input?  → (key, what, text) or None"""
    r = evaluate(c)
    if r.get("tokerr") and c["stream"] != "hdr":
        return None
    if not r["ok_margin"]:
        return None
    d = r["d_spec"]
    if not d:
        return None
    s = c["stream"]
    tag = s
    if s in ("center", "vector", "adds"):
        tag += ":" + c["frames"][0]["style"]
    if s == "gsd" and c["dcd"] is not None:
        tag = "gsd_dcd"
    if s == "log" and c["tail"] is not None:
        tag = "log:incomplete"
    return f"C19:{tag}:{d[0]}", d[1], r.get("text") or ""


def shrink(c):
    if not failing(c):
        return c
    best = c

    def still(x):
        try:
            return failing(x) is not None
        except common.Infra:
            return False
    s = c["stream"]
    if s in ("hdr", "center", "vector", "adds", "gsd"):
        for i in range(len(best["frames"])):
            cand = dict(best, frames=[best["frames"][i]])
            if s == "gsd" and best["dcd"] is not None:
                cand["dcd"] = [best["dcd"][i]] if i < len(best["dcd"]) else best["dcd"][:1]
                if i > 0:
                    continue
            if len(best["frames"]) > 1 and still(cand):
                best = cand
                break
    if s in ("hdr", "center", "vector", "adds"):
        changed = True
        while changed:
            changed = False
            for fi, f in enumerate(best["frames"]):
                m = len(f["atoms"])
                for keep in (1, 2, m // 2, m - 1):
                    if 0 < keep < m:
                        nf = dict(f, atoms=[a for a in f["atoms"] if a["id"] <= keep])
                        cand = dict(best, frames=best["frames"][:fi] + [nf] + best["frames"][fi + 1:])
                        if still(cand):
                            best, changed = cand, True
                            break
                if changed:
                    break
    if s == "log":
        for k in range(len(best["secs"])):
            cand = dict(best, secs=[best["secs"][k]], pre=[])
            if len(best["secs"]) > 1 and still(cand):
                best = cand
                break
    return best


def search(run, broken):
    try:
        return _search(run, broken)
    finally:
        cleanup()


def _search(run, broken):
    pool = []
    for b in broken:
        pool += b.get("cases", [])
    per = 150 if run.tier == "quick" else 800
    for s in ("hdr", "center", "vector", "adds", "gsd", "log"):
        pool += [GEN[s](run.rng) for _ in range(per)]
    groups = {}
    for c in pool:
        f = failing(c)
        if f:
            groups.setdefault(f[0], []).append(c)
    found = set()
    for key in sorted(groups):
        for c in groups[key][:2]:
            c2 = shrink(c)
            f2 = failing(c2)
            if f2 and f2[0] not in found:
                found.add(f2[0])
                run.violation(f2[0], f2[1], {"case": c2, "text": f2[2], "broken": [b["name"] for b in broken]})
                break
    run.coverage["search_cases"] = len(pool)
    run.coverage["search_failing"] = sum(len(v) for v in groups.values())
    return [] if found else list(broken)


def replay(run, rp):
    try:
        if "case" in rp:
            return failing(rp["case"]) is not None
        return any(failing(c) is not None for c in rp.get("cases", []))
    finally:
        cleanup()
