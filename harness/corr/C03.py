"""C03 — g(r).  Tie = translator (selector tables, normalisers, dispatch, derived attributes regenerated from
gr.py / funcs.py into Pms/Gen/Gr.lean; theorems quantify over them) + correspondence (real `gr(...).getresults()`
against `Pms.Gr.Impl` evaluated by the compiled driver in exact ℚ with the regenerated tables).
Failing-input search = real code against `Pms.Gr.Spec` (driver) and an independent exact-rational reference."""
import logging
import math
import os
import shutil
import tempfile
from fractions import Fraction

import numpy as np

import common
from common import dec

PROP = "C03"
PROPS_FILES = ["Pms/Props/C03.lean"]
GENERATORS = ["gr"]
RULE = ("seeded trajectories: K∈1..6 species (ids 1..K, arbitrary composition, shuffled) × d∈{2,3} × cell {orthogonal, "
        "triclinic (lower-triangular h)} × mask {0,1}^d × frames 1..3 × N≤14 (every fifth case N≤30) × bin width from a "
        "mixed dyadic/decimal set × configuration {random gas, lattice+offset, clusters} on a 3-decimal grid, plus a dyadic "
        "tie stream (distances exactly on bin edges and on L/2); a case is judged when every rint argument and every "
        "distance is ≥1e-6 from its flip point; non-trivial = some bin of the total is non-zero and, for 2≤K≤5, at least "
        "one cross column is non-zero; distinct = distinct literal inputs")
TRUSTED_BASE = [
    "Lean 4.33 kernel; axioms propext, Classical.choice, Quot.sound only; decide +kernel over the regenerated tables",
    "translator/gens/gr.py (AST → Sel / NExpr / Method / Defs data); its glue patterns (pair loop, remove_pbc call, TIJ, "
    "countsum, countsub, histogram arguments, binleft/binright) are matched textually; the extraction is exercised every run "
    "because the driver evaluates Impl WITH the regenerated tables against the real code",
    "contracts (modelled, not proved): np.histogram(bins=n, range=(0,nδ)) = bins [kδ,(k+1)δ) with the last one closed and "
    "returned edges kδ; np.linalg.norm; np.unique(return_counts) = counts of the sorted distinct ids; np.prod / .min(); "
    "int() = floor on non-negatives; np.rint = IsRintHE; np.linalg.inv (only oddness of remove_pbc is used by the theorems); "
    "pandas column arithmetic = element-wise real arithmetic; np.pi = π",
    "driver: squared distances and the index of the bin accepted by the model's own `binOf` are tabulated once per pair "
    "(uniqueness of that bin is C03_bin_unique); π enters as the rational value of the double np.pi",
    "float64 ≈ ℝ: validated by the correspondence under the margin guard (rint arguments and bin edges ≥1e-6 from a flip), not proved",
    "V is np.prod(boxlength) as in the code (= cell volume for LAMMPS-style lower-triangular cells); distances are remove_pbc distances (C02)",
]
MU = Fraction(1, 10 ** 6)
logging.disable(logging.INFO)
DELTAS = ["0.25", "0.5", "0.125", "1", "0.3", "0.4", "0.7", "0.37", "0.2", "0.55"]


# ----------------------------------------------------------------------------- generator

def gen_case(rng, big=False, tie=False):
    d = rng.choice([2, 3])
    K = rng.choice([1, 2, 2, 3, 3, 4, 4, 5, 5, 5, 6])
    nmax = 30 if big else 14
    N = rng.randint(max(2, K), max(K + 1, rng.choice([6, 9, nmax])))
    T = rng.choice([1, 1, 2, 3])
    kind = rng.choice(["orth", "tri"])
    if tie:
        kind = "orth"
        L = [rng.choice(["4", "8"]) for _ in range(d)]
        delta = rng.choice(["0.25", "0.5", "1"])
    else:
        L = [dec(rng, 3, 8, 2) for _ in range(d)]
        delta = rng.choice(DELTAS)
    H = [["0"] * d for _ in range(d)]
    for i in range(d):
        H[i][i] = L[i]
    if kind == "tri":
        for i in range(d):
            for j in range(i):
                H[i][j] = dec(rng, -2, 2, 2)
        common.sparse_tilt(rng, H)
    ppp = [rng.choice(["0", "1"]) for _ in range(d)]
    if rng.random() < 0.5:
        ppp = ["1"] * d
    # composition: every species present, otherwise arbitrary
    types = list(range(1, K + 1)) + [rng.randint(1, K) if rng.random() < 0.7 else rng.choice([1, K]) for _ in range(N - K)]
    rng.shuffle(types)
    config = "line" if tie else rng.choice(["gas", "gas", "lattice", "cluster", "grid"])
    frames = []
    shear = kind == "tri" and T >= 2 and rng.random() < 0.6    # same box lengths, another tilt in every frame (a sheared cell)
    H0 = H
    relabel = T >= 2 and K >= 2 and rng.random() < 0.45    # same composition, labels on other particles in later frames (atom swaps)
    for _ in range(T):
        if relabel and frames:
            types = types[:]
            rng.shuffle(types)
        if shear:
            H = [row[:] for row in H0]
            for i in range(d):
                for j in range(i):
                    H[i][j] = dec(rng, -2, 2, 2)
            common.sparse_tilt(rng, H)
        Lf = [float(x) for x in L]
        if config == "line":
            y = [str(Fraction(rng.randint(0, 16), 4)) for _ in range(d)]
            step = Fraction(delta) / 2
            pos = [[str(float(step * rng.randint(0, int(Fraction(L[0]) / step) * 2)))] + [str(float(Fraction(v))) for v in y[1:]] for _ in range(N)]
        elif config == "grid" and math.prod(max(1, int(Lf[k])) + 1 for k in range(d)) >= 2 * N:
            # distinct integer grid sites, handed over as an INTEGER array (lattice-gas / pixel coordinates): the separations are then
            # integer arrays too, and whatever is written back into them is truncated
            sites = set()
            while len(sites) < N:
                sites.add(tuple(rng.randint(0, max(1, int(Lf[k]))) for k in range(d)))
            pos = [[str(v) for v in s_] for s_ in sorted(sites, key=lambda _: rng.random())]
        elif config == "gas":
            pos = [[dec(rng, -0.5 * Lf[k], 1.5 * Lf[k]) for k in range(d)] for _ in range(N)]
        elif config == "lattice":
            m = max(2, int(math.ceil(N ** (1.0 / d))))
            off = [float(dec(rng, 0.011, 0.049)) for _ in range(d)]
            pos = []
            for a in range(N):
                idx = [(a // (m ** k)) % m for k in range(d)]
                pos.append(["%.3f" % (idx[k] * Lf[k] / m + off[k] * (1 + 0.37 * a)) for k in range(d)])
        else:
            centres = [[rng.uniform(0, Lf[k]) for k in range(d)] for _ in range(rng.randint(1, 3))]
            pos = []
            for a in range(N):
                c = rng.choice(centres)
                pos.append(["%.3f" % (c[k] + rng.uniform(-0.9, 0.9)) for k in range(d)])
        if config != "line" and rng.random() < 0.25:
            pos = common.unfold_positions(rng, pos, H, ppp)       # unfolded (xu) coordinates
        frames.append({"H": H, "types": types, "pos": pos})
    return {"again": rng.choice([0, 0, 0, 1]), "d": d, "K": K, "N": N, "T": T, "kind": kind, "ppp": ppp, "box": L, "rdelta": delta, "frames": frames,
            "config": config, "tie": tie, "csv": rng.random() < 0.25, "shear": shear, "relabel": relabel}


def op_line(c):
    toks = ["gr", str(c["d"]), str(c["T"]), str(c["N"])] + list(c["ppp"]) + list(c["box"]) + [c["rdelta"]]
    for f in c["frames"]:
        toks += [x for row in f["H"] for x in row] + [str(t) for t in f["types"]] + [x for row in f["pos"] for x in row]
    return " ".join(toks)


# ----------------------------------------------------------------------------- real code

def real_call(c, outdir=None):
    """returns (columns, {col: [floats]}, csv_text or None)"""
    from PyMatterSim.reader.reader_utils import SingleSnapshot, Snapshots
    from PyMatterSim.static.gr import gr
    d = c["d"]
    snaps = []
    for t, f in enumerate(c["frames"]):
        L = np.array([float(x) for x in c["box"]])
        H = np.array([[float(x) for x in row] for row in f["H"]])
        pos = np.array([[float(x) for x in row] for row in f["pos"]])
        if all(x.lstrip("-").isdigit() for row in f["pos"] for x in row):
            pos = pos.astype(np.int64)              # integer coordinates stay an integer array
        bounds = np.column_stack((np.zeros(d), L))
        snaps.append(SingleSnapshot(timestep=t, nparticle=c["N"], particle_type=np.array(f["types"], dtype=int), positions=pos,
                                    boxlength=L, boxbounds=bounds, realbounds=None, hmatrix=H))
    sn = Snapshots(nsnapshots=c["T"], snapshots=snaps)
    out = os.path.join(outdir, "gr.csv") if outdir else None
    obj = gr(sn, ppp=np.array([int(x) for x in c["ppp"]]), rdelta=float(c["rdelta"]), outputfile=out)
    for _ in range(c.get("again", 0)):           # object history: earlier compute calls on the SAME object
        obj.getresults()
    df = obj.getresults()
    if df is None:
        raise ValueError("getresults returned None")
    cols = [str(x) for x in df.columns]
    vals = {col: [float(v) for v in df[col].values] for col in cols}
    txt = None
    if out:
        with open(out) as fh:
            txt = fh.read()
    return cols, vals, txt


real_call = common.with_history(real_call)


# ----------------------------------------------------------------------------- model output

def parse_cols(txt):
    cols = []
    for part in txt.split(";"):
        toks = part.split()
        if not toks:
            continue
        cols.append((toks[0], [Fraction(t) for t in toks[1:]]))
    return cols


def parse_out(o):
    impl_txt, spec_txt = o.split("|")
    head, _, rest = impl_txt.partition(";")
    h = head.split()
    shead, _, srest = spec_txt.partition(";")
    return {"margin": Fraction(h[0]), "mb_margin": Fraction(h[1]), "maxbin": int(h[2]), "K": int(h[3]), "method": h[4],
            "impl": parse_cols(rest), "spec_maxbin": int(shead.split()[0]), "spec": parse_cols(srest)}


# ----------------------------------------------------------------------------- independent exact reference (fallback + cross-check)

def _rint_he(x):
    f = math.floor(x)
    r = x - f
    if r < Fraction(1, 2):
        return f
    if r > Fraction(1, 2):
        return f + 1
    return f if f % 2 == 0 else f + 1


def _inv(H):
    n = len(H)
    A = [list(row) + [Fraction(int(i == j)) for j in range(n)] for i, row in enumerate(H)]
    for i in range(n):
        p = next(r for r in range(i, n) if A[r][i] != 0)
        A[i], A[p] = A[p], A[i]
        piv = A[i][i]
        A[i] = [x / piv for x in A[i]]
        for r in range(n):
            if r != i and A[r][i] != 0:
                fac = A[r][i]
                A[r] = [x - fac * y for x, y in zip(A[r], A[i])]
    return [row[n:] for row in A]


def py_spec(c):
    """the property statement evaluated directly in exact rational arithmetic (π := float64 np.pi)"""
    d, N, T = c["d"], c["N"], c["T"]
    delta = Fraction(c["rdelta"])
    L = [Fraction(x) for x in c["box"]]
    V = Fraction(1)
    for x in L:
        V *= x
    maxbin = math.floor(min(L) / (2 * delta))
    ppp = [int(x) for x in c["ppp"]]
    PI = Fraction(math.pi)
    types0 = c["frames"][0]["types"]
    kinds = sorted(set(types0))
    K = len(kinds)
    cnt = {}
    tot = [Fraction(0)] * maxbin
    edges2 = [(k * delta) ** 2 for k in range(maxbin + 1)]
    for f in c["frames"]:
        H = [[Fraction(x) for x in row] for row in f["H"]]
        Hi = _inv(H)
        P = [[Fraction(x) for x in row] for row in f["pos"]]
        ty = f["types"]
        for i in range(N):
            for j in range(N):
                if i == j:
                    continue
                v = [P[j][k] - P[i][k] for k in range(d)]
                fr_ = [sum(v[a] * Hi[a][k] for a in range(d)) for k in range(d)]
                g = [fr_[k] - _rint_he(fr_[k]) * ppp[k] for k in range(d)]
                w = [sum(g[a] * H[a][k] for a in range(d)) for k in range(d)]
                d2 = sum(x * x for x in w)
                for k in range(maxbin):
                    if edges2[k] <= d2 and (d2 < edges2[k + 1] or (k + 1 == maxbin and d2 <= edges2[k + 1])):
                        tot[k] += 1
                        cnt.setdefault((ty[i], ty[j]), [Fraction(0)] * maxbin)[k] += 1
                        break

    def shell(k):
        if d == 3:
            return Fraction(4, 3) * PI * ((k + 1) ** 3 - k ** 3) * delta ** 3
        return PI * ((k + 1) ** 2 - k ** 2) * delta ** 2
    out = [("r", [(k + Fraction(1, 2)) * delta for k in range(maxbin)]),
           ("gr", [V / (N * N) * (tot[k] / T) / shell(k) for k in range(maxbin)])]
    if 2 <= K <= 5:
        Na = {a: sum(1 for t in types0 if t == a) for a in range(1, K + 1)}
        pairs = [(a, a) for a in range(1, K + 1)] + [(a, b) for a in range(1, K + 1) for b in range(a + 1, K + 1)]
        for a, b in pairs:
            cc = cnt.get((a, b), [Fraction(0)] * maxbin)
            if Na[a] == 0 or Na[b] == 0:
                continue
            out.append((f"gr{a}{b}", [V / (Na[a] * Na[b]) * (cc[k] / T) / shell(k) for k in range(maxbin)]))
    return maxbin, out


# ----------------------------------------------------------------------------- comparison

def compare(cols_real, vals_real, expected, what):
    """expected: [(name, [Fraction])].  returns (key-fragment, text) or None"""
    names = [n for n, _ in expected]
    if cols_real != names:
        return "columns", f"{what}: returned columns {cols_real} but expected {names}"
    for n, ev in expected:
        rv = vals_real[n]
        if len(rv) != len(ev):
            return "bins", f"{what}: column {n} has {len(rv)} rows, expected {len(ev)} bins"
        for k, (a, b) in enumerate(zip(rv, ev)):
            if not common.close(a, float(b), 1e-9):
                return n, f"{what}: {n}[bin {k}] returned {a!r} but expected {float(b)!r}"
    return None


def sum_rule(c, cols, vals):
    """monitor of the consequence stated in the property: N² g = Σ_ab N_a N_b g_ab in every bin (K = 2..5)"""
    types0 = c["frames"][0]["types"]
    K = len(set(types0))
    if not 2 <= K <= 5 or "gr" not in vals:
        return None
    N = c["N"]
    Na = {a: sum(1 for t in types0 if t == a) for a in range(1, K + 1)}
    for k in range(len(vals["gr"])):
        s = 0.0
        for a in range(1, K + 1):
            for b in range(a, K + 1):
                col = f"gr{a}{b}"
                if col not in vals:
                    return "columns", f"sum rule: column {col} missing"
                s += (1 if a == b else 2) * Na[a] * Na[b] * vals[col][k]
        if not common.close(N * N * vals["gr"][k], s, 1e-9):
            return "sumrule", f"sum rule: bin {k}: N²·gr = {N * N * vals['gr'][k]!r} but Σ N_a N_b g_ab = {s!r}"
    return None


def csv_check(cols, vals, txt):
    lines = txt.strip().split("\n")
    if lines[0].split(",") != cols:
        return f"csv header {lines[0]!r} differs from the returned columns {cols}"
    if len(lines) - 1 != len(vals[cols[0]]):
        return f"csv has {len(lines) - 1} rows, frame has {len(vals[cols[0]])}"
    for k, line in enumerate(lines[1:]):
        toks = line.split(",")
        for col, tok in zip(cols, toks):
            if tok != "%.6f" % vals[col][k] and abs(float(tok) - vals[col][k]) > 1.0001e-6:
                return f"csv {col}[{k}] = {tok} but the returned frame holds {vals[col][k]!r}"
    return None


def float_maxbin(c):
    return int(min(float(x) for x in c["box"]) / 2.0 / float(c["rdelta"]))


def judge(c, parsed):
    """('skip', why) | ('ok', impl_disagreement|None, spec_failure|None, nontrivial)"""
    if not c.get("tie") and parsed["margin"] < MU:
        return ("skip", "margin")
    try:
        outdir = tempfile.mkdtemp(prefix="c03-") if c.get("csv") else None
        try:
            cols, vals, txt = real_call(c, outdir)
        finally:
            if outdir:
                shutil.rmtree(outdir, ignore_errors=True)
    except Exception as e:
        if parsed["spec_maxbin"] == 0:
            return ("skip", "maxbin0")
        why = ("raise", f"real code raised {type(e).__name__}: {e}")
        return ("ok", why, why, False)
    real_bins = len(vals[cols[0]]) if cols else 0
    if parsed["mb_margin"] < MU and real_bins != parsed["spec_maxbin"] and real_bins == float_maxbin(c):
        return ("skip", "maxbin-margin")     # float rounding of L/2/δ next to an integer: not judged
    K = parsed["K"]
    impl = parsed["impl"]
    spec = parsed["spec"]
    di = compare(cols, vals, impl, "Impl") if impl else ("dispatch", f"model dispatch has no method for K={K}")
    if parsed["maxbin"] != parsed["spec_maxbin"]:
        ds = ("bins", f"number of bins: regenerated int(…) gives {parsed['maxbin']}, the statement int(L_min/(2·width)) = {parsed['spec_maxbin']}")
    else:
        ds = compare(cols, vals, spec, "Spec") or sum_rule(c, cols, vals)
    if ds is None and txt is not None:
        w = csv_check(cols, vals, txt)
        if w:
            ds = ("csv", w)
    nontrivial = any(v != 0 for v in vals.get("gr", [])) and (not 2 <= K <= 5 or any(
        any(v != 0 for v in vals[col]) for col in cols if len(col) == 4 and col[2] != col[3]))
    return ("ok", di, ds, nontrivial)


def classify(c):
    return f"K{c['K']}:d{c['d']}:{c['kind']}:ppp{''.join(c['ppp'])}:T{c['T']}:{c['config']}"


def run_cases(run, cases, record=True):
    outs = common.drive([op_line(c) for c in cases])
    dis, fail = [], []
    for c, o in zip(cases, outs):
        if o == "bad-op":
            raise common.Infra("driver rejected op: " + op_line(c)[:200])
        parsed = parse_out(o)
        res = judge(c, parsed)
        if record:
            for nm, v in (("species", c["K"]), ("dim", c["d"]), ("cell", c["kind"]), ("mask", "".join(c["ppp"])), ("frames", c["T"]),
                          ("config", c["config"]), ("rdelta", c["rdelta"]), ("method", parsed["method"]),
                          ("sheared_frames", bool(c.get("shear"))), ("labels_move_between_frames", bool(c.get("relabel")))):
                run.hist(nm, v)
        if res[0] == "skip":
            if record:
                k = "skipped_" + res[1]
                run.coverage[k] = run.coverage.get(k, 0) + 1
            continue
        _, di, ds, nontrivial = res
        if record:
            run.count(op_line(c), nontrivial, sample={"case": classify(c), "op": op_line(c)[:300], "maxbin": parsed["maxbin"],
                                                      "model_gr": [float(x) for x in (parsed["impl"][1][1] if len(parsed["impl"]) > 1 else [])][:8]})
        if di:
            dis.append((c, di))
        if ds:
            fail.append((c, ds))
    return dis, fail


def cross_check_spec(run, cases):
    """the Lean Spec (driver) against the independent exact reference, on a few cases"""
    outs = common.drive([op_line(c) for c in cases])
    bad = []
    for c, o in zip(cases, outs):
        p = parse_out(o)
        mb, ref = py_spec(c)
        got = p["spec"]
        if mb != p["spec_maxbin"] or [n for n, _ in ref] != [n for n, _ in got] or any(a != b for (_, x), (_, y) in zip(ref, got) for a, b in zip(x, y)):
            bad.append(c)
    run.coverage["spec_cross_checked"] = len(cases)
    return bad


def sibling(rng, c):
    """same frames, labels, cell, mask, bin width — other positions (gas)"""
    if c.get("tie"):
        return None
    s = dict(c, config="gas")
    Lf = [float(x) for x in c["box"]]
    s["frames"] = [dict(f, pos=[[dec(rng, -0.5 * Lf[k], 1.5 * Lf[k]) for k in range(c["d"])] for _ in range(c["N"])]) for f in c["frames"]]
    return s


def correspond(run):
    n = 160 if run.tier == "quick" else 1500
    ntie = 20 if run.tier == "quick" else 150
    cases = common.load_corpus(PROP)
    cases += common.add_siblings(run.rng, [gen_case(run.rng, big=(i % 5 == 0)) for i in range(n)], sibling, every=5)
    cases += [gen_case(run.rng, tie=True) for _ in range(ntie)]
    broken = []
    dis, fail = [], []
    for s in range(0, len(cases), 100):
        d1, f1 = run_cases(run, cases[s:s + 100])
        dis += d1
        fail += f1
    run.coverage["traces_validated_against_impl"] = run.coverage["evaluations"]
    run.coverage["programs"] = 5
    bad = cross_check_spec(run, [c for c in cases if c["N"] <= 9][:6 if run.tier == "quick" else 40])
    if bad:
        raise common.Infra("Lean Spec and the independent reference disagree on " + op_line(bad[0])[:300])
    if dis:
        broken.append({"kind": "correspondence", "name": "Pms.Gr.Impl~gr.getresults",
                       "detail": f"{len(dis)} of {len(cases)} cases disagree; first: {dis[0][1][1][:240]}",
                       "cases": [c for c, _ in dis[:20]]})
    if fail:
        broken.append({"kind": "oracle", "name": "gr.getresults vs Pms.Gr.Spec",
                       "detail": f"{len(fail)} failures; first: {fail[0][1][1][:240]}",
                       "cases": [c for c, _ in fail[:20]], "failing": [(c, w) for c, w in fail[:40]]})
    # scale stream: N ≈ 1 000 – 2 000 with coarse bins (per-particle, per-bin counts far above 127; ~10⁶ pairs per frame)
    sfail = []
    for c in [gen_scale_case(run.rng) for _ in range(2 if run.tier == "quick" else 10)]:
        w = scale_check(c)
        run.hist("stream", f"scale:K{c['K']}:T{c['T']}")
        if w and w[0] == "skip":
            continue
        run.count(c, True)
        if w:
            sfail.append({"key": w[0], "what": w[1], "case": c})
    if sfail:
        broken.append({"kind": "oracle", "name": "gr.getresults vs the statement at scale", "detail": sfail[0]["what"][:300],
                       "sample_failures": sfail})
    if run.tier != "quick":
        broken += sample_dumps(run)
    return broken


# ----------------------------------------------------------------------------- the property on one case (never uses Impl)

def failing(c):
    """does the REAL code contradict the property statement on this input?  returns (key-fragment, text) or None"""
    try:
        o = common.drive([op_line(c)])[0]
        if o == "bad-op":
            raise common.Infra("bad-op")
        p = parse_out(o)
        margin_ok = c.get("tie") or p["margin"] >= MU
        spec_mb, spec = p["spec_maxbin"], p["spec"]
        mbm = p["mb_margin"]
    except common.Infra:
        spec_mb, spec = py_spec(c)
        margin_ok, mbm = True, Fraction(1)
    if not margin_ok or spec_mb == 0:
        return None
    try:
        outdir = tempfile.mkdtemp(prefix="c03-")
        try:
            cols, vals, txt = real_call(c, outdir)
        finally:
            shutil.rmtree(outdir, ignore_errors=True)
    except Exception as e:
        return ("raise", f"real code raised {type(e).__name__}: {e}")
    real_bins = len(vals[cols[0]]) if cols else 0
    if mbm < MU and real_bins != spec_mb and real_bins == float_maxbin(c):
        return None
    return compare(cols, vals, spec, "Spec") or sum_rule(c, cols, vals) or (lambda w: ("csv", w) if w else None)(csv_check(cols, vals, txt))


def method_of(c):
    K = len(set(c["frames"][0]["types"]))
    return {1: "unary", 2: "binary", 3: "ternary", 4: "quarternary", 5: "quinary"}.get(K, "unary>5")


def shrink(c):
    """fewer frames → fewer particles (every species stays present) while the property still fails"""
    best = c
    if best["T"] > 1:
        for t in range(best["T"]):
            cand = dict(best, T=1, frames=[best["frames"][t]])
            if failing(cand):
                best = cand
                break
    changed = True
    while changed and best["N"] > 2:
        changed = False
        for a in range(best["N"] - 1, -1, -1):
            types = best["frames"][0]["types"]
            rest = types[:a] + types[a + 1:]
            if set(rest) != set(types) or len(rest) < 2:
                continue
            frames = [{"H": f["H"], "types": f["types"][:a] + f["types"][a + 1:], "pos": f["pos"][:a] + f["pos"][a + 1:]} for f in best["frames"]]
            cand = dict(best, N=best["N"] - 1, frames=frames)
            if failing(cand):
                best = cand
                changed = True
                break
    return best


def directed_cases(rng):
    """small configurations exercising every species pair of every method inside the histogram range"""
    out = []
    for K in (1, 2, 3, 4, 5, 6):
        for d in (2, 3):
            for _ in range(6):
                c = gen_case(rng)
                tries = 0
                while (c["K"] != K or c["d"] != d) and tries < 400:
                    c = gen_case(rng)
                    tries += 1
                if c["K"] == K and c["d"] == d:
                    out.append(c)
    return out


def search(run, broken):
    unexplained = []
    found_keys = set()
    tried = 0
    pool = []
    for b in broken:
        for c, _ in b.get("failing", []):
            pool.append(c)
        pool += list(b.get("cases", []))
    need_more = any(b["kind"] not in ("oracle",) for b in broken) or not pool
    if need_more:
        pool += directed_cases(run.rng) + [gen_case(run.rng) for _ in range(150 if run.tier == "quick" else 1500)]
    for c in pool:
        if "sample" in c or "scale" in c:
            continue
        tried += 1
        why = failing(c)
        if why:
            key = f"C03:{method_of(c)}:{why[0]}"
            if key in found_keys:
                continue
            c2 = shrink(c)
            why2 = failing(c2) or why
            key = f"C03:{method_of(c2)}:{why2[0]}"
            found_keys.add(key)
            run.violation(key, why2[1], {"case": c2, "broken": [b["name"] for b in broken][:5]})
            if len(found_keys) >= 6:
                break
    for b in broken:
        for s in b.get("sample_failures", []):
            run.violation(s["key"], s["what"], {"case": s["case"]})
            found_keys.add(s["key"])
    run.coverage["search_cases"] = tried
    if not found_keys:
        unexplained = list(broken)
    return unexplained


# ----------------------------------------------------------------------------- scale stream (labelled test, see harness/gen/scale.py)

def gen_scale_case(rng):
    from gen import scale
    p = scale.gen_scale_params(rng, K=rng.choice([1, 2, 2, 3]))
    p["T"] = rng.choice([1, 2])
    return p


def scale_check(c):
    """the real gr class on T frames of N ≈ 1 000 – 2 000 particles against the numpy brute force of the statement;
    returns (key, text), ("skip", why) or None"""
    from gen import scale
    from PyMatterSim.reader.reader_utils import SingleSnapshot, Snapshots
    from PyMatterSim.static.gr import gr
    N, d, K, T, delta = c["N"], c["d"], c["K"], c["T"], float(c["rdelta"])
    frames = [scale.scale_arrays(dict(c, sseed=c["sseed"] + 7 * t)) for t in range(T)]
    types, L = frames[0][1], frames[0][2]
    maxbin = int(L.min() / 2.0 / delta)
    V = float(np.prod(L))
    cnt = {a: int((types == a).sum()) for a in range(1, K + 1)}
    exp = {"r": [(k + 0.5) * delta for k in range(maxbin)]}
    acc = {}
    labels = [(a, b) for a in range(1, K + 1) for b in range(a, K + 1)] if 1 < K <= 5 else []
    for pos, _, _ in frames:
        tot, ws, margin = scale.pair_hists(pos, L, delta, maxbin, [((types == a).astype(float), (types == b).astype(float)) for a, b in labels])
        if margin < 1e-9:
            return ("skip", "margin")
        acc["gr"] = acc.get("gr", 0) + tot
        for (a, b), w in zip(labels, ws):
            acc[f"gr{a}{b}"] = acc.get(f"gr{a}{b}", 0) + w
    for col, h in acc.items():
        if col == "gr":
            na = nb = N
        else:
            na, nb = cnt[int(col[2])], cnt[int(col[3])]
        exp[col] = [V / (na * nb) * h[k] / T / scale.shell(d, k, delta) for k in range(maxbin)]
    snaps = [SingleSnapshot(timestep=t, nparticle=N, particle_type=types.copy(), positions=pos.copy(), boxlength=L.copy(),
                            boxbounds=np.column_stack((np.zeros(d), L)), realbounds=None, hmatrix=np.diag(L))
             for t, (pos, _, _) in enumerate(frames)]
    try:
        df = gr(Snapshots(nsnapshots=T, snapshots=snaps), ppp=np.array([1] * d), rdelta=delta).getresults()
    except Exception as e:
        return (f"C03:scale:K{K}:raise", f"scale stream: real code raised {type(e).__name__}: {e} (N = {N})")
    for col, ev in exp.items():
        if col not in df.columns:
            return (f"C03:scale:K{K}:columns", f"scale stream: column {col} missing from {list(df.columns)}")
        rv = [float(x) for x in df[col].values]
        if len(rv) != len(ev):
            return (f"C03:scale:K{K}:bins", f"scale stream: column {col} has {len(rv)} rows, expected {len(ev)} bins")
        for k, (a, b) in enumerate(zip(rv, ev)):
            if not common.close(a, b, 1e-9):
                return (f"C03:scale:K{K}:{col}", f"scale stream (N = {N}, K = {K}, T = {T}, rdelta {c['rdelta']}): {col}[bin {k}] returned {a!r} "
                                                 f"but the normalised ordered-pair histogram of the statement gives {float(b)!r}")
    return None


def replay(run, rp):
    c = rp.get("case")
    if c is not None:
        if "scale" in c:
            w = scale_check(c)
            return bool(w) and w[0] != "skip"
        if "sample" in c:
            w = sample_check(c)
            return bool(w) and w[0] != "skip"
        return bool(failing(c))
    return any(failing(c) for c in rp.get("cases", []))


# ----------------------------------------------------------------------------- sample dumps (thorough)

SAMPLES = [("unary.dump", 3), ("dump_2D.atom", 2), ("ternary.dump", 3), ("quarternary.dump", 3)]


def sample_check(c):
    """first frame of a repo sample dump, coarse δ: real code vs a vectorised float evaluation of the statement
    (same remove_pbc distances; a pair closer than 1e-11 to a bin edge makes the file skip)"""
    from PyMatterSim.reader.dump_reader import DumpReader
    from PyMatterSim.reader.reader_utils import Snapshots
    from PyMatterSim.static.gr import gr
    from PyMatterSim.utils.pbc import remove_pbc
    path = os.path.join(common.REPO, "tests", "sample_test_data", c["sample"])
    if not os.path.exists(path):
        return ("skip", "file not present")
    rd = DumpReader(path, ndim=c["ndim"])
    rd.read_onefile()
    s0 = rd.snapshots.snapshots[0]
    sn = Snapshots(nsnapshots=1, snapshots=[s0])
    delta = c["rdelta"]
    ppp = np.ones(c["ndim"], dtype=int)
    df = gr(sn, ppp=ppp, rdelta=delta).getresults()
    N, d = s0.nparticle, c["ndim"]
    maxbin = int(s0.boxlength.min() / 2.0 / delta)
    types = np.asarray(s0.particle_type)
    kinds = sorted(set(types.tolist()))
    K = len(kinds)
    V = float(np.prod(s0.boxlength))
    edges = np.arange(maxbin + 1) * delta
    fac = 4.0 / 3 if d == 3 else 1.0
    shell = fac * np.pi * (edges[1:] ** d - edges[:-1] ** d)
    tot = np.zeros(maxbin)
    part = {}
    for i in range(N):
        rij = remove_pbc(s0.positions - s0.positions[i], s0.hmatrix, ppp)
        dist = np.linalg.norm(rij, axis=1)
        dist[i] = -1.0
        ok = (dist >= 0) & (dist <= edges[-1])
        if np.any(np.abs(dist[ok][:, None] - edges[None, 1:]) < 1e-11):
            return ("skip", "a pair distance is within 1e-11 of a bin edge")
        k = np.minimum((dist[ok] / delta).astype(int), maxbin - 1)
        np.add.at(tot, k, 1)
        if 2 <= K <= 5:
            for b in kinds:
                sel = ok & (types == b)
                kk = np.minimum((dist[sel] / delta).astype(int), maxbin - 1)
                np.add.at(part.setdefault((int(types[i]), int(b)), np.zeros(maxbin)), kk, 1)
    want = {"r": (np.arange(maxbin) + 0.5) * delta, "gr": V / (N * N) * tot / shell}
    names = ["r", "gr"]
    if 2 <= K <= 5:
        if kinds != list(range(1, K + 1)):
            return ("skip", "type ids are not 1..K")
        Na = {a: int(np.sum(types == a)) for a in kinds}
        for a, b in [(a, a) for a in kinds] + [(a, b) for a in kinds for b in kinds if a < b]:
            names.append(f"gr{a}{b}")
            want[f"gr{a}{b}"] = V / (Na[a] * Na[b]) * part.get((a, b), np.zeros(maxbin)) / shell
    if [str(x) for x in df.columns] != names:
        return ("columns", f"{c['sample']}: returned columns {list(df.columns)} but expected {names}")
    for n in names:
        got = np.asarray(df[n].values, dtype=float)
        if got.shape != want[n].shape or not np.allclose(got, want[n], rtol=1e-9, atol=1e-12):
            k = int(np.argmax(np.abs(got - want[n]))) if got.shape == want[n].shape else -1
            return (n, f"{c['sample']} (first frame, δ={delta}): {n}[bin {k}] differs from the definition")
    return None


def sample_dumps(run):
    out = []
    for fn, nd in SAMPLES:
        c = {"sample": fn, "ndim": nd, "rdelta": 0.35172931}
        try:
            w = sample_check(c)
        except Exception as e:
            w = ("raise", f"{fn}: {type(e).__name__}: {e}")
        run.hist("sample_dump", fn)
        if w and w[0] == "skip":
            run.coverage.setdefault("sample_dumps_skipped", []).append(f"{fn}: {w[1]}")
            continue
        run.count(("sample", fn), True)
        if w:
            out.append({"kind": "oracle", "name": f"sample dump {fn}", "detail": w[1], "cases": [],
                        "sample_failures": [{"key": f"C03:sample:{fn}:{w[0]}", "what": w[1], "case": c}]})
    return out
