"""C11 — Hessian = mass-weighted second derivative of the documented pair energy.

Tie   = translator (`hess`: Pms/GenR/Hess.lean, Pms/Gen/HessF.lean, Pms/Gen/HessTab.lean; `pair`: C12's terms)
        + correspondence: real `diagonalize_hessian(savehessian=True)` files vs `Pms.Hess.hessian` (driver op `hess`:
        exact-ℚ geometry and decisions, regenerated Float terms for the values), `participation_ratio` vs `Pms.Hess.pr`,
        the omega column vs the regenerated `frequencies`.
Oracle (always run, and the only judge in `search`) = an independently coded energy (exact-rational minimum image,
        documented potentials in 40-digit arithmetic): analytic second derivatives of every pair term + central
        finite differences of the total energy, mass-weighted by M^(-1/2) · M^(-1/2); plus the property's monitors on
        the real output files (symmetry, translation null vectors, eigen-residual, ω = √λ, 0 < PR ≤ 1).
"""
import os
import shutil
import tempfile
from fractions import Fraction

import numpy as np

import common
from common import bits2float, dec, float2bits

PROP = "C11"
PROPS_FILES = ["Pms/Props/C11.lean"]
GENERATORS = ["pair", "hess"]
RULE = ("seeded systems: d∈{2,3} × N∈2..10 × cell {orthogonal, triclinic} × mask {0,1}^d (half fully periodic) × 1–3 species × "
        "{equal, unequal} masses × {Lennard-Jones, inverse power law (n∈{4.5,6,10,12}), harmonic/Hertz (α∈{2,2.5,3})} × random "
        "symmetric ε/σ/r_c matrices (ε as a float array or, 15 %, an integer-typed array) × shift on/off; decimal-grid inputs; judged only when every rint / cutoff / r>0 decision is "
        "≥1e-6 from its flip point (margin computed by the model in exact ℚ). non-trivial = at least one interacting pair and at "
        "least one non-interacting ordered pair or ≥3 interacting pairs; distinct = distinct literal inputs")
TRUSTED_BASE = [
    "Lean 4.33 kernel; axioms propext, Classical.choice, Quot.sound only; Mathlib HasDerivAt / Real.sqrt / Finset.sum as the meaning of derivative, root, sum",
    "proved for all inputs: the regenerated block entries are the iterated partial derivatives of x ↦ s(|x|) − k|x| (any dimension, any s with s'=s1, s1'=s2); "
    "the loop nest with the regenerated `+=`/`=` right-hand sides, slice bounds and prefactor equals M^(-1/2)·(∂²U)·M^(-1/2) blockwise; symmetry; "
    "translation null vectors; 0 < PR ≤ 1; ω² = λ for λ > 0",
    "translator/gens/hess.py + pms2lean.ExprPrinter (names, numerals, + - * / **, unary minus, subscripts, comparisons) — trusted, validated numerically every run "
    "(regenerated Float terms evaluated by the driver vs the real routine)",
    "hand-written control structure of Pms/Model/Hess.lean (loop nest, slice semantics, data flow) tied to the source by the correspondence and by the pinned "
    "regenerated table Pms.Gen.HessTab (C11_source_shape)",
    "modelled by contract, not proved: float64 ≈ ℝ (compared at 1e-9 of the matrix scale under the margin guard), np.linalg.norm = Euclidean norm, "
    "np.sqrt, np.linalg.eigh (its output is monitored: residual, orthonormality; not verified), remove_pbc = C02's model, np.save/pandas to_csv round trip, "
    "that the energy is locally the sum over the pairs currently inside the cutoff (no pair exactly at r_c or at a minimum-image tie)",
    "s1/s1rc/s2 are the derivatives of the documented potentials: C12's theorems (instantiated in C11_lj_block / C11_ipl_block / C11_hh_block)",
]

TOL = 1e-9


# ----------------------------------------------------------------------------- generator

SIZES = [101, 117, 130, 150, 199, 230]      # beyond one block of 100 particles (the routine reports progress per 100)


def size_guard(c):
    """size stream: no pair within 1e-6 of its cutoff, no fractional separation within 1e-9 of a rounding tie (float64 evaluation)"""
    H = np.array([[float(x) for x in row] for row in c["H"]])
    X = np.array([[float(x) for x in row] for row in c["pos"]])
    ppp = np.array([int(p) for p in c["ppp"]])
    S = (X[:, None, :] - X[None, :, :]) @ np.linalg.inv(H)
    if np.any(np.abs(np.abs(S - np.rint(S)) - 0.5) < 1e-9):
        return False
    R = np.linalg.norm((S - np.rint(S) * ppp) @ H, axis=2)
    t = np.array(c["types"]) - 1
    RC = np.array([[float(x) for x in row] for row in c["rc"]])[t[:, None], t[None, :]]
    off = ~np.eye(len(X), dtype=bool)
    return bool(np.all(np.abs(R - RC)[off] > 1e-6) and R[off].min() > 0.3)


def gen_size_case(rng, n=None):
    for _ in range(50):
        c = gen_case(rng, n=n or rng.choice(SIZES))
        c["size"] = True
        if size_guard(c):
            return c
    raise common.Infra("no guarded size case")


def gen_case(rng, big=False, n=None):
    d = rng.choice([2, 3])
    if n is None:
        n = rng.randint(2, 10 if big else 7)
        if d == 3 and n > 8:
            n = 8
    model = rng.choice(["lj", "ipl", "hh"])
    nt = rng.choice([1, 2, 2, 3])
    kind = "orth" if rng.random() < 0.7 else "tri"
    spacing = 1.1
    cells = max(2, int(np.ceil(n ** (1.0 / d))))
    H = [["0"] * d for _ in range(d)]
    for i in range(d):
        H[i][i] = dec(rng, spacing * cells, spacing * cells + 1.5)
    if kind == "tri":
        for i in range(d):
            for j in range(i):
                H[i][j] = dec(rng, -0.8, 0.8)
        common.sparse_tilt(rng, H)
    ppp = ["1"] * d if rng.random() < 0.5 else [rng.choice(["0", "1"]) for _ in range(d)]
    types = [rng.randint(1, nt) for _ in range(n)]
    if rng.random() < 0.35:
        m = dec(rng, 0.5, 3.0, 2)
        masses = [m] * nt
    else:
        masses = [dec(rng, 0.5, 4.0, 2) for _ in range(nt)]

    def symm(lo, hi, nd=2):
        M = [[None] * nt for _ in range(nt)]
        for a in range(nt):
            for b in range(a, nt):
                M[a][b] = M[b][a] = dec(rng, lo, hi, nd)
        return M

    eps = symm(0.5, 2.0)
    eps_int = rng.random() < 0.15
    if eps_int:       # an integer-typed parameter matrix, e.g. np.array([[1, 2], [2, 1]])
        eps = [[str(max(1, round(float(x)))) for x in row] for row in eps]
    if model == "hh":
        sig = symm(1.3, 2.0)
        rc = [row[:] for row in sig]
    else:
        sig = symm(0.85, 1.2)
        f = symm(1.3, 2.6)
        rc = [[str(round(float(sig[a][b]) * float(f[a][b]), 2)) for b in range(nt)] for a in range(nt)]
        rc = [[rc[min(a, b)][max(a, b)] for b in range(nt)] for a in range(nt)]
    # positions: jittered lattice sites (no close contacts), possibly outside the primary cell
    sites = [[(k // cells ** a) % cells for a in range(d)] for k in range(cells ** d)]
    rng.shuffle(sites)
    pos = []
    for s in sites[:n]:
        p = []
        for a in range(d):
            v = (s[a] + 0.5) * float(H[a][a]) / cells + rng.uniform(-0.17, 0.17)
            if rng.random() < 0.1:
                v += rng.choice([-1, 1]) * float(H[a][a])
            p.append(f"{v:.3f}")
        pos.append(p)
    c = {"d": d, "n": n, "model": model, "nt": nt, "kind": kind, "H": H, "ppp": ppp, "types": types, "masses": masses,
         "eps": eps, "sig": sig, "rc": rc, "pos": pos, "shift": rng.random() < 0.6, "eps_int": eps_int}
    if model == "ipl":
        c["ipl_n"] = rng.choice(["12", "10", "6", "4.5"])
        c["ipl_A"] = dec(rng, 0.5, 2.0, 2)
    if model == "hh":
        c["alpha"] = rng.choice(["2", "2.5", "3", "2"])
    # another unit system: all energies × 10^ke, all masses × 10^km (eigenvalues scale by 10^(ke−km), frequencies by its square root);
    # nothing in the property depends on the units, so absolute thresholds / guards hidden in the code show up here
    if not eps_int and rng.random() < 0.3:
        ke, km = rng.choice([(-12, 3), (6, -3), (-6, 0), (3, 6), (-9, -3)])
        c["eps"] = [[f"{x}e{ke}" for x in row] for row in c["eps"]]
        c["masses"] = [f"{m}e{km}" for m in c["masses"]]
        c["units"] = [ke, km]
    # insertion order of the masses dict handed to the real code (a dict is a mapping: the order carries no meaning)
    order = list(range(nt))
    rng.shuffle(order)
    c["mass_order"] = order
    # call history on ONE HessianMatrix object: an earlier diagonalize_hessian with other interaction parameters, result discarded
    if rng.random() < 0.4:
        if model == "hh":
            c["prior"] = {"model": "hh", "alpha": rng.choice([a for a in ["2", "2.5", "3"] if a != c["alpha"]])}
        elif model == "lj":
            c["prior"] = {"model": "ipl", "ipl_n": rng.choice(["12", "10", "6"]), "ipl_A": dec(rng, 0.5, 2.0, 2)}
        else:
            c["prior"] = rng.choice([{"model": "lj"}, {"model": "ipl", "ipl_n": rng.choice([x for x in ["12", "10", "6", "4.5"] if x != c["ipl_n"]]),
                                                       "ipl_A": dec(rng, 0.5, 2.0, 2)}])
    return c


def op_line(c):
    flat = lambda M: " ".join(x for row in M for x in row)
    params = {"lj": [], "ipl": [c.get("ipl_n", "0"), c.get("ipl_A", "0")], "hh": [c.get("alpha", "0")]}[c["model"]]
    return "hess {} {} {} {} {} {} {} {} {} {} {} {} {} {}".format(
        c["d"], flat(c["H"]), " ".join(c["ppp"]), c["n"], " ".join(str(t) for t in c["types"]), flat(c["pos"]), c["nt"],
        " ".join(c["masses"]), flat(c["eps"]), flat(c["sig"]), flat(c["rc"]), c["model"], 1 if c["shift"] else 0, " ".join(params)).strip()


def classify(c):
    eq = len(set(c["masses"][t - 1] for t in c["types"])) == 1
    return f"d{c['d']}:{c['model']}:{'eqm' if eq else 'uneqm'}:{'shift' if c['shift'] else 'noshift'}:{'ppp' if all(p == '1' for p in c['ppp']) else 'mask'}"


# ----------------------------------------------------------------------------- the real routine

def real_run(c):
    """→ dict(matrix, evecs, omega, PR) read back from the files the routine writes"""
    import logging
    logging.disable(logging.CRITICAL)
    import pandas as pd
    from PyMatterSim.reader.reader_utils import SingleSnapshot
    from PyMatterSim.static.hessians import HessianMatrix, InteractionParams, ModelName
    d, n = c["d"], c["n"]
    f = lambda M: np.array([[float(x) for x in row] for row in M], dtype=float)
    Hm = f(c["H"])
    pos = f(c["pos"])
    L = np.diag(Hm).copy()
    snap = SingleSnapshot(timestep=0, nparticle=n, particle_type=np.array(c["types"]), positions=pos, boxlength=L,
                          boxbounds=np.column_stack((np.zeros(d), L)), realbounds=None, hmatrix=Hm)
    masses = {t + 1: float(c["masses"][t]) for t in c.get("mass_order", range(len(c["masses"])))}

    def mk_ip(q):
        if q["model"] == "lj":
            return InteractionParams(model_name=ModelName.lennard_jones)
        if q["model"] == "ipl":
            return InteractionParams(model_name=ModelName.inverse_power_law, ipl_n=float(q["ipl_n"]), ipl_A=float(q["ipl_A"]))
        return InteractionParams(model_name=ModelName.harmonic_hertz, harmonic_hertz_alpha=float(q["alpha"]))
    ip = mk_ip(c)
    epsilons = np.array([[int(x) for x in row] for row in c["eps"]], dtype=int) if c.get("eps_int") else f(c["eps"])
    h = HessianMatrix(snapshot=snap, masses=masses, epsilons=epsilons, sigmas=f(c["sig"]), r_cuts=f(c["rc"]),
                      ppp=np.array([int(p) for p in c["ppp"]]), shiftpotential=common.truthy(c["shift"], repr(c["pos"])))
    tmp = tempfile.mkdtemp(prefix="c11-")
    try:
        out = os.path.join(tmp, "h")
        if c.get("prior"):
            with np.errstate(all="ignore"):
                h.diagonalize_hessian(interaction_params=mk_ip(c["prior"]), saveevecs=False, savehessian=False, outputfile=os.path.join(tmp, "h0"))
        with np.errstate(all="ignore"):
            h.diagonalize_hessian(interaction_params=ip, saveevecs=True, savehessian=True, outputfile=out)
        M = np.load(out + ".hessianmatrix.npy")
        V = np.load(out + ".evecs.npy")
        df = pd.read_csv(out + ".omega_PR.csv")
        return {"matrix": M, "evecs": V, "omega": df["omega"].to_numpy(dtype=float), "PR": df["PR"].to_numpy(dtype=float),
                "columns": list(df.columns)}
    finally:
        shutil.rmtree(tmp, ignore_errors=True)


real_run = common.with_history(real_run)


# ----------------------------------------------------------------------------- independent oracle

def _frac_inv(H):
    d = len(H)
    A = [[Fraction(x) for x in row] + [Fraction(int(i == j)) for j in range(d)] for i, row in enumerate(H)]
    for col in range(d):
        piv = next(r for r in range(col, d) if A[r][col] != 0)
        A[col], A[piv] = A[piv], A[col]
        pv = A[col][col]
        A[col] = [x / pv for x in A[col]]
        for r in range(d):
            if r != col and A[r][col] != 0:
                fct = A[r][col]
                A[r] = [x - fct * y for x, y in zip(A[r], A[col])]
    return [row[d:] for row in A]


def _round_half_even(q):
    fl = q.numerator // q.denominator
    r = q - fl
    if r < Fraction(1, 2):
        return fl
    if r > Fraction(1, 2):
        return fl + 1
    return fl if fl % 2 == 0 else fl + 1


def _min_image(dr, H, Hinv, ppp):
    d = len(dr)
    fr_ = [sum(dr[i] * Hinv[i][k] for i in range(d)) for k in range(d)]
    fr_ = [x - _round_half_even(x) * ppp[k] for k, x in enumerate(fr_)]
    return [sum(fr_[i] * H[i][k] for i in range(d)) for k in range(d)]


class Oracle:
    """documented pair energy, coded independently of hessians.py / pbc.py"""

    def __init__(self, c):
        import mpmath as mp
        self.mp = mp
        mp.mp.dps = 40
        self.c = c
        self.d, self.n = c["d"], c["n"]
        self.H = [[Fraction(x) for x in row] for row in c["H"]]
        self.Hinv = _frac_inv(self.H)
        self.ppp = [int(p) for p in c["ppp"]]
        self.pos = [[Fraction(x) for x in row] for row in c["pos"]]
        self.m = [Fraction(c["masses"][t - 1]) for t in c["types"]]
        self._k = {}

    def params(self, i, j):
        a, b = self.c["types"][i] - 1, self.c["types"][j] - 1
        mpf = self.mp.mpf
        return mpf(self.c["eps"][a][b]), mpf(self.c["sig"][a][b]), mpf(self.c["rc"][a][b])

    def s(self, i, j):
        """documented potential of the pair as a function of r"""
        mp = self.mp
        eps, sig, rc = self.params(i, j)
        model = self.c["model"]
        if model == "lj":
            return lambda r: 4 * eps * ((sig / r) ** 12 - (sig / r) ** 6)
        if model == "ipl":
            nn, A = mp.mpf(self.c["ipl_n"]), mp.mpf(self.c["ipl_A"])
            return lambda r: A * eps * (sig / r) ** nn
        al = mp.mpf(self.c["alpha"])
        return lambda r: eps / al * (1 - r / sig) ** al

    def kcut(self, i, j):
        """slope subtracted by the force shift: s'(r_c) when shifting (documented 0 for harmonic/Hertz)"""
        if not self.c["shift"] or self.c["model"] == "hh":
            return self.mp.mpf(0)
        key = (self.c["types"][i], self.c["types"][j])
        if key not in self._k:
            self._k[key] = self.mp.diff(self.s(i, j), self.params(i, j)[2])
        return self._k[key]

    def pair_energy(self, i, j, x):
        """φ_ij(x) = s(r) − s(r_c) − (r − r_c)·k   for r ≤ r_c, else 0"""
        mp = self.mp
        r = mp.sqrt(sum(v * v for v in x))
        rc = self.params(i, j)[2]
        if r > rc:
            return mp.mpf(0)
        s = self.s(i, j)
        return s(r) - s(rc) - (r - rc) * self.kcut(i, j)

    def energy(self, X):
        """U = Σ_{i<j} φ_ij(minimum image of X_i − X_j); X exact rationals"""
        mp = self.mp
        U = mp.mpf(0)
        for i in range(self.n):
            for j in range(i + 1, self.n):
                x = _min_image([X[i][k] - X[j][k] for k in range(self.d)], self.H, self.Hinv, self.ppp)
                U += self.pair_energy(i, j, [mp.mpf(v.numerator) / v.denominator for v in x])
        return U

    def analytic(self):
        """D = M^(-1/2) (∂²U/∂r_i∂r_j) M^(-1/2) from s', s'' of the documented potential (numerical differentiation of s in
        40-digit arithmetic), assembled pair by pair.  Also returns the number of interacting unordered pairs."""
        mp = self.mp
        d, n = self.d, self.n
        Hs = [[mp.mpf(0)] * (d * n) for _ in range(d * n)]
        npairs = 0
        for i in range(n):
            for j in range(i + 1, n):
                xq = _min_image([self.pos[i][k] - self.pos[j][k] for k in range(d)], self.H, self.Hinv, self.ppp)
                x = [mp.mpf(v.numerator) / v.denominator for v in xq]
                r = mp.sqrt(sum(v * v for v in x))
                eps, sig, rc = self.params(i, j)
                if r > rc:
                    continue
                npairs += 1
                s = self.s(i, j)
                s1 = mp.diff(s, r)
                s2 = mp.diff(s, r, 2)
                k = self.kcut(i, j)
                for a in range(d):
                    for b in range(d):
                        B = s2 * x[a] * x[b] / r ** 2 + (s1 - k) * ((1 if a == b else 0) / r - x[a] * x[b] / r ** 3)
                        Hs[i * d + a][i * d + b] += B
                        Hs[j * d + a][j * d + b] += B
                        Hs[i * d + a][j * d + b] -= B
                        Hs[j * d + a][i * d + b] -= B
        D = np.zeros((d * n, d * n))
        for p in range(d * n):
            for q in range(d * n):
                mi, mj = self.m[p // d], self.m[q // d]
                D[p, q] = float(Hs[p][q] / (mp.sqrt(mp.mpf(mi.numerator) / mi.denominator) * mp.sqrt(mp.mpf(mj.numerator) / mj.denominator)))
        return D, npairs

    def fd_entry(self, p, q, h=Fraction(1, 10 ** 7)):
        """central second difference of the total energy in coordinates p, q, mass-weighted"""
        mp = self.mp
        d = self.d

        def U(dp, dq):
            X = [row[:] for row in self.pos]
            X[p // d][p % d] += dp
            X[q // d][q % d] += dq
            return self.energy(X)
        val = (U(h, h) - U(h, -h) - U(-h, h) + U(-h, -h)) / (4 * mp.mpf(h.numerator) / h.denominator * mp.mpf(h.numerator) / h.denominator)
        mi, mj = self.m[p // d], self.m[q // d]
        return float(val / mp.sqrt(mp.mpf(mi.numerator * mj.numerator) / (mi.denominator * mj.denominator)))


# ----------------------------------------------------------------------------- judging one case against the property

def _where(c, p, q):
    d = c["d"]
    i, j = p // d, q // d
    blockkind = "diag" if i == j else "offdiag"
    eq = c["masses"][c["types"][i] - 1] == c["masses"][c["types"][j] - 1] if i != j else \
        len(set(c["masses"][t - 1] for t in c["types"])) == 1
    return blockkind, ("eqm" if eq else "uneqm") + (":int-eps" if c.get("eps_int") else "")


def judge(c, real, rng, nfd=6):
    """the REAL output against the property statement.  Returns None or (key, message)."""
    d, n = c["d"], c["n"]
    dn = d * n
    M = real["matrix"]
    if M.shape != (dn, dn):
        return "C11:shape", f"saved matrix has shape {M.shape}, expected {(dn, dn)}"
    if not np.all(np.isfinite(M)):
        return "C11:nonfinite", "saved matrix contains non-finite entries"
    orc = Oracle(c)
    D, npairs = orc.analytic()
    scale = float(np.abs(D).max()) or 1.0          # the problem's own scale (unit systems with tiny or huge energies / masses occur)
    err = np.abs(M - D)
    if err.max() > 1e-8 * scale:
        p, q = np.unravel_index(int(err.argmax()), err.shape)
        bk, mk = _where(c, p, q)
        return (f"C11:matrix:{bk}:{mk}",
                f"saved matrix entry [{p},{q}] ({bk} block, particles {p // d},{q // d}) = {float(M[p, q])!r} but the mass-weighted analytic second "
                f"derivative of the documented energy is {float(D[p, q])!r} (max abs diff {err.max():.3e}, scale {scale:.3e})")
    # finite differences of the independently coded energy on a few entries (incl. one diagonal-block entry)
    picks = [(rng.randrange(dn), rng.randrange(dn)) for _ in range(nfd)]
    if nfd:
        i0 = rng.randrange(n)
        picks.append((i0 * d + rng.randrange(d), i0 * d + rng.randrange(d)))
    for p, q in picks:
        v = orc.fd_entry(p, q)
        if abs(v - M[p, q]) > 1e-6 * scale:
            bk, mk = _where(c, p, q)
            return (f"C11:matrix-fd:{bk}:{mk}", f"saved matrix entry [{p},{q}] = {float(M[p, q])!r} but the mass-weighted central second difference "
                    f"of the independently coded energy is {v!r}")
    # symmetry
    asym = np.abs(M - M.T).max()
    if asym > 1e-9 * scale:
        return "C11:symmetry", f"saved matrix is not symmetric: max |M - M^T| = {asym:.3e}"
    # mass-weighted uniform translations
    sm = np.sqrt(np.array([float(orc.m[p // d]) for p in range(dn)]))
    for a in range(d):
        t = sm * np.tile(np.eye(d)[a], n)
        res = np.abs(M @ t).max()
        if res > 1e-8 * scale * np.sqrt(dn):
            eq = len(set(c["masses"][t_ - 1] for t_ in c["types"])) == 1
            return (f"C11:translation:{'eqm' if eq else 'uneqm'}",
                    f"mass-weighted uniform translation along axis {a} is not annihilated: max |M t| = {res:.3e} (scale {scale:.3e})")
    # eigenvectors / frequencies / participation ratios
    V, om, PR = real["evecs"], real["omega"], real["PR"]
    if real["columns"] != ["omega", "PR"] or len(om) != dn or V.shape != (dn, dn):
        return "C11:files", f"omega_PR.csv columns {real['columns']}, {len(om)} rows; evecs shape {V.shape}"
    if np.abs(V.T @ V - np.eye(dn)).max() > 1e-8:
        return "C11:eigh:orthonormal", "saved eigenvectors are not orthonormal"
    lam = np.einsum("pk,pq,qk->k", V, M, V)
    resid = np.abs(M @ V - V * lam[None, :]).max()
    if resid > 1e-8 * scale:
        return "C11:eigh:residual", f"saved eigenvectors: max |M v - λ v| = {resid:.3e}"
    tol = 1e-8 * scale
    for k in range(dn):
        if lam[k] > tol:
            if not abs(om[k] * om[k] - lam[k]) <= 1e-9 * scale or om[k] < 0:
                return "C11:omega", f"mode {k}: eigenvalue {float(lam[k])!r} > 0 but reported frequency {float(om[k])!r} is not its square root"
        elif lam[k] < -tol:
            if abs(om[k] - lam[k]) > 1e-9 * scale:
                return "C11:omega:negative", f"mode {k}: eigenvalue {float(lam[k])!r} < 0 but reported value {float(om[k])!r}"
        else:
            if not (abs(om[k] * om[k] - lam[k]) <= 2 * tol or abs(om[k] - lam[k]) <= 2 * tol):
                return "C11:omega:zero", f"mode {k}: eigenvalue {float(lam[k])!r} ≈ 0 but reported value {float(om[k])!r}"
        w = (V[:, k].reshape(n, d) ** 2).sum(axis=1)
        pr = w.sum() ** 2 / (n * (w ** 2).sum())
        if not (0 < PR[k] <= 1 + 1e-12):
            return "C11:PR:range", f"mode {k}: participation ratio {float(PR[k])!r} outside (0, 1]"
        if abs(PR[k] - pr) > 1e-10:
            return "C11:PR:value", f"mode {k}: participation ratio {float(PR[k])!r}, definition gives {float(pr)!r}"
    return None


def failing(c, rng, nfd=3):
    try:
        real = real_run(c)
    except Exception as e:
        return f"C11:raised:{type(e).__name__}", f"diagonalize_hessian raised {type(e).__name__}: {e}"
    return judge(c, real, rng, nfd)


# ----------------------------------------------------------------------------- correspondence

def run_cases(run, cases, nfd):
    outs = common.drive([op_line(c) for c in cases])
    dis, prop_fail = [], []
    skipped = 0
    pr_ops, pr_ref, fq_ops, fq_ref = [], [], [], []
    for c, o in zip(cases, outs):
        if o == "bad-op":
            raise common.Infra("driver rejected op: " + op_line(c)[:200])
        toks = o.split()
        margin, npairs, dn = Fraction(toks[0]), int(toks[1]), int(toks[2])
        run.hist("dim", c["d"]); run.hist("model", c["model"]); run.hist("n", c["n"]); run.hist("species", c["nt"])
        run.hist("cell", c["kind"]); run.hist("mask", "".join(c["ppp"])); run.hist("class", classify(c)); run.hist("epsilons_dtype", "int" if c.get("eps_int") else "float")
        run.hist("unit_system", "reduced" if not c.get("units") else "energies e%d, masses e%d" % tuple(c["units"]))
        run.hist("masses_dict_order", "ascending" if c.get("mass_order", []) == sorted(c.get("mass_order", [])) else "permuted")
        run.hist("history", "second call on the object after " + c["prior"]["model"] if c.get("prior") else "first call")
        if margin < Fraction(1, 10 ** 6):
            skipped += 1
            continue
        model = np.array([bits2float(t) for t in toks[3:]]).reshape(dn, dn)
        try:
            real = real_run(c)
        except Exception as e:
            prop_fail.append((c, (f"C11:raised:{type(e).__name__}", f"diagonalize_hessian raised {type(e).__name__}: {e}")))
            continue
        M = real["matrix"]
        ordered = c["n"] * (c["n"] - 1)
        nontriv = npairs >= 1 and (npairs < ordered or npairs >= 6)
        run.hist("interacting_ordered_pairs", min(npairs, 40) // 4 * 4)
        run.count(op_line(c), nontriv, sample={"op": op_line(c)[:400], "npairs": npairs, "model_row0": model[0][:4].tolist(),
                                                "real_row0": M[0][:4].tolist() if M.ndim == 2 else None})
        scale = float(np.abs(model).max()) or 1.0
        if M.shape != model.shape or not np.all(np.abs(M - model) <= TOL * scale):
            bad = "shape" if M.shape != model.shape else "max abs diff %.3e (scale %.3e)" % (np.abs(M - model).max(), scale)
            dis.append((c, f"saved matrix vs Pms.Hess.hessian: {bad}"))
        elif M.shape == (dn, dn) and len(real["PR"]) == dn:
            V, lam = real["evecs"], np.einsum("pk,pq,qk->k", real["evecs"], M, real["evecs"])
            for k in sorted(set([0, dn // 2, dn - 1])):
                pr_ops.append("hesspr {} {} {}".format(c["n"], c["d"], " ".join(float2bits(x) for x in V[:, k])))
                pr_ref.append((c, k, real["PR"][k]))
            ev = np.linalg.eigvalsh(M)
            fq_ops.append("hessfreq " + " ".join(float2bits(x) for x in ev))
            with np.errstate(all="ignore"):
                fq_ref.append((c, ev))
        pf = judge(c, real, run.rng, nfd)
        if pf:
            prop_fail.append((c, pf))
    if pr_ops:
        for o, (c, k, ref) in zip(common.drive(pr_ops), pr_ref):
            if not common.close(bits2float(o), ref, 1e-10):
                dis.append((c, f"participation_ratio vs Pms.Hess.pr: mode {k}: real {ref!r} model {bits2float(o)!r}"))
    if fq_ops:
        for o, (c, ev) in zip(common.drive(fq_ops), fq_ref):
            mo = [bits2float(t) for t in o.split()]
            with np.errstate(all="ignore"):
                ref = np.where(ev > 0, np.sqrt(np.abs(ev)), ev)
            if any(not common.close(a, b, 1e-12, 0) for a, b in zip(mo, ref)):
                dis.append((c, "regenerated `frequencies` term vs np.where(evals > 0, sqrt(evals), evals)"))
    run.coverage["skipped_inside_margin"] = run.coverage.get("skipped_inside_margin", 0) + skipped
    return dis, prop_fail


def correspond(run):
    quick = run.tier == "quick"
    n = 110 if quick else 2500
    cases = common.load_corpus(PROP) + common.add_siblings(
        run.rng, [gen_case(run.rng, big=(not quick or i % 5 == 0)) for i in range(n)],
        lambda rng, c: dict(c, pos=common.jitter_positions(rng, c["pos"], 0.04, 3)), every=5)   # same cell, types, parameters: positions moved a little
    dis, pf = run_cases(run, cases, nfd=2 if quick else 4)
    run.coverage["traces_validated_against_impl"] = run.coverage["evaluations"]
    # size stream: more than 100 particles, judged against the documented energy only (the exact-ℚ driver is not run at this size)
    for _ in range(1 if quick else 6):
        c = gen_size_case(run.rng)
        run.hist("stream", "size"); run.hist("size_n", c["n"])
        run.count({"size": c["n"], "pos": c["pos"][:3]}, True)
        w = failing(c, run.rng, nfd=1)
        if w:
            pf.append((c, w))
    run.coverage["programs"] = 3
    broken = []
    if dis:
        broken.append({"kind": "correspondence", "name": "Pms.Hess.hessian~diagonalize_hessian",
                       "detail": f"{len(dis)} of {len(cases)} cases disagree; first: {dis[0][1][:300]}", "cases": [c for c, _ in dis[:20]]})
    if pf:
        broken.append({"kind": "oracle", "name": "diagonalize_hessian vs documented energy / monitors",
                       "detail": f"{len(pf)} failures; first: {pf[0][1][1][:300]}", "cases": [c for c, _ in pf[:20]]})
    return broken


# ----------------------------------------------------------------------------- search / shrink / replay

def shrink(c, key, rng):
    """drop particles while the same failure key persists"""
    cur = c
    changed = not c.get("size")           # size stream: the particle number is the point
    while changed and cur["n"] > 2:
        changed = False
        for drop in range(cur["n"]):
            cand = dict(cur, n=cur["n"] - 1, types=[t for k, t in enumerate(cur["types"]) if k != drop],
                        pos=[p for k, p in enumerate(cur["pos"]) if k != drop])
            r = failing(cand, rng, nfd=0)
            if r and r[0] == key:
                cur, changed = cand, True
                break
    return cur


def _guarded(c):
    o = common.drive([op_line(c)])[0]
    return o != "bad-op" and Fraction(o.split()[0]) >= Fraction(1, 10 ** 6)


def search(run, broken):
    """whatever broke: look for a concrete system on which the REAL routine contradicts the property (oracle + monitors)"""
    pool = []
    for b in broken:
        pool += b.get("cases", [])
    extra = 150 if run.tier == "quick" else 1500
    pool += [gen_case(run.rng) for _ in range(extra)]
    pool += [gen_size_case(run.rng, n) for n in SIZES]
    found = {}
    tried = 0
    for c in pool:
        if len(found) >= 4:
            break
        try:
            if not (size_guard(c) if c.get("size") else _guarded(c)):
                continue
        except common.Infra:
            pass
        tried += 1
        r = failing(c, run.rng, nfd=1)
        if r and r[0] not in found:
            c2 = shrink(c, r[0], run.rng)
            r2 = failing(c2, run.rng, nfd=1) or r
            found[r[0]] = True
            run.violation(r2[0], r2[1], {"case": c2, "op": op_line(c2)})
    run.coverage["search_cases"] = tried
    return [] if found else list(broken)


def replay(run, rp):
    if "case" in rp:
        return bool(failing(rp["case"], run.rng))
    return any(failing(c, run.rng) for c in rp.get("cases", []))
