"""C15 — vector-field measures and the longitudinal/transverse split (`PyMatterSim/static/vector.py`).

Tie: differential correspondence between the compiled Lean model (Pms/Model/Vec.lean; exact ℚ for the
real-valued measures, Float / complex-Float instance of the SAME definitions for the Fourier routines) and
the real routines, plus monitors that evaluate the property statement itself (and the proved theorems) on
the REAL output against an independent exact-rational / cmath oracle written here.  The failing-input
search uses only the real code, the oracle and the monitors — never the Lean model."""
import cmath
import logging
import math
import os
import shutil
import tempfile
import warnings
from fractions import Fraction

import numpy as np

import common
from common import bits2float, dec

logging.disable(logging.WARNING)      # the library logs every call at INFO

PROP = "C15"
PROPS_FILES = ["Pms/Props/C15.lean", "Pms/Props/C15F.lean"]
GENERATORS = []
RULE = ("seeded generator over routine {participation_ratio, local_vector_alignment+phase_quotient, divergence_curl, "
        "vibrability, vector_decomposition_sq, vector_fft_corr} × field kind {uniform, localised, random, linear u=A·r} × "
        "d∈{2,3} × configuration {random, cubic lattice with symmetric shells} × cell {orthogonal, triclinic} × mask × "
        "neighbour tables (random, with empty rows in the edge stream) × wave-vector lists (with degenerate |q| groups) × "
        "frame series {single, linear, log-spaced}; decimal-grid inputs; a case is non-trivial when the field is not "
        "identically zero and (where applicable) at least one neighbour row / wave vector is judged; distinct = distinct "
        "literal inputs")
TRUSTED_BASE = [
    "Lean 4.33 kernel; axioms propext, Classical.choice, Quot.sound only; Mathlib ℝ, ℂ, Real.sqrt, Complex.exp as the meaning of the statements",
    "numpy reductions (.sum, .mean, np.dot, np.cross, np.linalg.norm, np.square, np.abs) modelled by exact sums / their algebraic definition; "
    "float64 ≈ ℝ validated by the correspondence (1e-9 exact-ℚ ops, 5e-7 Float ops after the double round(8)), not proved",
    "remove_pbc reused from the C02 model (np.linalg.inv, np.rint contracts); rint decisions guarded by an exact margin ≥ 1e-6",
    "read_neighbors is input data here (neighbour table written in its documented file format; modelled by C05)",
    "cos/sin/√/π evaluated in Lean Float in the driver; in the theorems e^{-iθ} is Complex.exp and √ is Real.sqrt (only √x·√x = x, x ≥ 0 is used)",
    "pandas DataFrame.round(8) (applied twice to the decomposition tables) is modelled as the identity: compared at 5e-7; "
    "groupby(|q| rounded) is modelled by grouping on the exact rational key Σ(n_k/L_k)², guarded: distinct keys ≥ 1e-4 apart (relative), |q|·1e8 ≥ 1e-3 from a rounding tie",
    "conditional_sq (sq.py, vector branch) is modelled locally as Σ_i A_i e^{-iq·r_i}/√N; time_correlation (two-index branch) locally as the origin loop",
    "hand-written model tied to vector.py by this harness; the Python oracle in harness/corr/C15.py (exact rational / cmath) states the property for the search",
]

EXACT_TOL = 1e-9
# Fourier tables: the model evaluates cos/sin/√ in Float (1e-7) and the real tables went through DataFrame.round(8)
# twice (each ±5e-9, amplified by 2|X|·d in the spectra): 5e-7·max(1,|a|,|b|) bounds both
FLOAT_TOL = 5e-7
MON_TOL = 2e-6
GAP_MIN = 1e-6      # relative gap between distinct |q|² keys below which the groupby is not judged (the code groups |q| at 1e-8)
TIE_MIN = 1e-3      # distance of |q|·1e8 from a rounding tie below which the groupby is not judged


# ----------------------------------------------------------------------------- helpers

def fmt(x, nd=3):
    """Fraction with denominator | 10^nd → decimal string"""
    x = Fraction(x)
    q = 10 ** nd
    v = x * q
    assert v.denominator == 1, x
    v = int(v)
    s = "-" if v < 0 else ""
    v = abs(v)
    return f"{s}{v // q}.{v % q:0{nd}d}"


def fl(rows):
    return np.array([[float(x) for x in row] for row in rows], dtype=float)


def fx(rows):
    return [[Fraction(x) for x in row] for row in rows]


def _quiet(f, *a, **k):
    with warnings.catch_warnings():
        warnings.simplefilter("ignore")
        with np.errstate(all="ignore"):
            return f(*a, **k)


def snapshot(pos, L, H=None, timestep=0):
    from PyMatterSim.reader.reader_utils import SingleSnapshot
    pos = np.asarray(pos, dtype=float)
    L = np.asarray(L, dtype=float)
    d = pos.shape[1]
    return SingleSnapshot(timestep=timestep, nparticle=pos.shape[0], particle_type=np.ones(pos.shape[0], dtype=int),
                          positions=pos, boxlength=L, boxbounds=np.column_stack((np.zeros(d), L)),
                          realbounds=None, hmatrix=np.diag(L) if H is None else np.asarray(H, dtype=float))


def write_nb(path, nb, rng_order=None):
    """neighbour table in the format of neighbors.* (1-based ids, header names 'neighborlist')"""
    order = list(range(len(nb)))
    if rng_order:
        order = rng_order
    with open(path, "w", encoding="utf-8") as f:
        f.write("id     cn     neighborlist\n")
        for i in order:
            f.write("%d %d %s\n" % (i + 1, len(nb[i]), " ".join(str(j + 1) for j in nb[i])))


# ----------------------------------------------------------------------------- generators

def gen_positions(rng, N, d, L):
    return [[dec(rng, 0, float(L[k]) - 0.01, 2) for k in range(d)] for _ in range(N)]


def gen_field(rng, N, d, pos, kind=None):
    kind = kind or rng.choice(["uniform", "localised", "random", "random", "linear"])
    if kind == "uniform":
        u = [dec(rng, -2, 2) for _ in range(d)]
        if all(Fraction(x) == 0 for x in u):
            u[0] = "1.000"
        v = [list(u) for _ in range(N)]
    elif kind == "localised":
        v = [["0.000"] * d for _ in range(N)]
        for i in rng.sample(range(N), rng.choice([1, 1, 2]) if N > 1 else 1):
            v[i] = [dec(rng, -2, 2) for _ in range(d)]
            if all(Fraction(x) == 0 for x in v[i]):
                v[i][0] = "0.500"
    elif kind == "linear":
        A = [[Fraction(dec(rng, -1.5, 1.5, 1)) for _ in range(d)] for _ in range(d)]
        v = [[fmt(sum(A[k][l] * Fraction(pos[i][l]) for l in range(d))) for k in range(d)] for i in range(N)]
        return kind, v, [[fmt(a, 1) for a in row] for row in A]
    else:
        v = [[dec(rng, -2, 2) for _ in range(d)] for _ in range(N)]
    return kind, v, None


def other_unit(rng, v, p=0.25):
    """the field in another unit (× 10^k) with probability p: PR and the phase quotient do not depend on it, alignment scales with its
    square, divergence / curl / the transform linearly — an absolute guard in a denominator shows up here"""
    if rng.random() >= p:
        return v
    k = rng.choice([-7, -5, 6])
    return [[x if Fraction(x) == 0 else f"{x}e{k}" for x in row] for row in v]


def gen_nb(rng, N, edge=False):
    nb = []
    for i in range(N):
        others = [j for j in range(N) if j != i]
        hi = min(len(others), 6)
        cn = rng.randint(1, hi) if hi >= 1 else 0
        if edge and rng.random() < 0.3:
            cn = 0
        nb.append(rng.sample(others, cn))
    return nb


def gen_pr(rng, edge=False):
    d = rng.choice([2, 3])
    N = rng.randint(1, 9)
    L = ["6.00"] * d
    pos = gen_positions(rng, N, d, L)
    kind, v, A = gen_field(rng, N, d, pos)
    if edge:
        kind, v = "zero", [["0.000"] * d for _ in range(N)]
    v = other_unit(rng, v)
    return {"op": "pr", "N": N, "d": d, "field": kind, "v": v, "scale": dec(rng, 0.2, 3, 2) if rng.random() < .8 else "-1.50"}


def gen_nbcase(rng, edge=False):
    d = rng.choice([2, 3])
    N = rng.randint(2, 8)
    L = ["6.00"] * d
    pos = gen_positions(rng, N, d, L)
    kind, v, A = gen_field(rng, N, d, pos)
    nb = gen_nb(rng, N, edge)
    order = list(range(N))
    if rng.random() < 0.3:
        rng.shuffle(order)
    v = other_unit(rng, v)
    return {"op": "nb", "N": N, "d": d, "field": kind, "v": v, "nb": nb, "order": order, "edge": edge}


def gen_dc(rng, edge=False):
    d = rng.choice([2, 3])
    conf = rng.choice(["random", "random", "lattice"])
    cell = rng.choice(["orth", "orth", "tri"])
    if conf == "lattice":
        cell = "orth"
        n = 3
        a = Fraction(dec(rng, 0.8, 1.6, 1))
        N = n ** d
        Lx = a * n + Fraction(rng.choice(["0", "0", "0.5", "2"]))
        H = [[fmt(Lx, 2) if i == k else "0.00" for k in range(d)] for i in range(d)]
        org = [Fraction(dec(rng, 0, 1, 2)) for _ in range(d)]
        idx = [[(m // n ** k) % n for k in range(d)] for m in range(N)]
        pos = [[fmt(org[k] + a * idx[m][k], 2) for k in range(d)] for m in range(N)]
        centre = next(m for m in range(N) if all(x == 1 for x in idx[m]))
        nb = gen_nb(rng, N)
        shell = []
        for k in range(d):
            for s in (-1, 1):
                t = list(idx[centre]); t[k] += s
                shell.append(next(m for m in range(N) if idx[m] == t))
        rng.shuffle(shell)
        nb[centre] = shell
        fk = rng.choice(["linear", "linear", "random"])
        extra = {"centre": centre, "a": fmt(a, 1)}
    else:
        N = rng.randint(2, 7)
        H = [["0.00"] * d for _ in range(d)]
        for i in range(d):
            H[i][i] = dec(rng, 3, 8, 2)
        if cell == "tri":
            for i in range(d):
                for j in range(i):
                    H[i][j] = dec(rng, -1.5, 1.5, 2)
            common.sparse_tilt(rng, H)
        pos = [[dec(rng, -1, 8, 2) for _ in range(d)] for _ in range(N)]
        nb = gen_nb(rng, N, edge)
        fk = None
        extra = {}
    kind, v, A = gen_field(rng, N, d, pos, fk)
    ppp = [rng.choice(["0", "1"]) for _ in range(d)]
    if rng.random() < 0.5:
        ppp = ["1"] * d
    if conf == "lattice" and rng.random() < 0.7:
        ppp = ["0"] * d
    c = {"op": "dc", "N": N, "d": d, "conf": conf, "cell": cell, "H": H, "ppp": ppp, "pos": pos, "field": kind, "v": v,
         "A": A, "nb": nb, "edge": edge}
    c.update(extra)
    if kind != "linear" and rng.random() < 0.25:
        # an integer-valued field held in an integer array (spins, a displacement field in grid units): divergence and curl are not integers
        c["v"] = [[str(int(round(Fraction(x) * 2))) for x in row] for row in v]
        c["intfield"] = True
    return c


def gen_vib(rng, edge=False):
    d = rng.choice([1, 2, 3])
    N = rng.randint(1, 5)
    rows = N * d
    M = rng.randint(1, rows + 1)
    w = [dec(rng, 0.3, 4, 2) for _ in range(M)]
    if rng.random() < 0.3:
        w[rng.randrange(M)] = "-" + w[0]           # only ω² enters
    E = [[dec(rng, -1, 1) for _ in range(M)] for _ in range(rows)]
    return {"op": "vib", "N": N, "M": M, "rows": rows, "w": w, "E": E, "save": rng.random() < 0.3}


def gen_qvectors(rng, d, nq):
    qs = []
    base = []
    while len(qs) < nq:
        if base and rng.random() < 0.45:          # same |q| group when the box is cubic: permute / flip a previous one
            b = list(rng.choice(base))
            rng.shuffle(b)
            b = [x * rng.choice([1, -1]) for x in b]
        else:
            b = [rng.randint(-3, 3) for _ in range(d)]
        if all(x == 0 for x in b):
            continue
        base.append(b)
        qs.append(b)
    return qs


def gen_dec(rng, edge=False):
    d = rng.choice([2, 3])
    N = rng.randint(1, 7)
    if rng.random() < 0.5:
        L = [dec(rng, 3, 9, 2)] * d
    else:
        L = [dec(rng, 3, 9, 2) for _ in range(d)]
    if rng.random() < 0.2:
        # nearly equal edges: the shells of (1,0,…) and (0,1,…) differ by ~1e-5 in |q| — distinct, not to be averaged together
        L = [L[0]] + [format(float(Fraction(L[0]) + Fraction(rng.choice([4, 7, 10, -5, 12]), 10 ** 4) * j), ".4f") for j in range(1, d)]
    pos = gen_positions(rng, N, d, L)
    kind, v, A = gen_field(rng, N, d, pos)
    nq = rng.randint(1, 7)
    return {"op": "dec", "N": N, "d": d, "L": L, "pos": pos, "field": kind, "v": v, "q": gen_qvectors(rng, d, nq), "qfloat": rng.random() < 0.5,
            "save": rng.random() < 0.3}


def gen_corr(rng, edge=False):
    d = rng.choice([2, 3])
    N = rng.randint(1, 5)
    T = rng.choice([1, 2, 3, 3, 4, 5])
    L = [dec(rng, 3, 9, 2)] * d if rng.random() < 0.5 else [dec(rng, 3, 9, 2) for _ in range(d)]
    style = rng.choice(["linear", "linear", "log"]) if T >= 3 else "linear"
    t0 = rng.choice([0, 0, 100])
    if style == "linear":
        step = rng.choice([1, 10, 500])
        ts = [t0 + step * n for n in range(T)]
    else:
        ts = [t0 + (2 ** n - 1) * 10 for n in range(T)]
    pos, vec = [], []
    p0 = gen_positions(rng, N, d, L)
    k0, v0, _ = gen_field(rng, N, d, p0)
    for n in range(T):
        if rng.random() < 0.6 and n > 0:      # persistent dynamics: small displacement of the previous frame
            p = [[fmt(Fraction(x) + Fraction(dec(rng, -0.2, 0.2, 2)), 2) for x in row] for row in pos[-1]]
            v = [[fmt(Fraction(x) + Fraction(dec(rng, -0.3, 0.3, 3))) for x in row] for row in vec[-1]]
        elif n == 0:
            p, v = p0, v0
        else:
            p = gen_positions(rng, N, d, L)
            _, v, _ = gen_field(rng, N, d, p)
        pos.append(p)
        vec.append(v)
    nq = rng.randint(1, 4)
    return {"op": "corr", "N": N, "d": d, "T": T, "L": L, "ts": ts, "style": style, "dt": rng.choice(["0.002", "0.005", "1"]),
            "pos": pos, "v": vec, "field": k0, "q": gen_qvectors(rng, d, nq), "qfloat": rng.random() < 0.5}


GEN = {"pr": gen_pr, "nb": gen_nbcase, "dc": gen_dc, "vib": gen_vib, "dec": gen_dec, "corr": gen_corr}


def gen_case(rng, op=None, edge=False):
    op = op or rng.choice(list(GEN))
    return GEN[op](rng, edge)


# ----------------------------------------------------------------------------- driver lines

def _flat(rows):
    return " ".join(x for row in rows for x in row)


def _nbs(nb):
    return " ".join(" ".join([str(len(r))] + [str(j) for j in r]) for r in nb)


def op_line(c):
    op = c["op"]
    if op == "pr":
        return f"vpr {c['N']} {c['d']} {_flat(c['v'])}"
    if op == "nb":
        return f"vnb {c['N']} {c['d']} {_flat(c['v'])} {_nbs(c['nb'])}"
    if op == "dc":
        return f"vdc {c['d']} {c['N']} {_flat(c['H'])} {' '.join(c['ppp'])} {_flat(c['pos'])} {_flat(c['v'])} {_nbs(c['nb'])}"
    if op == "vib":
        return f"vvib {c['N']} {c['M']} {c['rows']} {' '.join(c['w'])} {_flat(c['E'])}"
    if op == "dec":
        return (f"vdec {c['d']} {c['N']} {len(c['q'])} {' '.join(c['L'])} {_flat(c['pos'])} {_flat(c['v'])} "
                + " ".join(str(x) for row in c["q"] for x in row))
    if op == "corr":
        return (f"vcorr {c['d']} {c['N']} {c['T']} {len(c['q'])} {c['dt']} {' '.join(str(t) for t in c['ts'])} {' '.join(c['L'])} "
                + " ".join(_flat(p) for p in c["pos"]) + " " + " ".join(_flat(v) for v in c["v"]) + " "
                + " ".join(str(x) for row in c["q"] for x in row))
    raise ValueError(op)


# ----------------------------------------------------------------------------- the real code

def real_out(c):
    """call the real routine(s); returns a dict of plain python numbers"""
    from PyMatterSim.static import vector as V
    op = c["op"]
    tmp = tempfile.mkdtemp(prefix="c15-")
    try:
        if op == "pr":
            v = common.guise(fl(c["v"]), "pr")
            return {"pr": float(_quiet(V.participation_ratio, v)),
                    "pr_scaled": float(_quiet(V.participation_ratio, v * float(c["scale"])))}
        if op == "nb":
            v = common.guise(fl(c["v"]), "nb")
            nbf = os.path.join(tmp, "nb.dat")
            write_nb(nbf, c["nb"], c.get("order"))
            al = _quiet(V.local_vector_alignment, v, nbf)
            pq = _quiet(V.phase_quotient, v, nbf)
            return {"align": [float(x) for x in al], "pq": float(pq)}
        if op == "dc":
            nbf = os.path.join(tmp, "nb.dat")
            write_nb(nbf, c["nb"])
            H = fl(c["H"])
            snap = snapshot(fl(c["pos"]), np.diag(H), H)
            vv = fl(c["v"]).astype(np.int64) if c.get("intfield") else common.guise(fl(c["v"]), "dc")
            out = _quiet(V.divergence_curl, snap, vv, np.array([int(x) for x in c["ppp"]]), nbf)
            if c["d"] == 2:
                if isinstance(out, tuple):
                    return {"div": [float(x) for x in out[0]], "curl": "unexpected tuple in 2D"}
                return {"div": [float(x) for x in out], "curl": None}
            div, curl = out
            return {"div": [float(x) for x in div], "curl": [[float(x) for x in row] for row in curl]}
        if op == "vib":
            w = np.array([float(x) for x in c["w"]])
            E = common.guise(fl(c["E"]), "vib")       # scipy.linalg.eigh returns Fortran-ordered eigenvector matrices
            of = os.path.join(tmp, "vib.npy") if c.get("save") else ""
            r = V.vibrability(w, E, c["N"], of)
            res = {"vib": [float(x) for x in r]}
            if of:
                res["saved"] = [float(x) for x in np.load(of)]
            return res
        if op == "dec":
            snap = snapshot(fl(c["pos"]), [float(x) for x in c["L"]])
            of = os.path.join(tmp, "dec") if c.get("save") else ""
            qv = np.array(c["q"], dtype=(np.float64 if c.get("qfloat") else int))      # integer-valued in either dtype
            qv0 = qv.copy()
            if c.get("qfloat"):       # call history: the same table object has been used for an earlier call
                _quiet(V.vector_decomposition_sq, snap, qv, fl(c["v"]), "")
            tab, ave = _quiet(V.vector_decomposition_sq, snap, qv, fl(c["v"]), of)
            if not np.array_equal(qv, qv0):
                raise AssertionError("the wave-vector table was modified in place")
            res = _dec_tables(tab, ave, c["d"])
            if of:
                import pandas as pd
                res["saved"] = pd.read_csv(of + ".csv").values.tolist()
                res["saved_cols"] = list(pd.read_csv(of + ".csv").columns)
            return res
        if op == "corr":
            from PyMatterSim.reader.reader_utils import Snapshots
            L = [float(x) for x in c["L"]]
            snaps = Snapshots(nsnapshots=c["T"], snapshots=[snapshot(fl(c["pos"][n]), L, timestep=c["ts"][n]) for n in range(c["T"])])
            vec = np.array([fl(v) for v in c["v"]])
            of = os.path.join(tmp, "corr")
            qv = np.array(c["q"], dtype=(np.float64 if c.get("qfloat") else int))
            qv0 = qv.copy()
            out = _quiet(V.vector_fft_corr, snaps, qv, vec, float(c["dt"]), of)
            if not np.array_equal(qv, qv0):
                raise AssertionError("the wave-vector table was modified in place")
            import pandas as pd
            res = {"keys": list(out.keys())}
            for h in out:
                res[h] = np.asarray(out[h].values).real.astype(float).tolist()
                res[h + "_cols"] = [x if isinstance(x, str) else float(x) for x in out[h].columns]
                res[h + "_npy"] = np.asarray(np.load(of + "." + h + ".npy")).real.astype(float).tolist()
            sp = pd.read_csv(of + ".spectra.csv")
            res["spectra"] = sp.values.tolist()
            res["spectra_cols"] = list(sp.columns)
            return res
        raise ValueError(op)
    finally:
        shutil.rmtree(tmp, ignore_errors=True)


def _dec_tables(tab, ave, d):
    cols = list(tab.columns)
    want = [f"q{i}" for i in range(d)] + ["q", "Sq"] + [f"FFT{i}" for i in range(d)] + [f"T_FFT{i}" for i in range(d)] + ["Sq_T"] \
        + [f"L_FFT{i}" for i in range(d)] + ["Sq_L"]
    rows = []
    for n in range(len(tab)):
        r = {}
        for col in cols:
            r[col] = complex(tab[col].values[n])
        rows.append(r)
    return {"cols": cols, "want": want, "rows": rows, "ave_cols": list(ave.columns), "ave": [[float(x) for x in row] for row in ave.values]}


# ----------------------------------------------------------------------------- the oracle (Spec in Python)

def o_inverse(H):
    d = len(H)
    A = [list(row) + [Fraction(int(i == j)) for j in range(d)] for i, row in enumerate(H)]
    for col in range(d):
        p = next(r for r in range(col, d) if A[r][col] != 0)
        A[col], A[p] = A[p], A[col]
        piv = A[col][col]
        A[col] = [x / piv for x in A[col]]
        for r in range(d):
            if r != col and A[r][col] != 0:
                f = A[r][col]
                A[r] = [x - f * y for x, y in zip(A[r], A[col])]
    return [row[d:] for row in A]


def o_minimg(r, H, Hinv, ppp):
    """minimum image of r (exact): (f − rint(f)·ppp)·H with f = r·H⁻¹; also the margin of the rint decisions"""
    d = len(r)
    f = [sum(r[i] * Hinv[i][k] for i in range(d)) for k in range(d)]
    margin = min([abs((x - Fraction(1, 2)) - round(x - Fraction(1, 2))) for x, p in zip(f, ppp) if p] or [Fraction(1)])
    g = [x - round(x) * p for x, p in zip(f, ppp)]         # Fraction.__round__ is half-even
    return [sum(g[i] * H[i][k] for i in range(d)) for k in range(d)], margin


def o_dft(c, pos, v):
    """F[n][k] = N^{-1/2} Σ_i A_ik exp(−i q_n·r_i), q_n = 2π n/L"""
    d, N = c["d"], c["N"]
    L = [float(x) for x in c["L"]]
    out = []
    for qn in c["q"]:
        q = [2 * math.pi * qn[k] / L[k] for k in range(d)]
        Fk = [0j] * d
        for i in range(N):
            th = math.fsum(q[k] * float(pos[i][k]) for k in range(d))
            e = cmath.exp(-1j * th)
            for k in range(d):
                Fk[k] += e * float(v[i][k])
        out.append(([x / math.sqrt(N) for x in Fk], q))
    return out


def o_split(Fk, q):
    qn = math.sqrt(sum(x * x for x in q))
    u = [x / qn for x in q]
    m = sum(a * b for a, b in zip(u, Fk))
    Lp = [a * m for a in u]
    Tp = [a - b for a, b in zip(Fk, Lp)]
    return qn, u, Tp, Lp


def o_corr(series, lin):
    """series[n] = list of complex (frame n); the definition of the normalised time correlation"""
    T = len(series)
    ip = lambda a, b: sum(x * y.conjugate() for x, y in zip(a, b)).real
    if lin:
        raw = [sum(ip(series[n], series[n - nn]) for n in range(nn, T)) / (T - nn) for nn in range(T)]
    else:
        raw = [ip(series[n], series[0]) for n in range(T)]
    return raw


def is_linear(ts):
    return len(set(b - a for a, b in zip(ts, ts[1:]))) == 1


# ----------------------------------------------------------------------------- monitors: the property on the REAL output

def near(a, b, tol=MON_TOL):
    if a is None or b is None:
        return a is b
    a, b = complex(a), complex(b)
    if a != a and b != b:
        return True
    return abs(a - b) <= tol * max(1.0, abs(a), abs(b))


def monitors(c, real):
    """None, or (name, message): the first clause of the property statement the real output contradicts"""
    op = c["op"]
    if op == "pr":
        v = fx(c["v"])
        a = [sum(x * x for x in row) for row in v]
        S, Q = sum(a), sum(x * x for x in a)
        if Q == 0:
            return None if real["pr"] != real["pr"] else ("pr-zero-field", f"zero field gave {real['pr']!r} (expected nan)")
        want = S * S / (c["N"] * Q)
        if not near(real["pr"], float(want), 1e-9):
            return ("pr-def", f"participation ratio {real['pr']!r} != (Σ|e|²)²/(NΣ|e|⁴) = {float(want)!r}")
        if not (1.0 / c["N"] - 1e-9 <= real["pr"] <= 1 + 1e-9):
            return ("pr-bounds", f"participation ratio {real['pr']!r} outside [1/{c['N']}, 1]")
        if not near(real["pr_scaled"], real["pr"], 1e-9):
            return ("pr-scale", f"PR(c·e)={real['pr_scaled']!r} != PR(e)={real['pr']!r} for c={c['scale']}")
        return None
    if op == "nb":
        v = fx(c["v"])
        s0 = s1 = Fraction(0)
        if len(real["align"]) != c["N"]:
            return ("align-shape", f"{len(real['align'])} values for {c['N']} particles")
        for i in range(c["N"]):
            med = [sum(x * y for x, y in zip(v[i], v[j])) for j in c["nb"][i]]
            s0 += sum(med)
            s1 += sum(abs(m) for m in med)
            if not med:
                if real["align"][i] == real["align"][i]:
                    return ("align-empty", f"particle {i} has no neighbours but alignment {real['align'][i]!r} (expected nan)")
                continue
            want = sum(med) / len(med)
            if not near(real["align"][i], float(want), 1e-9):
                return ("align-def", f"alignment[{i}]={real['align'][i]!r} != mean neighbour dot product {float(want)!r}")
        if s1 != 0:
            if not (-1 - 1e-9 <= real["pq"] <= 1 + 1e-9):
                return ("pq-bounds", f"phase quotient {real['pq']!r} outside [-1, 1]")
            if not near(real["pq"], float(s0 / s1), 1e-9):
                return ("pq-def", f"phase quotient {real['pq']!r} != Σ e_i·e_j / Σ|e_i·e_j| = {float(s0 / s1)!r}")
        elif real["pq"] == real["pq"]:
            return ("pq-zero", f"all neighbour products vanish but phase quotient is {real['pq']!r} (expected nan)")
        return None
    if op == "dc":
        d, N = c["d"], c["N"]
        H = fx(c["H"]); Hinv = o_inverse(H)
        ppp = [int(x) for x in c["ppp"]]
        pos, v = fx(c["pos"]), fx(c["v"])
        if (real["curl"] is None) != (d == 2):
            return ("curl-shape", f"curl returned in {d}D: {real['curl']!r}")
        for i in range(N):
            nbr = c["nb"][i]
            if not nbr:
                if real["div"][i] == real["div"][i]:
                    return ("div-empty", f"particle {i} has no neighbours but divergence {real['div'][i]!r}")
                continue
            dsum = Fraction(0)
            csum = [Fraction(0)] * 3
            marg = Fraction(1)
            for j in nbr:
                r, m = o_minimg([pos[j][k] - pos[i][k] for k in range(d)], H, Hinv, ppp)
                marg = min(marg, m)
                u = [v[j][k] - v[i][k] for k in range(d)]
                dsum += sum(a * b for a, b in zip(r, u))
                if d == 3:
                    csum = [csum[0] + r[1] * u[2] - r[2] * u[1], csum[1] + r[2] * u[0] - r[0] * u[2], csum[2] + r[0] * u[1] - r[1] * u[0]]
            if marg < Fraction(1, 10 ** 6):
                continue
            if not near(real["div"][i], float(dsum / len(nbr)), 1e-9):
                return ("div-def", f"divergence[{i}]={real['div'][i]!r} != mean r_ij·u_ij = {float(dsum / len(nbr))!r}")
            if d == 3:
                for k in range(3):
                    if not near(real["curl"][i][k], float(csum[k] / len(nbr)), 1e-9):
                        return ("curl-def", f"curl[{i}][{k}]={real['curl'][i][k]!r} != mean (r_ij×u_ij)_{k} = {float(csum[k] / len(nbr))!r}")
        if c["conf"] == "lattice" and c["field"] == "linear" and all(p == 0 for p in ppp):
            A = fx(c["A"]); a = Fraction(c["a"]); i = c["centre"]
            want = a * a * sum(A[k][k] for k in range(d)) / d
            if not near(real["div"][i], float(want), 1e-9):
                return ("div-linear", f"linear field u=A·r on a symmetric shell: divergence {real['div'][i]!r} != a²·trA/d = {float(want)!r}")
            if d == 3:
                rot = [A[2][1] - A[1][2], A[0][2] - A[2][0], A[1][0] - A[0][1]]
                for k in range(3):
                    if not near(real["curl"][i][k], float(a * a * rot[k] / 3), 1e-9):
                        return ("curl-linear", f"linear field on a symmetric shell: curl[{k}] {real['curl'][i][k]!r} != a²·(∇×u)_{k}/3 = {float(a * a * rot[k] / 3)!r}")
        return None
    if op == "vib":
        N, M, rows = c["N"], c["M"], c["rows"]
        d = rows // N
        w, E = [Fraction(x) for x in c["w"]], fx(c["E"])
        for p in range(N):
            want = sum(sum(E[p * d + k][i] ** 2 for k in range(d)) / (w[i] * w[i]) for i in range(M))
            if not near(real["vib"][p], float(want), 1e-9):
                return ("vib-def", f"vibrability[{p}]={real['vib'][p]!r} != Σ_modes |e_p|²/ω² = {float(want)!r}")
        if "saved" in real and not all(near(a, b, 1e-12) for a, b in zip(real["saved"], real["vib"])):
            return ("vib-file", "saved .npy differs from the returned array")
        return None
    if op == "dec":
        return _mon_dec(c, real, c["pos"], c["v"])
    if op == "corr":
        return _mon_corr(c, real)
    return None


def _mon_dec(c, real, pos, v):
    d = c["d"]
    if real["cols"] != real["want"]:
        return ("dec-columns", f"columns {real['cols']} != {real['want']}")
    orc = o_dft(c, pos, v)
    if len(real["rows"]) != len(c["q"]):
        return ("dec-rows", f"{len(real['rows'])} rows for {len(c['q'])} wave vectors")
    groups = {}
    for n, (row, (Fk, q)) in enumerate(zip(real["rows"], orc)):
        qn, u, Tp, Lp = o_split(Fk, q)
        Fr = [row[f"FFT{k}"] for k in range(d)]
        Tr = [row[f"T_FFT{k}"] for k in range(d)]
        Lr = [row[f"L_FFT{k}"] for k in range(d)]
        for k in range(d):
            if not near(row[f"q{k}"], q[k]):
                return ("dec-q", f"wave vector {n}: q{k}={row[f'q{k}']!r} != 2π n/L = {q[k]!r}")
            if not near(Fr[k], Fk[k]):
                return ("dec-fft", f"wave vector {n}: FFT{k}={Fr[k]!r} != N^-1/2 Σ A e^(-iq·r) = {Fk[k]!r}")
        if not near(row["q"], qn):
            return ("dec-qnorm", f"wave vector {n}: q={row['q']!r} != |q|={qn!r}")
        # the property statement: L ∥ q, q·T = 0, L + T = F, S = S_L + S_T
        coef = sum(a * b for a, b in zip(u, Lr))
        for k in range(d):
            if not near(Lr[k], u[k] * coef):
                return ("dec-L-parallel", f"wave vector {n} {c['q'][n]}: longitudinal part {Lr} is not parallel to q̂={u}")
        if not near(sum(a * b for a, b in zip(u, Tr)), 0):
            return ("dec-T-orthogonal", f"wave vector {n} {c['q'][n]}: q̂·T = {sum(a * b for a, b in zip(u, Tr))!r} != 0")
        for k in range(d):
            if not near(Lr[k] + Tr[k], Fr[k]):
                return ("dec-sum", f"wave vector {n}: L+T = {Lr[k] + Tr[k]!r} != FFT{k} = {Fr[k]!r}")
        S, ST, SL = row["Sq"].real, row["Sq_T"].real, row["Sq_L"].real
        if not near(S, sum(abs(x) ** 2 for x in Fr)):
            return ("dec-S", f"wave vector {n}: Sq={S!r} != Σ|FFT|²")
        if not near(ST, sum(abs(x) ** 2 for x in Tr)):
            return ("dec-ST", f"wave vector {n}: Sq_T={ST!r} != Σ|T_FFT|²")
        if not near(SL, sum(abs(x) ** 2 for x in Lr)):
            return ("dec-SL", f"wave vector {n}: Sq_L={SL!r} != Σ|L_FFT|²")
        if not near(S, SL + ST):
            return ("dec-pythagoras", f"wave vector {n} {c['q'][n]}: S={S!r} != S_L+S_T={SL + ST!r}")
        for k in range(d):
            if not near(Lr[k], Lp[k]) or not near(Tr[k], Tp[k]):
                return ("dec-split", f"wave vector {n}: split differs from q̂(q̂·F): L={Lr} T={Tr} expected L={Lp} T={Tp}")
        key = sum(Fraction(c["q"][n][k]) ** 2 / Fraction(c["L"][k]) ** 2 for k in range(d))
        groups.setdefault(key, []).append((qn, S, ST, SL))
    if real["ave_cols"] != ["q", "Sq", "Sq_T", "Sq_L"]:
        return ("dec-ave-columns", f"columns {real['ave_cols']}")
    if _guard_groups(groups):
        want = [[g[0][0]] + [sum(x[j] for x in g) / len(g) for j in (1, 2, 3)] for _, g in sorted(groups.items())]
        bad = _match_rows(real["ave"], want)
        if bad:
            return ("dec-ave", "wave-number averages: " + bad)
        for row in real["ave"]:
            if not near(row[1], row[2] + row[3]):
                return ("dec-ave-pythagoras", f"averaged spectra at q={row[0]!r}: S={row[1]!r} != S_T+S_L={row[2] + row[3]!r}")
        if "saved" in real:
            if real["saved_cols"] != ["q", "Sq", "Sq_T", "Sq_L"] or _match_rows(real["saved"], real["ave"]):
                return ("dec-file", "saved csv differs from the returned averages")
    return None


def _guard_groups(groups):
    """are the |q| groups safely separated and away from a round(8) tie?"""
    keys = sorted(groups)
    for a, b in zip(keys, keys[1:]):
        if (b - a) / b < Fraction(1, 10 ** 4):
            return False
    for k in keys:
        q = 2 * math.pi * math.sqrt(float(k)) * 1e8
        if abs((q - math.floor(q)) - 0.5) < TIE_MIN:
            return False
    return True


def _match_rows(got, want, tol=MON_TOL):
    if len(got) != len(want):
        return f"{len(got)} rows, expected {len(want)}"
    used = set()
    for w in want:
        hit = None
        for j, g in enumerate(got):
            if j not in used and near(g[0], w[0], 1e-6):
                hit = j
                break
        if hit is None:
            return f"no row with key {w[0]!r}"
        used.add(hit)
        if len(got[hit]) != len(w) or not all(near(a, b, tol) for a, b in zip(got[hit], w)):
            return f"row {got[hit]} != expected {w}"
    return None


CORR_MIN = 1e-2     # rows whose zero-lag correlation is smaller are not judged (0/0 after rounding)


def _mon_corr(c, real):
    d, T = c["d"], c["T"]
    nq = len(c["q"])
    if real["keys"] != ["FFT", "T_FFT", "L_FFT"]:
        return ("corr-keys", f"keys {real['keys']}")
    per = [o_dft(c, c["pos"][n], c["v"][n]) for n in range(T)]
    lin = is_linear(c["ts"])
    tcol = [(t - c["ts"][0]) * float(c["dt"]) for t in c["ts"]]
    groups = {}
    for n in range(nq):
        key = sum(Fraction(c["q"][n][k]) ** 2 / Fraction(c["L"][k]) ** 2 for k in range(d))
        for t in range(T):
            Fk, q = per[t][n]
            qn, u, Tp, Lp = o_split(Fk, q)
            groups.setdefault(key, []).append((qn, sum(abs(x) ** 2 for x in Fk), sum(abs(x) ** 2 for x in Tp), sum(abs(x) ** 2 for x in Lp)))
    for h, sel in (("FFT", 0), ("T_FFT", 1), ("L_FFT", 2)):
        tab = real[h]
        if len(tab) != nq or any(len(r) != d + 1 + T for r in tab):
            return ("corr-shape", f"{h}: table shape {len(tab)}x{len(tab[0]) if tab else 0}, expected {nq}x{d + 1 + T}")
        cols = real[h + "_cols"]
        if cols[:d + 1] != [f"q{i}" for i in range(d)] + ["q"] or not all(near(a, b, 1e-9) for a, b in zip(cols[d + 1:], tcol)):
            return ("corr-columns", f"{h}: columns {cols} (lag times expected {tcol})")
        if not all(near(a, b, 1e-12) for ra, rb in zip(tab, real[h + "_npy"]) for a, b in zip(ra, rb)):
            return ("corr-file", f"{h}: saved .npy differs from the returned table")
        for n in range(nq):
            series = []
            for t in range(T):
                Fk, q = per[t][n]
                qn, u, Tp, Lp = o_split(Fk, q)
                series.append((Fk, Tp, Lp)[sel])
            Fk0, q0 = per[0][n]
            for k in range(d):
                if not near(tab[n][k], q0[k]):
                    return ("corr-q", f"{h}: row {n} q{k}={tab[n][k]!r} != {q0[k]!r}")
            if not near(tab[n][d], math.sqrt(sum(x * x for x in q0))):
                return ("corr-qnorm", f"{h}: row {n} |q|={tab[n][d]!r}")
            raw = o_corr(series, lin)
            if raw[0] < CORR_MIN:
                continue
            for t in range(T):
                if not near(tab[n][d + 1 + t], raw[t] / raw[0], 2e-5):
                    return ("corr-def", f"{h}: wave vector {n} {c['q'][n]} lag {t}: {tab[n][d + 1 + t]!r} != "
                            f"normalised {'origin-averaged' if lin else 'first-frame'} correlation {raw[t] / raw[0]!r}")
    if real["spectra_cols"] != ["q", "Sq", "Sq_T", "Sq_L"]:
        return ("corr-spectra-columns", f"{real['spectra_cols']}")
    if _guard_groups(groups):
        want = [[g[0][0]] + [sum(x[j] for x in g) / len(g) for j in (1, 2, 3)] for _, g in sorted(groups.items())]
        bad = _match_rows(real["spectra"], want)
        if bad:
            return ("corr-spectra", "frame-averaged spectra: " + bad)
        for row in real["spectra"]:
            if not near(row[1], row[2] + row[3]):
                return ("corr-spectra-pythagoras", f"spectra at q={row[0]!r}: S={row[1]!r} != S_T+S_L={row[2] + row[3]!r}")
    return None


# ----------------------------------------------------------------------------- model vs real

def _num(tok):
    return float("nan") if tok == "nan" else float(Fraction(tok))


def _cl(a, b, tol):
    return common.close(a, b, tol, tol)


def compare(c, line, real):
    """(skipped?, disagreement or None, nontrivial?)"""
    op = c["op"]
    if line == "bad-op":
        raise common.Infra("driver rejected op: " + op_line(c)[:200])
    if op == "pr":
        impl, spec = [_num(t) for t in line.split()]
        zero = all(Fraction(x) == 0 for row in c["v"] for x in row)
        if zero:
            return False, (None if real["pr"] != real["pr"] else f"zero field: real {real['pr']!r}, expected nan"), False
        if not _cl(impl, real["pr"], EXACT_TOL) or not _cl(spec, real["pr"], EXACT_TOL):
            return False, f"PR real {real['pr']!r} vs model impl {impl!r} spec {spec!r}", True
        return False, None, True
    if op == "nb":
        toks = line.split()
        N = c["N"]
        al = [_num(t) for t in toks[:N]]
        s0, s1 = Fraction(toks[N]), Fraction(toks[N + 1])
        for i in range(N):
            if not _cl(al[i], real["align"][i], EXACT_TOL):
                return False, f"alignment[{i}] real {real['align'][i]!r} vs model {al[i]!r}", True
        pq = float("nan") if s1 == 0 else float(s0 / s1)
        if not _cl(pq, real["pq"], EXACT_TOL):
            return False, f"phase quotient real {real['pq']!r} vs model {pq!r}", True
        return False, None, any(len(r) > 0 for r in c["nb"])
    if op == "dc":
        toks = line.split()
        if Fraction(toks[0]) < Fraction(1, 10 ** 6):
            return True, None, False
        N, d = c["N"], c["d"]
        div = [_num(t) for t in toks[1:1 + N]]
        for i in range(N):
            if not _cl(div[i], real["div"][i], EXACT_TOL):
                return False, f"divergence[{i}] real {real['div'][i]!r} vs model {div[i]!r}", True
        if d == 3:
            cu = [_num(t) for t in toks[1 + N:]]
            if real["curl"] is None or isinstance(real["curl"], str):
                return False, f"3D curl missing: {real['curl']!r}", True
            for i in range(N):
                for k in range(3):
                    if not _cl(cu[3 * i + k], real["curl"][i][k], EXACT_TOL):
                        return False, f"curl[{i}][{k}] real {real['curl'][i][k]!r} vs model {cu[3 * i + k]!r}", True
        elif real["curl"] is not None:
            return False, f"2D call returned a curl: {real['curl']!r}", True
        return False, None, any(len(r) > 0 for r in c["nb"])
    if op == "vib":
        vals = [_num(t) for t in line.split()]
        N = c["N"]
        for p in range(N):
            if not _cl(vals[p], real["vib"][p], EXACT_TOL) or not _cl(vals[N + p], real["vib"][p], EXACT_TOL):
                return False, f"vibrability[{p}] real {real['vib'][p]!r} vs model impl {vals[p]!r} spec {vals[N + p]!r}", True
        return False, None, True
    if op == "dec":
        parts = [p.split() for p in line.split("|")]
        margin, gap = bits2float(parts[0][0]), bits2float(parts[0][1])
        if margin < TIE_MIN or gap < GAP_MIN:
            return True, None, False
        d, nq = c["d"], len(c["q"])
        if real["cols"] != real["want"]:
            return False, f"columns {real['cols']}", True
        gi = parts.index(["G"])
        rows, groups = parts[1:gi], parts[gi + 1:]
        for n in range(nq):
            m = [bits2float(t) for t in rows[n]]
            it = iter(m)
            want = {}
            for k in range(d):
                want[f"q{k}"] = next(it)
            want["q"] = next(it); want["Sq"] = next(it)
            for pre in ("FFT", "T_FFT"):
                for k in range(d):
                    want[f"{pre}{k}"] = complex(next(it), next(it))
                if pre == "T_FFT":
                    want["Sq_T"] = next(it)
            for k in range(d):
                want[f"L_FFT{k}"] = complex(next(it), next(it))
            want["Sq_L"] = next(it)
            for col, w in want.items():
                r = real["rows"][n][col]
                if not (_cl(complex(r).real, complex(w).real, FLOAT_TOL) and _cl(complex(r).imag, complex(w).imag, FLOAT_TOL)):
                    return False, f"wave vector {n} column {col}: real {r!r} vs model {w!r}", True
        gm = [[bits2float(t) for t in g] for g in groups]
        bad = _match_rows(real["ave"], gm, FLOAT_TOL)
        if bad:
            return False, "averaged spectra: " + bad, True
        return False, None, any(Fraction(x) != 0 for row in c["v"] for x in row)
    if op == "corr":
        parts = [p.split() for p in line.split("|")]
        margin, gap, lin = bits2float(parts[0][0]), bits2float(parts[0][1]), parts[0][2] == "1"
        if margin < TIE_MIN or gap < GAP_MIN:
            return True, None, False
        d, nq, T = c["d"], len(c["q"]), c["T"]
        if lin != is_linear(c["ts"]):
            return False, f"model linear={lin} for timesteps {c['ts']}", True
        tcol = [bits2float(t) for t in parts[1]]
        iG, iF, iT, iL = parts.index(["G"]), parts.index(["F"]), parts.index(["T"]), parts.index(["L"])
        blocks = {"FFT": parts[iF + 1:iT], "T_FFT": parts[iT + 1:iL], "L_FFT": parts[iL + 1:]}
        judged = 0
        for h, blk in blocks.items():
            if h not in real:
                return False, f"missing table {h}", True
            tab = real[h]
            if len(tab) != nq or any(len(r) != d + 1 + T for r in tab):
                return False, f"{h}: table shape", True
            if not all(_cl(a, b, EXACT_TOL) for a, b in zip(real[h + "_cols"][d + 1:], tcol)):
                return False, f"{h}: lag times {real[h + '_cols'][d + 1:]} vs model {tcol}", True
            for n in range(nq):
                m = [bits2float(t) for t in blk[n]]
                if not m[0] >= CORR_MIN:
                    continue
                judged += 1
                for t in range(T):
                    if not _cl(tab[n][d + 1 + t], m[1 + t], 2e-5):
                        return False, f"{h}: wave vector {n} lag {t}: real {tab[n][d + 1 + t]!r} vs model {m[1 + t]!r}", True
        gm = [[bits2float(t) for t in g] for g in parts[iG + 1:iF]]
        bad = _match_rows(real["spectra"], gm, FLOAT_TOL)
        if bad:
            return False, "frame-averaged spectra: " + bad, True
        return False, None, judged > 0
    raise ValueError(op)


def classify(c):
    op = c["op"]
    s = f"{op}:d{c.get('d', '-')}:{c.get('field', '-')}"
    if op == "dc":
        s += f":{c['conf']}:{c['cell']}:ppp{''.join(c['ppp'])}"
    if op == "corr":
        s += f":T{c['T']}:{c['style']}"
    return s


def run_cases(run, cases):
    outs = common.drive([op_line(c) for c in cases])
    disagreements, monitor_fail = [], []
    skipped = 0
    for c, o in zip(cases, outs):
        run.hist("routine", c["op"]); run.hist("field", c.get("field", "-")); run.hist("dim", c.get("d", "-"))
        if c["op"] == "dc":
            run.hist("cell", c["cell"]); run.hist("mask", "".join(c["ppp"])); run.hist("configuration", c["conf"])
        if c["op"] == "corr":
            run.hist("series", f"T{c['T']}:{c['style']}")
        if c["op"] in ("dec", "corr"):
            run.hist("wave_vectors", len(c["q"]))
        try:
            real = real_out(c)
        except Exception as e:  # the real code raised on a well-formed input
            disagreements.append((c, f"real code raised {type(e).__name__}: {e}"))
            continue
        skip, why, nontrivial = compare(c, o, real)
        if skip:
            skipped += 1
            continue
        run.count(op_line(c), nontrivial, sample={"op": op_line(c)[:300], "model": o[:200], "class": classify(c)})
        if why:
            disagreements.append((c, why))
        mf = monitors(c, real)
        if mf:
            monitor_fail.append((c, f"{mf[0]}: {mf[1]}"))
    run.coverage["skipped_inside_margin"] = run.coverage.get("skipped_inside_margin", 0) + skipped
    return disagreements, monitor_fail


QUICK = {"pr": 150, "nb": 150, "dc": 250, "vib": 100, "dec": 250, "corr": 120}
THOROUGH = {"pr": 1500, "nb": 1500, "dc": 2500, "vib": 800, "dec": 2500, "corr": 1000}


def correspond(run):
    plan = QUICK if run.tier == "quick" else THOROUGH
    cases = common.load_corpus(PROP)
    for op, n in plan.items():
        for i in range(n):
            cases.append(gen_case(run.rng, op, edge=(i % 8 == 7)))
    dis, mon = run_cases(run, cases)
    run.coverage["traces_validated_against_impl"] = run.coverage["evaluations"]
    broken = []
    for op in GEN:
        d = [(c, r) for c, r in dis if c["op"] == op]
        m = [(c, r) for c, r in mon if c["op"] == op]
        if d:
            broken.append({"kind": "correspondence", "name": f"Pms.Vec~vector.py:{op}",
                           "detail": f"{len(d)} cases disagree; first: {d[0][1][:300]}", "cases": [c for c, _ in d[:20]]})
        if m:
            broken.append({"kind": "monitor", "name": f"C15 monitors on real output:{op}",
                           "detail": f"{len(m)} monitor failures; first: {m[0][1][:300]}", "cases": [c for c, _ in m[:20]]})
    return broken


# ----------------------------------------------------------------------------- search / replay

def failing(c):
    """does the REAL code contradict the property statement on this input?  → (name, message) or None"""
    try:
        real = real_out(c)
    except Exception as e:
        return ("raises", f"{c['op']}: real code raised {type(e).__name__}: {e}")
    return monitors(c, real)


def shrink(c):
    """smaller input that still fails (same clause)"""
    base = failing(c)
    if not base:
        return c
    best = c

    def ok(cand):
        f = failing(cand)
        return f and f[0] == base[0]
    if c["op"] in ("dec", "corr") and len(c["q"]) > 1:
        for qv in c["q"]:
            cand = dict(best, q=[qv])
            if ok(cand):
                best = cand
                break
    if c["op"] == "corr" and c["T"] > 2:
        for T in range(2, c["T"]):
            cand = dict(best, T=T, ts=c["ts"][:T], pos=c["pos"][:T], v=c["v"][:T])
            if ok(cand):
                best = cand
                break
    if c["op"] in ("nb", "dc"):
        cand = dict(best, nb=[r[:1] for r in best["nb"]])
        if cand.get("conf") == "lattice":        # the trimmed table no longer has the symmetric shell
            cand["conf"] = "random"
        if cand["nb"] != best["nb"] and ok(cand):
            best = cand
    if c["op"] == "dec" and best.get("save"):
        cand = dict(best, save=False)
        if ok(cand):
            best = cand
    return best


def search(run, broken):
    unexplained = []
    tried = 0
    budget = 1500 if run.tier == "quick" else 8000
    for b in broken:
        op = b["name"].rsplit(":", 1)[-1] if b["name"].rsplit(":", 1)[-1] in GEN else None
        pool = list(b.get("cases", []))
        found = False
        extra = 0
        while not found:
            if not pool:
                if extra >= budget // max(1, len(broken)):
                    break
                pool = [gen_case(run.rng, op, edge=(i % 8 == 7)) for i in range(50)]
                extra += 50
            c = pool.pop(0)
            tried += 1
            why = failing(c)
            if why:
                c2 = shrink(c)
                why2 = failing(c2) or why
                run.violation(f"C15:{c2['op']}:{why2[0]}", why2[1], {"case": c2, "broken": b["name"]})
                found = True
        if not found:
            unexplained.append(b)
    run.coverage["search_cases"] = tried
    return unexplained


def replay(run, rp):
    if "case" in rp:
        return bool(failing(rp["case"]))
    dis, mon = run_cases(run, rp.get("cases", []))
    return bool(dis or mon)
