"""C14 — time correlation (`time_correlation`).  Tie = translator (detection, six branches, normalisation index,
time-axis term regenerated as data; the theorems of Props/C14 are about the interpreter applied to that data) +
correspondence (real routine vs the interpreter run on the regenerated program, exact ℚ) + monitors of the
property statement on the real output.  Failing-input search = real routine vs the Spec (driver `spec` mode)."""
import logging
import os
import shutil
import tempfile
import warnings
from fractions import Fraction

import numpy as np

import common
from common import dec, fr

PROP = "C14"
PROPS_FILES = ["Pms/Props/C14.lean"]
GENERATORS = ["timecorr"]
RULE = ("seeded generator over shape (T,N) / (T,N,d) / (T,N,d,d) × real/complex × T∈1..8 × N∈1..4 × d∈1..3 × timesteps "
        "{even step, all equal, uneven increasing, powers of two, non-monotone} × dt, decimal-grid values (2 decimals), plus a "
        "malformed/edge stream (lag-0 sum exactly zero → division by zero; len(shape) ∉ {2,3,4} → ValueError; T = 1); a case is "
        "non-trivial when T ≥ 2 and some lag k ≥ 1 differs from the lag-0 value by more than 1e-6; distinct = distinct literal inputs")
TRUSTED_BASE = [
    "Lean 4.33 kernel; axioms propext, Classical.choice, Quot.sound only; decide +kernel over the regenerated branch table",
    "translator/gens/timecorr.py (AST of time_corr.py → Pms.Gen.TimeCorr.program: detection, loop nests, conjugated operand, frame/slot "
    "indices, counts placement, normalisation index, time-axis term) is trusted to describe the statements it recognises; it raises "
    "Unrecognised on any other shape, and its output is validated on every run by running the interpreter on it against the real routine",
    "numpy primitives by contract: elementwise `*`, np.conj, .sum(), .real, np.trace(np.matmul(·,·)), complex→float store keeps the real part "
    "(ComplexWarning), np.diff, Python set() on integer differences, np.column_stack, pandas DataFrame; float64 ≈ ℝ (compared at 1e-9 under a "
    "conditioning guard |lag-0 value| ≥ 1e-4·Σ|entries|²)",
    "tensor series: 'product' in the property is read as the traced matrix product Σ_ab A[a,b]·conj(B[b,a]) (what np.trace(np.matmul(A, conj B)) "
    "computes), not the Frobenius product; they coincide for symmetric/Hermitian-transpose-invariant tensors such as the nematic Q tensor",
    "lag-0 sum = 0 is excluded by hypothesis in the theorems; the real routine then returns NaN/inf without raising (covered by the edge stream)",
]

logging.disable(logging.INFO)

KIND = {2: "scalar", 3: "vector", 4: "tensor"}


# ----------------------------------------------------------------------------- real code

def _snapshots(ts, N):
    from PyMatterSim.reader.reader_utils import SingleSnapshot, Snapshots
    z = np.zeros((N, 2))
    one = [SingleSnapshot(timestep=int(t), nparticle=N, particle_type=np.ones(N, dtype=int), positions=z,
                          boxlength=np.ones(2), boxbounds=np.zeros((2, 2)), realbounds=np.zeros((2, 2)), hmatrix=np.eye(2))
           for t in ts]
    return Snapshots(nsnapshots=len(ts), snapshots=one)


def shape_of(c):
    T, N, d1, d2, L = c["T"], c["N"], c["d1"], c["d2"], c["shapeLen"]
    if L == 1:
        return (T,)
    if L == 2:
        return (T, N)
    if L == 3:
        return (T, N, d1)
    if L == 4:
        return (T, N, d1, d2)
    return (T, N, d1, d2) + (1,) * (L - 4)


def is32(c):
    """a complex series held in single precision (FFT output, a file read as complex64): only for the integer-valued stream, whose
    values and lag sums are exact in 32-bit floats; half of those cases, chosen from the values (reproducible)"""
    import zlib
    return bool(c.get("flavour") == "int" and c["cplx"] and not c.get("amp") and zlib.crc32(repr(c["vals"]).encode()) % 2 == 0)


def condition_of(c):
    vals = [float(Fraction(v)) for v in c["vals"]]
    if c["cplx"]:
        arr = np.array([complex(vals[2 * i], vals[2 * i + 1]) for i in range(len(vals) // 2)], dtype=(np.complex64 if is32(c) else complex))
    else:
        arr = np.array(vals, dtype=float)
        if c.get("flavour") == "int" and not c.get("amp") and all(v == int(v) for v in vals) and len(vals) % 2 == 0:
            arr = arr.astype(np.int64)          # an integer-valued real series held in an integer array (counts, 0/1 indicators)
    if c["shapeLen"] == 1:
        arr = arr[: c["T"]] if arr.size >= c["T"] else np.zeros(c["T"])
        return arr.reshape((c["T"],))
    return arr.reshape(shape_of(c))


def real_out(c):
    """-> ("ok", columns, t, corr) | ("raise", ErrName, message)"""
    from PyMatterSim.dynamic.time_corr import time_correlation
    snaps = _snapshots([int(t) for t in c["ts"]], c["N"])
    cond = condition_of(c)
    tmp = tempfile.mkdtemp(prefix="c14-") if c.get("csv") else None
    out = os.path.join(tmp, "tc.csv") if tmp else ""
    try:
        with warnings.catch_warnings():
            warnings.simplefilter("ignore")
            with np.errstate(all="ignore"):
                df = time_correlation(snaps, cond, dt=float(Fraction(c["dt"])), outputfile=out)
        v = np.asarray(df.values, dtype=float)
        res = ["ok", list(df.columns), v[:, 0].copy(), v[:, 1].copy(), None]
        if tmp:
            import pandas as pd
            back = pd.read_csv(out)
            w = np.asarray(back.values, dtype=float)
            with np.errstate(all="ignore"):
                # "%.8f": half a unit of the 8th decimal, plus two ulps of the value itself (a time of 5e7 has no 8th decimal in float64)
                same = list(back.columns) == list(df.columns) and w.shape == v.shape and bool(
                    np.all((np.abs(w - v) <= 0.6e-8 + 4.5e-16 * np.abs(v)) | (np.isnan(w) & np.isnan(v)) | (np.isinf(w) & (w == v))))
            res[4] = same
        return tuple(res)
    except Exception as e:  # noqa: BLE001
        return ("raise", type(e).__name__, str(e)[:200])
    finally:
        if tmp:
            shutil.rmtree(tmp, ignore_errors=True)


# ----------------------------------------------------------------------------- generator

def gen_ts(rng, T, style):
    s0 = rng.choice([0, 0, rng.randint(0, 5000)])
    if style == "even":
        h = rng.choice([1, 2, 5, 10, 100, rng.randint(1, 999)])
        return [s0 + h * k for k in range(T)]
    if style == "nearly":
        # huge gaps that differ by a few steps (1e-6 relative): still NOT evenly spaced — exactness of the spacing test
        h = rng.choice([1000000, 2500000, 40000000])
        out = [s0 + h * k for k in range(T)]
        if T >= 3:
            j = rng.randrange(2, T)
            out[j:] = [x + rng.choice([1, 2, 4, -3]) for x in out[j:]]
        return out
    if style == "equal":
        return [s0] * T
    if style == "pow2":
        return [s0 + (2 ** k - 1) * rng.choice([1, 10]) for k in range(T)]
    if style == "nonmono":
        out = [s0 + rng.randint(0, 50) for _ in range(T)]
        return out
    out = [s0]
    for _ in range(T - 1):
        out.append(out[-1] + rng.randint(1, 40))
    return out


def gen_case(rng, stream="main"):
    L = rng.choice([2, 3, 4])
    T = rng.choice([1, 2, 2, 3, 3, 4, 4, 5, 6, 7, 8])
    N = rng.randint(1, 4)
    d = rng.randint(1, 3)
    d1, d2 = (1, 1) if L == 2 else ((d, 1) if L == 3 else (d, d))
    cplx = rng.choice([0, 1])
    style = rng.choice(["even", "even", "even", "uneven", "uneven", "pow2", "equal", "nonmono", "nearly"])
    ts = gen_ts(rng, T, style)
    dt = rng.choice(["0.002", "0.002", "1", "0.5", dec(rng, 0.001, 2, 3)])
    n = T * N * d1 * d2 * (2 if cplx else 1)
    flavour = rng.choice(["dense", "dense", "dense", "sparse", "int", "symmetric"])
    if stream == "div0":
        # lag-0 sum exactly zero with integer data (float arithmetic exact): all zero, or nilpotent tensors
        vals = ["0"] * n
        if L == 4 and d1 >= 2 and rng.random() < 0.6:
            cplx = 0
            n = T * N * d1 * d2
            vals = ["0"] * n
            for t in range(T):
                for i in range(N):
                    vals[((t * N + i) * d1 + 0) * d2 + 1] = str(rng.randint(-3, 3))
        flavour = "div0"
    elif stream == "badshape":
        L = rng.choice([1, 5])
        d1 = d2 = 1
        n = T * N * (2 if cplx else 1)
        vals = [dec(rng, -2, 2, 2) for _ in range(n)]
    else:
        if flavour == "int":
            vals = [str(rng.randint(-3, 3)) for _ in range(n)]
        elif flavour == "sparse":
            vals = [dec(rng, -2, 2, 2) if rng.random() < 0.4 else "0" for _ in range(n)]
        else:
            vals = [dec(rng, -2, 2, 2) for _ in range(n)]
        if flavour == "symmetric" and L == 4:
            w = 2 if cplx else 1
            for t in range(T):
                for i in range(N):
                    for a in range(d1):
                        for b in range(a):
                            p = ((t * N + i) * d1 + a) * d2 + b
                            q = ((t * N + i) * d1 + b) * d2 + a
                            for r in range(w):
                                vals[w * p + r] = vals[w * q + r]
    amp = 0
    if stream == "main" and rng.random() < 0.25:
        # another unit of the quantity: every value × 10^amp — the normalised correlation does not depend on it, so an absolute
        # guard / threshold hidden in a denominator shows up here
        amp = rng.choice([-7, -5, 6, -9])
        vals = [v if v == "0" else f"{v}e{amp}" for v in vals]
    return {"shapeLen": L, "T": T, "N": N, "d1": d1, "d2": d2, "cplx": cplx, "dt": dt, "ts": [str(t) for t in ts],
            "vals": vals, "stream": stream, "style": style, "flavour": flavour, "csv": rng.random() < 0.05, "amp": amp}


def op_line(c, mode):
    return "tcorr {} {} {} {} {} {} {} {} {} {}".format(mode, c["shapeLen"], c["T"], c["N"], c["d1"], c["d2"], c["cplx"], c["dt"],
                                                        " ".join(c["ts"]), " ".join(c["vals"]))


def parse_model(line, T):
    """-> dict(status, margin, even, t, corr)"""
    toks = line.split()
    if toks[0] == "novalue":
        return {"status": "novalue"}
    if toks[0] == "div0":
        return {"status": "div0", "even": toks[1] == "1", "t": [fr(x) for x in toks[2:2 + T]]}
    if toks[0] == "ok":
        return {"status": "ok", "margin": fr(toks[1]), "even": toks[2] == "1", "t": [fr(x) for x in toks[3:3 + T]],
                "corr": [fr(x) for x in toks[3 + T:3 + 2 * T]]}
    raise common.Infra("driver rejected op or unknown reply: " + line[:120])


def classify(c):
    return f"{KIND.get(c['shapeLen'], 'rank' + str(c['shapeLen']))}:{'complex' if c['cplx'] else 'real'}"


MARGIN = Fraction(1, 10 ** 4)


def compare(c, m, real, mode="impl"):
    """real routine vs a model reply (Impl or Spec).  Returns (verdict, what): verdict ∈ ok | skip | fail.
    In `spec` mode inputs whose lag-0 sum is zero are outside the property's hypothesis: only the time axis is judged.
    `what` is a short canonical tag (value / lag0 / time / columns / raise:<E> / noraise / finite-on-div0)."""
    T = c["T"]
    if m["status"] == "novalue":
        if real[0] == "raise" and real[1] == "ValueError":
            return "ok", ""
        return "fail", "noraise" if real[0] == "ok" else f"raise:{real[1]}"
    if real[0] == "raise":
        return "fail", f"raise:{real[1]}"
    _, cols, t, corr, csv_same = real
    if cols != ["t", "time_corr"]:
        return "fail", "columns"
    if csv_same is False:
        return "fail", "csv"
    if len(t) != T or len(corr) != T:
        return "fail", "length"
    for k in range(T):
        if not common.close(float(m["t"][k]), t[k], 1e-9):
            return "fail", "time"
    if t[0] != 0.0:
        return "fail", "time"
    if m["status"] == "div0":
        # excluded by hypothesis: 0/0; the routine must not raise; with the integer data of this stream the lag-0 entry is not finite
        if mode == "impl" and np.isfinite(corr[0]):
            return "fail", "finite-on-div0"
        return "ok", ""
    if m["margin"] < MARGIN:
        return "skip", ""
    if corr[0] != 1.0:
        return "fail", "lag0"
    for k in range(T):
        if not common.close(float(m["corr"][k]), corr[k], 2e-6 if is32(c) else 1e-9):       # the quotient is taken in the series' precision
            return "fail", "value"
    return "ok", ""


def describe(c, m, real, what):
    mode = "single frame" if c["T"] == 1 else ("evenly spaced" if _even(c) else "unevenly spaced")
    head = f"time_correlation on a {classify(c)} series shape {shape_of(c)}, timesteps {c['ts']} ({mode}), dt {c['dt']}: "
    if what.startswith("raise"):
        return head + f"raised {real[1]}: {real[2]}"
    if what == "noraise":
        return head + "returned a table although len(condition.shape) is not 2, 3 or 4"
    if real[0] != "ok":
        return head + what
    if what == "finite-on-div0":
        return head + f"the lag-0 sum is exactly 0 (0/0): the model expects a non-finite lag-0 entry, the routine returned {[float(x) for x in real[3]]}"
    if what == "value":
        exp = [float(x) for x in m["corr"]]
        return head + f"time_corr = {[float(x) for x in real[3]]} but the definition gives {exp}"
    if what == "lag0":
        return head + f"value at lag zero is {float(real[3][0])!r}, not exactly 1"
    if what == "time":
        return head + f"t = {[float(x) for x in real[2]]} but (timestep − first timestep)·dt = {[float(x) for x in m['t']]}"
    if what == "columns":
        return head + f"columns {real[1]}"
    if what == "csv":
        return head + "the CSV written to `outputfile` does not read back as the returned table (8 decimals)"
    return head + what


def run_cases(run, cases, mode="impl", record=True):
    """-> list of (case, what, description) where the real routine and the model reply differ"""
    if not cases:
        return []
    outs = common.drive([op_line(c, mode) for c in cases])
    bad = []
    skipped = 0
    for c, o in zip(cases, outs):
        if o == "bad-op":
            raise common.Infra("driver rejected op: " + op_line(c, mode)[:200])
        m = parse_model(o, c["T"])
        real = real_out(c)
        verdict, what = compare(c, m, real, mode)
        if record:
            run.hist("shape", KIND.get(c["shapeLen"], f"len{c['shapeLen']}"))
            run.hist("dtype", "complex" if c["cplx"] else "real")
            run.hist("T", c["T"])
            run.hist("amplitude_unit", "1e%d" % c.get("amp", 0))
            run.hist("N", c["N"])
            run.hist("d", c["d1"])
            run.hist("timesteps", c.get("style", "?"))
            run.hist("branch", m["status"] if m["status"] != "ok" else ("linear" if m["even"] else "single-origin"))
            if c.get("csv"):
                run.hist("outputfile", "csv written and read back")
        if verdict == "skip":
            skipped += 1
            continue
        if record:
            nontrivial = (m["status"] == "ok" and c["T"] >= 2 and any(abs(float(x) - 1.0) > 1e-6 for x in m["corr"][1:]))
            run.count(op_line(c, "x"), nontrivial,
                      sample={"op": op_line(c, mode)[:300], "model": [str(x) for x in m.get("corr", [])][:4],
                              "real": [float(x) for x in real[3][:4]] if real[0] == "ok" else real[1]})
        if verdict == "fail":
            bad.append((c, what, describe(c, m, real, what)))
    if record:
        run.coverage["skipped_inside_margin"] = run.coverage.get("skipped_inside_margin", 0) + skipped
    return bad


def gen_all(rng, n):
    cases = []
    for i in range(n):
        r = i % 20
        stream = "div0" if r == 18 else ("badshape" if r == 19 else "main")
        cases.append(gen_case(rng, stream))
    return cases


def fixed_cases():
    """T = 1, T = 2, the documented conj convention, one of each shape — always run"""
    out = []
    base = {"dt": "0.002", "stream": "fixed", "style": "fixed", "flavour": "fixed"}
    out.append(dict(base, shapeLen=2, T=1, N=2, d1=1, d2=1, cplx=0, ts=["7"], vals=["1.5", "-0.5"]))
    out.append(dict(base, shapeLen=3, T=1, N=1, d1=2, d2=1, cplx=1, ts=["0"], vals=["1", "2", "0", "-1"]))
    out.append(dict(base, shapeLen=4, T=1, N=1, d1=2, d2=2, cplx=0, ts=["3"], vals=["1", "2", "3", "4"]))
    out.append(dict(base, shapeLen=2, T=2, N=1, d1=1, d2=1, cplx=1, ts=["0", "5"], vals=["1", "0", "0", "1"]))
    # complex scalar, 3 even frames: A = 1, i, -1 : lag 1 = Re(i·1 + (−1)·conj(i))/2 = 0 ; lag 2 = −1
    out.append(dict(base, shapeLen=2, T=3, N=1, d1=1, d2=1, cplx=1, ts=["0", "1", "2"], vals=["1", "0", "0", "1", "-1", "0"]))
    # non-symmetric real tensor, uneven
    out.append(dict(base, shapeLen=4, T=3, N=1, d1=2, d2=2, cplx=0, ts=["0", "1", "3"],
                    vals=["1", "2", "0", "1", "0", "1", "3", "1", "2", "0", "1", "1"]))
    return out


def correspond(run):
    n = 900 if run.tier == "quick" else 6000
    cases = common.load_corpus(PROP) + fixed_cases() + gen_all(run.rng, n)
    bad = run_cases(run, cases, "impl")
    run.coverage["traces_validated_against_impl"] = run.coverage["evaluations"]
    broken = []
    if bad:
        broken.append({"kind": "correspondence", "name": "Pms.TimeCorr.Program.run(Gen.TimeCorr.program)~time_correlation",
                       "detail": f"{len(bad)} of {len(cases)} cases disagree; first: {bad[0][2][:300]}",
                       "cases": [c for c, _, _ in bad[:40]]})
    # the same inputs directly against the Spec (nothing regenerated on the model side): the statement of C14_refines, sampled
    bad2 = run_cases(run, cases, "spec", record=False)
    run.coverage["cases_also_judged_against_spec"] = len(cases)
    if bad2:
        broken.append({"kind": "spec-monitor", "name": "Pms.TimeCorr.spec~time_correlation",
                       "detail": f"{len(bad2)} of {len(cases)} cases contradict the Spec; first: {bad2[0][2][:300]}",
                       "cases": [c for c, _, _ in bad2[:40]]})
    return broken


# ----------------------------------------------------------------------------- search against the Spec

def failing(run, c):
    """does the REAL routine contradict the property statement (Spec, driver `spec` mode) on this input?"""
    bad = run_cases(run, [c], "spec", record=False)
    return (bad[0][1], bad[0][2]) if bad else None


def shrink(run, c):
    def variants(c):
        T, N, d1, d2, w = c["T"], c["N"], c["d1"], c["d2"], (2 if c["cplx"] else 1)
        per_frame = N * d1 * d2 * w
        if c["shapeLen"] == 1 or c["shapeLen"] > 4:
            return
        for newT in range(1, T):
            yield dict(c, T=newT, ts=c["ts"][:newT], vals=c["vals"][:newT * per_frame])
        if N > 1:
            vals = []
            for t in range(T):
                vals += c["vals"][t * per_frame: t * per_frame + d1 * d2 * w]
            yield dict(c, N=1, vals=vals)
        if c["shapeLen"] == 3 and d1 > 1:
            vals = []
            for t in range(T):
                for i in range(N):
                    p = ((t * N + i) * d1) * w
                    vals += c["vals"][p:p + w]
            yield dict(c, d1=1, vals=vals)
        yield dict(c, ts=[str(int(t) - int(c["ts"][0])) for t in c["ts"]])
        yield dict(c, dt="1")
        yield dict(c, vals=[str(int(round(float(Fraction(v))))) for v in c["vals"]])
        for j, v in enumerate(c["vals"]):
            if v not in ("0", "1"):
                yield dict(c, vals=c["vals"][:j] + ["0"] + c["vals"][j + 1:])
    best = c
    progress = True
    steps = 0
    while progress and steps < 60:
        progress = False
        for cand in variants(best):
            if cand == best:
                continue
            steps += 1
            try:
                if failing(run, cand):
                    best = cand
                    progress = True
                    break
            except common.Infra:
                continue
            if steps >= 60:
                break
    return best


def key_of(c, what, even):
    mode = "linear" if even else "single-origin"
    return f"C14:{KIND.get(c['shapeLen'], 'badshape')}:{mode}:{'complex' if c['cplx'] else 'real'}:{what}"


def _even(c):
    ts = [int(t) for t in c["ts"]]
    return len(ts) >= 2 and len(set(b - a for a, b in zip(ts, ts[1:]))) == 1


def search(run, broken):
    pool = []
    for b in broken:
        pool += list(b.get("cases", []))
    n = 400 if run.tier == "quick" else 4000
    pool += fixed_cases() + gen_all(run.rng, n)
    run.coverage["search_cases"] = len(pool)
    bad = run_cases(run, pool, "spec", record=False)
    if not bad:
        return list(broken)
    # one violation per distinct canonical key, smallest first
    seen = set()
    bad.sort(key=lambda x: (len(x[0]["vals"]), x[0]["T"]))
    for c, what, why in bad:
        k = key_of(c, what, _even(c))
        if k in seen:
            continue
        seen.add(k)
        if len(seen) > 4:
            break
        c2 = shrink(run, c)
        f2 = failing(run, c2)
        if f2 is None:
            c2, f2 = c, (what, why)
        run.violation(key_of(c2, f2[0], _even(c2)), f2[1], {"case": c2, "broken": [b["name"] for b in broken]})
    return []


def replay(run, rp):
    if "case" in rp:
        return failing(run, rp["case"]) is not None
    cases = rp.get("cases", [])
    return bool(run_cases(run, cases, "spec", record=False)) if cases else False
