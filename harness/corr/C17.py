"""C17 — local order parameters: S2 (pairentropy.py), tetrahedral q (geometric.py), nematic tensor
(nematic.py + spatial_average), gyration descriptors (shape.py).

Tie = differential correspondence of the REAL routines with the executable Lean model
(Pms/Model/LocalOrder.lean via the driver ops s2 / tetra / nematic / gyr; geometry and every discrete
decision in exact ℚ, transcendental part = the same model definitions at Float), plus monitors of the
proved statements on the real outputs.  The failing-input search compares the real routines with an
independent brute-force evaluation of the property's formulas (`oracle_*`, numpy/Fraction), never with
the model."""
import logging
import math
import os
import shutil
import tempfile
import warnings
from fractions import Fraction

import numpy as np

import common
from common import bits2float, dec, fr

PROP = "C17"
PROPS_FILES = ["Pms/Props/C17.lean", "Pms/Props/C17Real.lean", "Pms/Props/C17Src.lean"]
GENERATORS = ["localorder"]
RULE = ("four seeded streams. s2: d∈{2,3} × cell {orthogonal, lower-triangular} × mask {0,1}^d × 1–3 species with a "
        "symmetric/asymmetric width matrix × bin settings (rdelta, ndelta) × 1–2 frames; tetra: 3-D, N∈[5,12], random "
        "and tetrahedral-motif configurations (scaled/rotated diamond motif + far particles), N=5 included; nematic: "
        "rational unit-vector fields (and non-unit vectors) × eigvals on/off × no file / neighbour file (empty rows, "
        "Nmax truncation) × 1–2 frames; gyr: 2-D/3-D clouds N∈[2,12], generic, collinear, planar, symmetric. "
        "A case is judged when every discrete decision is ≥1e-6 from its flip point (rint tie, distance<rmax, 4th/5th "
        "neighbour gap, coincident particles) and, for s2, the smeared g has no zero/NaN; non-trivial = s2: a particle "
        "with ≥1 kept and ≥1 dropped neighbour or ≥2 species; tetra: N≥6; nematic: neighbour file or eigvals; gyr: N≥3; "
        "distinct = distinct literal inputs")
TRUSTED_BASE = [
    "Lean 4.33 kernel; axioms propext, Classical.choice, Quot.sound only; Mathlib Real.exp/log/sqrt/pi as the meaning of the parameters exp/log/sqrt/pi in Props",
    "np.exp, np.log, np.sqrt, np.log10, np.power, np.pi, np.linalg.norm, np.dot, np.trace, np.matmul, ndarray.mean/sum, float64≈ℝ: contracts, exercised by the correspondence at 1e-7 (transcendental) / 1e-9 (rational outputs)",
    "remove_pbc is the C02 model Pms.Pbc.removePbc (np.linalg.inv, np.rint contracts as in C02)",
    "np.argpartition(distance, k)[:k+1]: contract = some ordering of the k+1 smallest; the theorem C17_tetra_order_independent makes the order and (under a strict 4th/5th gap) the choice irrelevant; driver picks by exact sort",
    "np.linalg.eig eigenvalues: contract = roots of the characteristic polynomial (Vieta relations IsSpectrum2/IsSpectrum3); driver stand-ins: closed form (2×2), cyclic Jacobi (3×3) in Float; the exact invariants tr S, tr S², det S are additionally monitored on the real output",
    "read_neighbors (C05) supplies cnlist: contract = first min(cn,Nmax) zero-based ids of each row",
    "S2: g ln g at g = 0 is NaN in numpy but 0 in ℝ (Real.log 0 = 0): inputs whose smeared g has a zero (or no kept neighbour) are excluded and counted",
    "gyration_tensor returns complex128 numbers with zero imaginary part when np.linalg.eig meets a degenerate spectrum; compared by real part, imaginary part required ≤1e-9, counted",
    "translator/gens/localorder.py (AST walkers + expression printer of pms2lean) regenerates Pms/GenR/LocalOrder.lean; its output is consumed by the C17_src_* theorems; the recentring statement of gyration_tensor is deliberately not pinned (C18)",
    "hand-written model Pms/Model/LocalOrder.lean tied to the four source files by harness/corr/C17.py; mixed evaluation (decisions in ℚ, values in Float) is part of the harness trust",
]

MARGIN = Fraction(1, 10 ** 6)
logging.disable(logging.CRITICAL)
# numpy ≥ 2.4: np.linalg.eig always returns complex arrays; nematic.py stores them into a float array
warnings.filterwarnings("ignore", category=getattr(np, "exceptions", np).ComplexWarning)


# ----------------------------------------------------------------------------- helpers

def _snap(N, types, pos, L, H):
    from PyMatterSim.reader.reader_utils import SingleSnapshot
    d = len(L)
    bb = np.column_stack((np.zeros(d), np.array(L, dtype=float)))
    return SingleSnapshot(0, N, np.array(types, dtype=int), np.array(pos, dtype=float), np.array(L, dtype=float), bb,
                          None, np.array(H, dtype=float))


def _snaps(lst):
    from PyMatterSim.reader.reader_utils import Snapshots
    return Snapshots(len(lst), lst)


def gen_cell(rng, d, lo=2.0, hi=5.0):
    kind = rng.choice(["orth", "tri"])
    H = [["0"] * d for _ in range(d)]
    for i in range(d):
        H[i][i] = dec(rng, lo, hi, 2)
    if kind == "tri":
        for i in range(d):
            for j in range(i):
                H[i][j] = dec(rng, -1, 1, 2)
        common.sparse_tilt(rng, H)
    return kind, H


def fl(x):
    return float(Fraction(x))


def min_image(R, H, ppp):
    """float minimum image, with the smallest distance of a rint argument from a tie"""
    Hinv = np.linalg.inv(H)
    f = R @ Hinv
    tie = 1.0
    for col in range(f.shape[1]):
        if ppp[col]:
            tie = min(tie, float(np.min(np.abs(np.abs(f[:, col] - np.floor(f[:, col]) - 0.5)))) if len(f) else 1.0)
    return (f - np.rint(f) * np.array(ppp)[None, :]) @ H, tie


# ----------------------------------------------------------------------------- S2

def gen_s2(rng):
    d = rng.choice([2, 3])
    N = rng.randint(2, 9)
    K = rng.choice([1, 1, 2, 2, 3])
    kind, H = gen_cell(rng, d)
    ppp = [rng.choice(["0", "1"]) for _ in range(d)]
    if rng.random() < 0.5:
        ppp = ["1"] * d
    rdelta = dec(rng, 0.03, 0.15, 3)
    ndelta = max(3, int(rng.uniform(1.2, 3.6) / fl(rdelta)))
    sig = [[None] * K for _ in range(K)]
    sym = rng.random() < 0.6
    for a in range(K):
        for b in range(K):
            sig[a][b] = dec(rng, 0.2, 0.7, 2)
    if sym:
        for a in range(K):
            for b in range(a):
                sig[a][b] = sig[b][a]
    types = [rng.randint(1, K) for _ in range(N)]
    T = rng.choice([1, 1, 2])
    frames = [[[dec(rng, 0, fl(H[k][k]), 2) for k in range(d)] for _ in range(N)] for _ in range(T)]
    if rng.random() < 0.3:
        frames = [common.unfold_positions(rng, fr, H, ppp) for fr in frames]       # unfolded (xu) coordinates
    Hs = None
    if kind == "tri" and T >= 2 and rng.random() < 0.7:
        # a sheared trajectory: same box lengths, another tilt in every frame
        Hs = [H]
        for _ in range(T - 1):
            Ht = [row[:] for row in H]
            for i in range(d):
                for j in range(i):
                    Ht[i][j] = dec(rng, -1, 1, 2)
            Hs.append(Ht)
    return {"kind": "s2", "Hs": Hs, "d": d, "N": N, "K": K, "cell": kind, "H": H, "ppp": ppp, "rdelta": rdelta, "ndelta": ndelta,
            "sig": sig, "types": types, "frames": frames}


def ops_s2(c):
    d = c["d"]
    out = []
    for t, pos in enumerate(c["frames"]):
        Ht = c["Hs"][t] if c.get("Hs") else c["H"]
        out.append("s2 {} {} {} {} {} {} {} {} {} {} {}".format(
            d, c["N"], c["K"], c["ndelta"], c["rdelta"], " ".join(x for r in c["sig"] for x in r),
            " ".join(Ht[k][k] for k in range(d)), " ".join(x for r in Ht for x in r), " ".join(c["ppp"]),
            " ".join(str(t - 1) for t in c["types"]), " ".join(x for p in pos for x in p)))
    return out


def real_s2(c):
    from PyMatterSim.static.pairentropy import S2
    d = c["d"]
    H = [[fl(x) for x in r] for r in c["H"]]
    L = [H[k][k] for k in range(d)]
    Hs = [[[fl(x) for x in r] for r in Ht] for Ht in c["Hs"]] if c.get("Hs") else [H] * len(c["frames"])
    snaps = _snaps([_snap(c["N"], c["types"], [[fl(x) for x in p] for p in pos], L, Hs[t]) for t, pos in enumerate(c["frames"])])
    s2 = S2(snaps, np.array([[fl(x) for x in r] for r in c["sig"]]), np.array([int(x) for x in c["ppp"]]),
            rdelta=fl(c["rdelta"]), ndelta=c["ndelta"])
    with np.errstate(all="ignore"):
        return np.asarray(s2.particle_s2(), dtype=float)


real_s2 = common.with_history(real_s2)


def oracle_s2(c):
    """the property's formula evaluated directly; returns (values[T][N], ok[T][N], stats) where ok is False when a
    decision is inside the margin or the smeared g has a zero"""
    d, N = c["d"], c["N"]
    H = np.array([[fl(x) for x in r] for r in c["H"]])
    ppp = [int(x) for x in c["ppp"]]
    sig = np.array([[fl(x) for x in r] for r in c["sig"]])
    rd, nd = fl(c["rdelta"]), c["ndelta"]
    r = np.array([k * rd + rd / 2 for k in range(nd)])
    rmax = r[-1]
    rho = N / float(np.prod([H[k, k] for k in range(d)]))
    vals, oks = [], []
    for t, pos in enumerate(c["frames"]):
        if c.get("Hs"):
            H = np.array([[fl(x) for x in r] for r in c["Hs"][t]])
        P = np.array([[fl(x) for x in p] for p in pos])
        row, okrow = [], []
        for i in range(N):
            R, tie = min_image(P - P[i], H, ppp)
            dist = np.sqrt((R ** 2).sum(1))
            ok = tie > 1e-6
            g = np.zeros(nd)
            for j in range(N):
                if j == i:
                    continue
                if abs(dist[j] - rmax) < 1e-6:
                    ok = False
                if dist[j] < rmax:
                    s = sig[c["types"][i] - 1, c["types"][j] - 1]
                    g += np.exp(-(r - dist[j]) ** 2 / (2 * s * s)) / math.sqrt(2 * math.pi * s * s)
            g /= (2 * math.pi * r * rho) if d == 2 else (4 * math.pi * r * r * rho)
            if not np.all(g > 0):
                ok = False
                row.append(float("nan"))
            else:
                y = (g * np.log(g) - g + 1) * r ** (d - 1)
                integral = sum((r[k + 1] - r[k]) * (y[k + 1] + y[k]) / 2 for k in range(nd - 1))
                row.append(-(d - 1) * math.pi * rho * integral)
            okrow.append(ok)
        vals.append(row)
        oks.append(okrow)
    return vals, oks


# ----------------------------------------------------------------------------- tetrahedral

TET = [[1, 1, 1], [1, -1, -1], [-1, 1, -1], [-1, -1, 1]]


def gen_tetra(rng):
    motif = rng.random() < 0.3
    if motif:
        # centre + four tetrahedral vertices (integer rotation-free scalings keep the cosines exactly -1/3),
        # plus far particles; big orthogonal box
        Lb = rng.choice([20, 24, 30])
        H = [[str(Lb) if i == j else "0" for j in range(3)] for i in range(3)]
        cell = "orth"
        s = Fraction(rng.randint(5, 20), 10)
        cx = [Fraction(rng.randint(800, 1200), 100) for _ in range(3)]
        signs = rng.choice([1, -1])
        perm = rng.sample(range(3), 3)
        pts = [cx] + [[cx[k] + signs * s * v[perm[k]] for k in range(3)] for v in TET]
        extra = rng.randint(0, 5)
        for _ in range(extra):
            while True:
                off = [Fraction(rng.randint(-900, 900), 100) for _ in range(3)]
                if sum(float(o) ** 2 for o in off) > (float(s) * 1.8 * 1.6) ** 2:
                    break
            pts.append([cx[k] + off[k] for k in range(3)])
        pos = [["{:.2f}".format(float(x)) for x in p] for p in pts]
        ppp = [rng.choice(["0", "1"]) for _ in range(3)]
        N = len(pos)
    else:
        N = rng.choice([5, 6, 6, 7, 8, 9, 10, 12])
        cell, H = gen_cell(rng, 3, 3.0, 6.0)
        ppp = [rng.choice(["0", "1"]) for _ in range(3)]
        if rng.random() < 0.5:
            ppp = ["1"] * 3
        pos = [[dec(rng, 0, fl(H[k][k]), 2) for k in range(3)] for _ in range(N)]
        if rng.random() < 0.3:
            pos = common.unfold_positions(rng, pos, H, ppp)       # unfolded (xu) coordinates
    return {"kind": "tetra", "N": N, "cell": cell, "H": H, "ppp": ppp, "pos": pos, "motif": motif}


def ops_tetra(c):
    return ["tetra {} {} {} {}".format(c["N"], " ".join(x for r in c["H"] for x in r), " ".join(c["ppp"]),
                                       " ".join(x for p in c["pos"] for x in p))]


def real_tetra(c):
    from PyMatterSim.static.geometric import q8_tetrahedral
    H = [[fl(x) for x in r] for r in c["H"]]
    L = [H[k][k] for k in range(3)]
    sn = _snap(c["N"], [1] * c["N"], [[fl(x) for x in p] for p in c["pos"]], L, H)
    with np.errstate(all="ignore"):
        return np.asarray(q8_tetrahedral(_snaps([sn]), ppp=np.array([int(x) for x in c["ppp"]])), dtype=float)[0]


real_tetra = common.with_history(real_tetra)


def oracle_tetra(c):
    """1 - 3/32 Σ_{j<k}(cos ψ_jk + 1/3)² over the four nearest; ok False inside a margin"""
    N = c["N"]
    H = np.array([[fl(x) for x in r] for r in c["H"]])
    ppp = [int(x) for x in c["ppp"]]
    P = np.array([[fl(x) for x in p] for p in c["pos"]])
    vals, oks = [], []
    for i in range(N):
        R, tie = min_image(P - P[i], H, ppp)
        dist = np.sqrt((R ** 2).sum(1))
        others = sorted((j for j in range(N) if j != i), key=lambda j: dist[j])
        ok = tie > 1e-6 and dist[others[0]] > 1e-3
        if len(others) > 4 and dist[others[4]] - dist[others[3]] < 1e-6:
            ok = False
        nb = others[:4]
        acc = 0.0
        for a in range(4):
            for b in range(a + 1, 4):
                cs = float(R[nb[a]] @ R[nb[b]]) / (dist[nb[a]] * dist[nb[b]])
                acc += (cs + 1.0 / 3) ** 2
        vals.append(1 - 3.0 / 32 * acc)
        oks.append(ok)
    return vals, oks


# ----------------------------------------------------------------------------- nematic

def gen_nematic(rng):
    N = rng.randint(1, 8)
    T = rng.choice([1, 1, 2])
    unit = rng.random() < 0.8
    frames = []
    for _ in range(T):
        us = []
        for _ in range(N):
            if unit:
                p, q = rng.randint(-12, 12), rng.randint(1, 12)
                den = p * p + q * q
                x, y = Fraction(q * q - p * p, den), Fraction(2 * p * q, den)
                if rng.random() < 0.5:
                    x, y = -x, -y
                if rng.random() < 0.5:
                    x, y = y, x
                us.append([str(x), str(y)])
            else:
                us.append([dec(rng, -1.5, 1.5, 2), dec(rng, -1.5, 1.5, 2)])
        frames.append(us)
    hasnb = rng.random() < 0.6
    rows = None
    nmax = 30
    prior = {"nb": rng.random() < 0.6, "eig": rng.random() < 0.5} if rng.random() < 0.4 else None
    if hasnb or (prior and prior["nb"]):
        rows = []
        for _ in range(T):
            fr_rows = []
            for i in range(N):
                others = [j for j in range(N) if j != i]
                cn = rng.randint(0, len(others)) if others else 0
                fr_rows.append(rng.sample(others, cn))
            rows.append(fr_rows)
        if rng.random() < 0.3:
            nmax = rng.randint(1, 3)
    return {"kind": "nematic", "N": N, "unit": unit, "frames": frames, "hasnb": hasnb, "rows": rows, "nmax": nmax,
            "eig": rng.random() < 0.5, "prior": prior}


def ops_nematic(c, eig=None):
    eig = c["eig"] if eig is None else eig
    out = []
    for t, us in enumerate(c["frames"]):
        s = "nematic {} {} {} {} {}".format(c["N"], int(eig), int(c["hasnb"]), c["nmax"], " ".join(x for u in us for x in u))
        if c["hasnb"]:
            s += " " + " ".join("{} {}".format(len(r), " ".join(map(str, r))).strip() for r in c["rows"][t])
        out.append(s)
    return out


def real_nematic(c, eig=None):
    """returns (scalar[T][N], QIJ[T][N][2][2])"""
    from PyMatterSim.static.nematic import NematicOrder
    eig = c["eig"] if eig is None else eig
    tmp = tempfile.mkdtemp(prefix="c17nem")
    try:
        N = c["N"]
        snaps = _snaps([_snap(N, [1] * N, [[fl(x) for x in u] for u in us], [6.0, 7.0], [[6.0, 0.0], [0.0, 7.0]])
                        for us in c["frames"]])
        nf = ""
        if c["rows"] is not None:
            nf = os.path.join(tmp, "nb.dat")
            with open(nf, "w") as f:
                for fr_rows in c["rows"]:
                    f.write("id     cn     neighborlist\n")
                    for i, r in enumerate(fr_rows):
                        f.write("{} {} {}\n".format(i + 1, len(r), " ".join(str(j + 1) for j in r)))
        no = NematicOrder(snaps, None)
        if c.get("prior"):
            # call history on ONE NematicOrder object: an earlier tensor() with the other neighbour setting / eigvals flag
            with np.errstate(all="ignore"):
                no.tensor(ndim=2, neighborfile=(nf if c["prior"]["nb"] else ""), Nmax=c["nmax"], eigvals=c["prior"]["eig"],
                          outputfile=os.path.join(tmp, "nem0"))
        with np.errstate(all="ignore"):
            res = no.tensor(ndim=2, neighborfile=(nf if c["hasnb"] else ""), Nmax=c["nmax"], eigvals=eig, outputfile=os.path.join(tmp, "nem"))
        return np.asarray(res), np.asarray(no.QIJ, dtype=float)
    finally:
        shutil.rmtree(tmp, ignore_errors=True)


def oracle_nematic(c, eig=None):
    """Q = (d u uᵀ − I)/2 averaged over {i} ∪ first min(cn,Nmax) neighbours (exact), scalar from its definition"""
    eig = c["eig"] if eig is None else eig
    Qs, Ss = [], []
    for t, us in enumerate(c["frames"]):
        U = [[Fraction(x) for x in u] for u in us]
        raw = [[[(2 * u[x] * u[y] - (1 if x == y else 0)) / 2 for y in range(2)] for x in range(2)] for u in U]
        Q = raw
        if c["hasnb"]:
            Q = []
            for i in range(c["N"]):
                nb = c["rows"][t][i][: c["nmax"]]
                Q.append([[(raw[i][x][y] + sum(raw[j][x][y] for j in nb)) / (1 + len(nb)) for y in range(2)] for x in range(2)])
        Qs.append(Q)
        row = []
        for q in Q:
            a, b, cc, e = q[0][0], q[0][1], q[1][0], q[1][1]
            if eig:
                row.append((float(a + e) + math.sqrt(float((a - e) ** 2 + 4 * b * cc))))
            else:
                row.append(math.sqrt(float(2 * (a * a + b * cc + cc * b + e * e))))
        Ss.append(row)
    return Ss, Qs


# ----------------------------------------------------------------------------- gyration

def gen_gyr(rng):
    d = rng.choice([2, 3, 3])
    shape = rng.choice(["generic", "generic", "generic", "collinear", "planar", "symmetric", "aniso"])
    N = rng.randint(2, 12)
    if shape == "generic":
        pos = [[dec(rng, -5, 5, 2) for _ in range(d)] for _ in range(N)]
    elif shape == "aniso":
        sc = [rng.choice([1, 3, 10]) for _ in range(d)]
        pos = [["{:.2f}".format(rng.randint(-100, 100) * sc[k] / 100.0) for k in range(d)] for _ in range(N)]
    elif shape == "collinear":
        a = [rng.randint(-3, 3) for _ in range(d)]
        if not any(a):
            a[0] = 1
        o = [rng.randint(-300, 300) for _ in range(d)]
        ts = rng.sample(range(-40, 40), N)
        pos = [["{:.2f}".format((o[k] + a[k] * t * 5) / 100.0) for k in range(d)] for t in ts]
    elif shape == "planar":
        pos = [[dec(rng, -5, 5, 2) for _ in range(d)] for _ in range(N)]
        if d == 3:
            for p in pos:
                p[rng.choice([2])] = "1.50"
    else:
        import itertools
        if rng.random() < 0.5:  # cubic symmetry: all axes equivalent (degenerate spectrum)
            h = rng.randint(1, 300)
            pts = [[sg[k] * h for k in range(d)] for sg in itertools.product([1, -1], repeat=d)]
        else:               # all sign images of one or two points (diagonal tensor)
            pts = []
            for _ in range(rng.randint(1, 2)):
                b0 = [rng.randint(1, 300) for _ in range(d)]
                pts += [[sg[k] * b0[k] for k in range(d)] for sg in itertools.product([1, -1], repeat=d)]
        o = [rng.randint(-300, 300) for _ in range(d)]
        pos = [["{:.2f}".format((o[k] + p[k]) / 100.0) for k in range(d)] for p in pts]
        N = len(pos)
    return {"kind": "gyr", "d": d, "N": N, "shape": shape, "pos": pos}


def ops_gyr(c):
    return ["gyr {} {} {}".format(c["d"], c["N"], " ".join(x for p in c["pos"] for x in p))]


def real_gyr(c):
    from PyMatterSim.static.shape import gyration_tensor
    P = np.array([[fl(x) for x in p] for p in c["pos"]], dtype=float)     # a private copy: the routine recentres its argument (C18)
    with np.errstate(all="ignore"):
        return list(gyration_tensor(P))


def canon_gyr(vals):
    """complex128 with zero imaginary part → real; returns (reals, was_complex, bad)"""
    out, cx, bad = [], False, None
    for v in vals:
        if isinstance(v, complex) or np.iscomplexobj(v):
            cx = True
            v = complex(v)
            if abs(v.imag) > 1e-9 * max(1.0, abs(v.real)):
                bad = f"imaginary part {v.imag!r}"
            out.append(v.real)
        else:
            out.append(float(v))
    return out, cx, bad


def oracle_gyr(c):
    """exact centred second-moment tensor and its invariants; descriptors from numpy's symmetric eigen-solver"""
    d, N = c["d"], c["N"]
    P = [[Fraction(x) for x in p] for p in c["pos"]]
    mean = [sum(p[k] for p in P) / N for k in range(d)]
    S = [[sum((p[m] - mean[m]) * (p[n] - mean[n]) for p in P) / N for n in range(d)] for m in range(d)]
    tr = sum(S[k][k] for k in range(d))
    tr2 = sum(S[a][b] * S[b][a] for a in range(d) for b in range(d))
    if d == 2:
        det = S[0][0] * S[1][1] - S[0][1] * S[1][0]
    else:
        det = (S[0][0] * (S[1][1] * S[2][2] - S[1][2] * S[2][1]) - S[0][1] * (S[1][0] * S[2][2] - S[1][2] * S[2][0])
               + S[0][2] * (S[1][0] * S[2][1] - S[1][1] * S[2][0]))
    ev = np.sort(np.linalg.eigvalsh(np.array([[float(x) for x in r] for r in S])))
    rg = math.sqrt(float(tr))
    fd = math.log10(N) / math.log10(rg) if rg > 0 and rg != 1 else float("nan")
    if d == 3:
        b = 1.5 * ev[2] - 0.5 * float(tr)
        cc = ev[1] - ev[0]
        k2 = 1.5 * float(tr2) / float(tr) ** 2 - 0.5
        desc = [rg, b, cc, k2, fd]
    else:
        desc = [rg, ev[1] - ev[0], fd]
    return {"S": S, "tr": tr, "tr2": tr2, "det": det, "desc": desc, "rg": rg}


def judge_gyr(c, real, ref_desc, inv):
    """compare canonicalised real output with reference descriptors + Vieta monitor. Returns reason or None"""
    d = c["d"]
    tr = float(inv["tr"])
    scale = max(1.0, tr)
    names = ["radius_of_gyration", "asphericity", "acylindricity", "shape_anisotropy", "fractal_dimension"] if d == 3 else \
        ["radius_of_gyration", "acylindricity", "fractal_dimension"]
    if len(real) != len(names):
        return f"{len(real)} descriptors returned, {len(names)} documented"
    for nm, a, b in zip(names, real, ref_desc):
        if nm == "fractal_dimension":
            lg = abs(math.log10(inv["rg"])) if inv["rg"] > 0 else 0
            if lg < 1e-2:
                continue
            if not common.close(a, b, 1e-7 / min(1.0, lg)):
                return f"{nm}: real {a!r} vs definition {b!r}"
        elif nm == "shape_anisotropy":
            if not common.close(a, b, 1e-7, atol=1e-9):
                return f"{nm}: real {a!r} vs definition {b!r}"
        elif nm == "radius_of_gyration":
            if not common.close(a, b, 1e-9):
                return f"{nm}: real {a!r} vs definition {b!r}"
        else:
            if abs(a - b) > 1e-9 * scale:
                return f"{nm}: real {a!r} vs definition {b!r}"
    # Vieta monitor: eigenvalues recovered from the real descriptors are the roots of the characteristic polynomial
    rg2 = real[0] ** 2
    if d == 3:
        l2 = (real[1] + 0.5 * rg2) / 1.5
        l1 = (rg2 - l2 + real[2]) / 2
        l0 = (rg2 - l2 - real[2]) / 2
        e1, e2, e3 = l0 + l1 + l2, l0 * l1 + l0 * l2 + l1 * l2, l0 * l1 * l2
        t1, t2, t3 = tr, 0.5 * (tr * tr - float(inv["tr2"])), float(inv["det"])
        if not (l0 <= l1 + 1e-9 * scale and l1 <= l2 + 1e-9 * scale):
            return f"recovered eigenvalues not sorted: {l0!r} {l1!r} {l2!r}"
        if abs(e1 - t1) > 1e-9 * scale or abs(e2 - t2) > 1e-8 * scale ** 2 or abs(e3 - t3) > 1e-8 * scale ** 3:
            return f"recovered eigenvalues ({l0!r},{l1!r},{l2!r}) are not the spectrum of the gyration tensor (e1,e2,e3)=({e1!r},{e2!r},{e3!r}) vs ({t1!r},{t2!r},{t3!r})"
    else:
        l1 = (rg2 + real[1]) / 2
        l0 = (rg2 - real[1]) / 2
        if real[1] < -1e-9 * scale:
            return f"acylindricity negative: {real[1]!r}"
        if abs(l0 + l1 - tr) > 1e-9 * scale or abs(l0 * l1 - float(inv["det"])) > 1e-8 * scale ** 2:
            return f"recovered eigenvalues ({l0!r},{l1!r}) are not the spectrum of the gyration tensor"
    return None


# ----------------------------------------------------------------------------- monitors: proved statements evaluated on the REAL output

def monitors(c, rng=None):
    """C17_s2_nonpos, C17_tetra_le_one / order independence (relabelling), C17_nematic_tensor (symmetric, traceless for
    unit vectors), C17_gyration_bounds / translation, on the real routines.  Returns reason or None."""
    k = c["kind"]
    if k == "s2":
        real = real_s2(c)
        bad = [(t, i) for t in range(real.shape[0]) for i in range(real.shape[1]) if real[t, i] > 1e-9]
        if bad:
            return f"monitor s2_nonpos: S2{list(bad[0])} = {real[bad[0]]!r} > 0"
    elif k == "tetra":
        real = real_tetra(c)
        if np.nanmax(real) > 1 + 1e-9:
            return f"monitor tetra_le_one: max q = {np.nanmax(real)!r}"
        if rng is not None:
            perm = list(range(c["N"]))
            rng.shuffle(perm)
            c2 = dict(c, pos=[c["pos"][p] for p in perm], motif=False)
            r2 = real_tetra(c2)
            _, oks = oracle_tetra(c)
            for new, old in enumerate(perm):
                if oks[old] and not common.close(r2[new], real[old], 1e-9):
                    return f"monitor tetra relabelling: particle {old} q {real[old]!r} → {r2[new]!r} after permuting the particle order {perm}"
    elif k == "nematic":
        _, Q = real_nematic(c, False)
        if np.abs(Q - np.swapaxes(Q, 2, 3)).max(initial=0) > 1e-12:
            return "monitor nematic_tensor: Q not symmetric"
        if c["unit"] and np.abs(np.trace(Q, axis1=2, axis2=3)).max(initial=0) > 1e-9:
            return "monitor nematic_tensor: Q not traceless for unit vectors"
    elif k == "gyr":
        real, _, bad = canon_gyr(real_gyr(c))
        if bad:
            return bad
        tr = real[0] ** 2
        tol = 1e-9 * max(1.0, tr)
        if c["d"] == 3:
            if real[1] < -tol or real[2] < -tol or (tr > 1e-12 and not (-1e-9 <= real[3] <= 1 + 1e-9)):
                return f"monitor gyration_bounds: asphericity {real[1]!r}, acylindricity {real[2]!r}, anisotropy {real[3]!r}"
        elif real[1] < -tol:
            return f"monitor gyration_bounds: acylindricity {real[1]!r}"
        if rng is not None:
            sh = [rng.randint(-300, 300) for _ in range(c["d"])]
            c2 = dict(c, pos=[["{:.2f}".format(float(Fraction(x)) + sh[kk] / 100.0) for kk, x in enumerate(p)] for p in c["pos"]])
            r2, _, _ = canon_gyr(real_gyr(c2))
            for a, b in zip(real[:-1], r2[:-1]):
                if abs(a - b) > 1e-8 * max(1.0, tr):
                    return f"monitor gyration translation: descriptor {a!r} → {b!r} after shifting the cloud by {sh}/100"
    return None


# ----------------------------------------------------------------------------- judging the REAL code against the property

def failing(c):
    """does the REAL code contradict the property's formulas on this input?  returns reason or None.
    Uses only the brute-force oracles and the monitors (never the Lean model)."""
    why = _failing(c)
    if why:
        return why
    try:
        import random
        return monitors(c, random.Random(0))
    except Exception as e:
        return f"raised {type(e).__name__}: {e}"


def _failing(c):
    k = c["kind"]
    try:
        if k == "s2":
            real = real_s2(c)
            vals, oks = oracle_s2(c)
            if real.shape != (len(c["frames"]), c["N"]):
                return f"shape {real.shape}"
            for t in range(len(vals)):
                for i in range(c["N"]):
                    if oks[t][i] and not common.close(real[t][i], vals[t][i], 1e-7):
                        return f"S2[{t},{i}] real {real[t][i]!r} vs definition {vals[t][i]!r}"
            return None
        if k == "tetra":
            real = real_tetra(c)
            vals, oks = oracle_tetra(c)
            if len(real) != c["N"]:
                return f"shape {real.shape}"
            for i in range(c["N"]):
                if oks[i] and not common.close(real[i], vals[i], 1e-7):
                    return f"q[{i}] real {real[i]!r} vs definition {vals[i]!r}"
            if c.get("motif") and oks[0] and abs(real[0] - 1.0) > 1e-9:
                return f"perfect tetrahedral coordination: q[0] = {real[0]!r} ≠ 1"
            return None
        if k == "nematic":
            for eig in ([False, True] if c["unit"] else [c["eig"]]):
                res, Q = real_nematic(c, eig)
                Ss, Qs = oracle_nematic(c, eig)
                T, N = len(c["frames"]), c["N"]
                if res.shape != (T, N) or Q.shape != (T, N, 2, 2):
                    return f"shape {res.shape} {Q.shape}"
                if np.iscomplexobj(res):
                    if np.abs(res.imag).max() > 1e-9:
                        return "complex scalar order"
                    res = res.real
                for t in range(T):
                    for i in range(N):
                        for x in range(2):
                            for y in range(2):
                                if not common.close(Q[t, i, x, y], float(Qs[t][i][x][y]), 1e-9):
                                    return f"Q[{t},{i},{x},{y}] real {Q[t, i, x, y]!r} vs definition {float(Qs[t][i][x][y])!r}"
                        if not common.close(res[t, i], Ss[t][i], 1e-7, atol=2e-8):
                            return f"scalar({'eig' if eig else 'trace'})[{t},{i}] real {res[t, i]!r} vs definition {Ss[t][i]!r}"
            return None
        if k == "gyr":
            real, cx, bad = canon_gyr(real_gyr(c))
            if bad:
                return bad
            inv = oracle_gyr(c)
            if float(inv["tr"]) <= 0:
                return None
            return judge_gyr(c, real, inv["desc"], inv)
    except Exception as e:  # the real routine raised on a well-formed input
        return f"raised {type(e).__name__}: {e}"
    return None


def sig_key(c, why):
    k = c["kind"]
    head = why.split(":")[0].split("[")[0].split(" real")[0].strip()
    if why.startswith("raised"):
        head = "raised " + why.split()[1].rstrip(":")
    extra = ""
    if k == "tetra" and c["N"] == 5 and why.startswith("raised"):
        extra = ":N==5"
    if k == "s2":
        extra = f":d{c['d']}"
    if k == "gyr":
        extra = f":d{c['d']}"
    if k == "nematic":
        extra = ":cg" if c["hasnb"] else ":raw"
    return f"C17:{k}{extra}:{head}"[:160]


# ----------------------------------------------------------------------------- correspondence with the Lean model

GEN = {"s2": gen_s2, "tetra": gen_tetra, "nematic": gen_nematic, "gyr": gen_gyr}


def ops_of(c):
    k = c["kind"]
    if k == "s2":
        return ops_s2(c)
    if k == "tetra":
        return ops_tetra(c)
    if k == "nematic":
        return ops_nematic(c)
    return ops_gyr(c)


def compare(run, c, outs):
    """real vs model for one case.  returns (status, reason) with status in ok/skip/dis"""
    k = c["kind"]
    if any(o == "bad-op" for o in outs):
        raise common.Infra("driver rejected op: " + ops_of(c)[0][:200])
    if k == "s2":
        real = real_s2(c)
        status = "skip"
        for t, o in enumerate(outs):
            left, right = o.split("|")
            toks = left.split()
            margin, mings = fr(toks[0]), [bits2float(x) for x in toks[1:]]
            model = [bits2float(x) for x in right.split()]
            if margin < MARGIN:
                run.coverage["skipped_inside_margin"] = run.coverage.get("skipped_inside_margin", 0) + 1
                continue
            for i in range(c["N"]):
                if not (mings[i] > 1e-290) or model[i] != model[i]:
                    run.coverage["s2_particles_skipped_g_has_zero"] = run.coverage.get("s2_particles_skipped_g_has_zero", 0) + 1
                    continue
                status = "ok"
                run.coverage["s2_particles_judged"] = run.coverage.get("s2_particles_judged", 0) + 1
                if not common.close(real[t][i], model[i], 1e-7):
                    return "dis", f"S2[{t},{i}] real {real[t][i]!r} vs model {model[i]!r}"
        return status, None
    if k == "tetra":
        toks = outs[0].split()
        m0, gap, near = fr(toks[0]), fr(toks[1]), fr(toks[2])
        if m0 < MARGIN or gap < MARGIN or near < MARGIN:
            run.coverage["skipped_inside_margin"] = run.coverage.get("skipped_inside_margin", 0) + 1
            return "skip", None
        real = real_tetra(c)
        model = [bits2float(x) for x in toks[3:]]
        for i in range(c["N"]):
            if not common.close(real[i], model[i], 1e-7):
                return "dis", f"q[{i}] real {real[i]!r} vs model {model[i]!r}"
        if c.get("motif") and abs(real[0] - 1.0) > 1e-9:
            return "dis", f"perfect tetrahedral coordination: q[0] = {real[0]!r} ≠ 1"
        return "ok", None
    if k == "nematic":
        res, Q = real_nematic(c)
        if np.iscomplexobj(res):
            if np.abs(res.imag).max() > 1e-9:
                return "dis", "complex scalar order"
            res = res.real
        for t, o in enumerate(outs):
            qs, ss = o.split("|")
            mq = [float(fr(x)) for x in qs.split()]
            ms = [bits2float(x) for x in ss.split()]
            rq = Q[t].reshape(-1)
            if len(mq) != len(rq) or any(not common.close(a, b, 1e-9) for a, b in zip(rq, mq)):
                return "dis", f"Q frame {t}: real {rq.tolist()} vs model {mq}"
            for i in range(c["N"]):
                if not common.close(res[t, i], ms[i], 1e-7, atol=2e-8):
                    return "dis", f"scalar[{t},{i}] real {res[t, i]!r} vs model {ms[i]!r}"
        if c["unit"]:
            # the property's claim for unit vectors: trace scalar = 2·λ_max
            other, _ = real_nematic(c, not c["eig"])
            other = np.asarray(other).real
            if not np.allclose(other, res, rtol=0, atol=3e-8):
                return "dis", f"trace scalar ≠ 2·λ_max: {np.asarray(res).tolist()} vs {other.tolist()}"
        return "ok", None
    if k == "gyr":
        inv_s, S_s, eig_s, desc_s = outs[0].split("|")
        tr, tr2, det = [fr(x) for x in inv_s.split()]
        if tr <= 0:
            return "skip", None
        real, cx, bad = canon_gyr(real_gyr(c))
        if cx:
            run.coverage["gyr_complex_typed_outputs"] = run.coverage.get("gyr_complex_typed_outputs", 0) + 1
        if bad:
            return "dis", bad
        model = [bits2float(x) for x in desc_s.split()]
        inv = {"tr": tr, "tr2": tr2, "det": det, "rg": math.sqrt(float(tr))}
        why = judge_gyr(c, real, model, inv)
        if why:
            return "dis", why.replace("definition", "model")
        return "ok", None
    raise common.Infra("unknown kind " + k)


def nontrivial(c):
    k = c["kind"]
    if k == "s2":
        return c["K"] >= 2 or c["N"] >= 4
    if k == "tetra":
        return c["N"] >= 6
    if k == "nematic":
        return c["hasnb"] or c["eig"]
    return c["N"] >= 3


def run_cases(run, cases):
    lines, spans = [], []
    for c in cases:
        ops = ops_of(c)
        spans.append((len(lines), len(ops)))
        lines += ops
    outs = common.drive(lines)
    dis = []
    for c, (a, n) in zip(cases, spans):
        k = c["kind"]
        run.hist("kind", k)
        if k == "s2":
            run.hist("s2:d/cell/mask", f"{c['d']}/{c['cell']}/{''.join(c['ppp'])}")
            run.hist("s2:species", c["K"])
        elif k == "tetra":
            run.hist("tetra:N", c["N"]); run.hist("tetra:motif", c["motif"])
        elif k == "nematic":
            run.hist("nematic:mode", f"{'cg' if c['hasnb'] else 'raw'}/{'eig' if c['eig'] else 'trace'}/{'unit' if c['unit'] else 'free'}")
        else:
            run.hist("gyr:d/shape", f"{c['d']}/{c['shape']}")
        try:
            status, why = compare(run, c, outs[a:a + n])
        except common.Infra:
            raise
        except Exception as e:
            status, why = "dis", f"real code raised {type(e).__name__}: {e}"
        if status == "skip":
            continue
        run.count(lines[a], nontrivial(c), sample={"op": lines[a][:300], "model": outs[a][:200]})
        if status == "ok":
            try:
                why = monitors(c, run.rng)
            except Exception as e:
                why = f"real code raised {type(e).__name__}: {e}"
            if why:
                status = "dis"
                run.coverage["monitor_failures"] = run.coverage.get("monitor_failures", 0) + 1
        if status == "dis":
            dis.append((c, why))
    return dis


def n_cases(tier):
    return {"s2": 80, "tetra": 120, "nematic": 160, "gyr": 240} if tier == "quick" else \
        {"s2": 1500, "tetra": 4000, "nematic": 5000, "gyr": 8000}


def correspond(run):
    cases = list(common.load_corpus(PROP))
    def sibling(rng, c):
        # same cell, mask, species, widths, bins — every position moved a little
        if c["kind"] == "s2":
            return dict(c, frames=[common.jitter_positions(rng, fr, 0.2, 2) for fr in c["frames"]])
        if c["kind"] == "tetra" and not c.get("motif"):
            return dict(c, pos=common.jitter_positions(rng, c["pos"], 0.2, 2))
        return None
    for k, n in n_cases(run.tier).items():
        cases += common.add_siblings(run.rng, [GEN[k](run.rng) for _ in range(n)], sibling, every=5)
    dis = run_cases(run, cases)
    run.coverage["traces_validated_against_impl"] = run.coverage["evaluations"]
    broken = []
    for k in GEN:
        dk = [(c, w) for c, w in dis if c["kind"] == k]
        if dk:
            broken.append({"kind": "correspondence", "name": f"Pms.LocalOrder~{k}",
                           "detail": f"{len(dk)} cases disagree; first: {dk[0][1][:300]}", "cases": [c for c, _ in dk[:20]]})
    return broken


def shrink(c):
    """drop frames, then particles, while the real code still contradicts the definition"""
    best = c
    if c["kind"] in ("s2", "nematic") and len(c["frames"]) > 1:
        for t in range(len(c["frames"])):
            cand = dict(c, frames=[c["frames"][t]])
            if c["kind"] == "nematic" and c["hasnb"]:
                cand["rows"] = [c["rows"][t]]
            if failing(cand):
                best = cand
                break
    c = best
    if c["kind"] == "gyr":
        changed = True
        while changed and best["N"] > 2:
            changed = False
            for i in range(best["N"]):
                cand = dict(best, pos=best["pos"][:i] + best["pos"][i + 1:], N=best["N"] - 1)
                if failing(cand):
                    best, changed = cand, True
                    break
    if c["kind"] == "tetra":
        changed = True
        while changed and best["N"] > 5:
            changed = False
            for i in range(best["N"] - 1, -1, -1):
                cand = dict(best, pos=best["pos"][:i] + best["pos"][i + 1:], N=best["N"] - 1, motif=False)
                w = failing(cand)
                if w and not w.startswith("raised"):
                    best, changed = cand, True
                    break
    return best


def search(run, broken):
    unexplained = []
    tried = 0
    for b in broken:
        pool = list(b.get("cases", []))
        nm = b["name"].lower() + " " + str(b.get("detail", "")).lower()
        kinds = [k for k in GEN if b["name"].endswith("~" + k)]
        if not kinds:   # a broken theorem / translator item: direct the search by what it is about
            hints = {"s2": ("s2", "gauss", "trapz", "pairentropy"), "tetra": ("tetra", "geometric"),
                     "nematic": ("nematic", "cg_", "coarse"), "gyr": ("gyr", "shape")}
            kinds = [k for k, ws in hints.items() if any(w in nm for w in ws)] or list(GEN)
        pool += [GEN[k](run.rng) for k in kinds for _ in range(150 if run.tier == "quick" else 1500)]
        found = False
        for c in pool:
            tried += 1
            why = failing(c)
            if why:
                c2 = shrink(c)
                why2 = failing(c2) or why
                run.violation(sig_key(c2, why2), f"{c2['kind']}: {why2}"[:400], {"case": c2, "broken": b["name"]})
                found = True
                break
        if not found:
            unexplained.append(b)
    run.coverage["search_cases"] = tried
    return unexplained


def replay(run, rp):
    if "case" in rp:
        return bool(failing(rp["case"]))
    return any(failing(c) for c in rp.get("cases", []))
