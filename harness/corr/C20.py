"""C20 — Voronoi neighbour output (cal_neighbors), its hand-off to read_neighbors, and VolumeMatrix.

freud's tessellation is an external library: nothing is proved about it.  Its CONTRACT (neighbour list sorted by the
first index and covering every particle, symmetric as a multiset, one positive weight per bond equal in both
directions, volumes summing to the box volume) is monitored on freud's RAW output and, separately, the invariants of
the property statement are monitored on the FILES the real code wrote, so that a failure is attributed to the right side.

correspondence (real code vs the Lean model through the compiled driver, exact ℚ on the doubles' exact values):
  conv   convert_configuration            vs  Pms.Voro.Impl.convert                 (op vconv)
  cal    cal_neighbors → three files      vs  Pms.Voro.Impl.calNeighbors on freud's raw output captured by calling freud
                                              the way the code does (op vrender), token for token
  read   read_neighbors on those files    vs  Pms.Neigh.Impl.readNeighbors (C05's model, op nread), several Nmax
  vm     VolumeMatrix (raw / transformed) vs  Pms.Voro.Impl.vmSelect (op vmidx) + Impl.volumeMatrix / Impl.transform
                                              (op vmat impl) on the finite-difference volumes V1/V2 obtained from freud
                                              with the same sequence of in-place perturbations
Spec / monitors (used to JUDGE the real code, never the model): the property statement checked directly on the files;
`Spec.matrixA` / `Spec.projector` (op vmat spec, hand-written, no regenerated term) on the data of the REQUESTED frame;
row sums of the returned array with a tolerance scaled by the magnitudes."""
import hashlib
import json
import logging
import math
import os
import shutil
import tempfile
from collections import Counter
from fractions import Fraction

import numpy as np

import common
from common import dec
from corr import C05 as c05

PROP = "C20"
PROPS_FILES = ["Pms/Props/C20.lean"]
GENERATORS = ["voro"]
RULE = ("two seeded streams.  cal: ndim∈{2,3} × frames∈[1,3] (positions AND box lengths differ between frames) × N∈[8,40] × "
        "box origin {0, centred, arbitrary non-zero, bounds summing to 0 without being centred (dyadic)} × random positions "
        "in general position (3 decimals) → cal_neighbors → files → read_neighbors with Nmax below/at/above the largest cn "
        "and 200, neighbour and bond file.  vm: ndim∈{2,3} × N∈[4,12] × frames∈[1,3] × every requested frame index × "
        "transform_matrix∈{False,True} × outputfile {unset, set with/without .npy}.  A case is non-trivial when it has ≥ 2 "
        "frames or a non-zero origin (cal) / a requested frame ≠ 0, a saved file or the transformed matrix (vm); distinct = "
        "distinct literal inputs")
TRUSTED_BASE = [
    "Lean 4.33 kernel; axioms propext, Classical.choice, Quot.sound only",
    "freud.locality.Voronoi / freud.box.Box.from_box are an external C++ library: NO theorem about the tessellation. Its contract "
    "(nlist sorted by first index, every particle listed, symmetric multiset of bonds, one positive weight per bond equal in "
    "both directions, volumes summing to the box volume, invariance under a rigid translation because points are wrapped) is "
    "a hypothesis of the theorems (structure WF, parameter voro) and is monitored at run time on freud's raw output; freud "
    "stores points and weights in float32 — the model receives the exact values of what freud returned",
    "np.unique(return_counts=True) on non-negative integers = sorted distinct values with their multiplicities "
    "(Pms.Voro.uniqueNat, List.count); numpy boolean-mask assignment, row-major reshape, sum(axis=0), slice assignment, "
    "broadcasting of original[:, np.newaxis], np.matmul, np.save/np.load are modelled by their array semantics (hand-written "
    "Impl, tied to the source by this correspondence and by the regenerated index expressions); np.linalg.inv is a CONTRACT "
    "parameter M (the theorems about the transformed matrix that need M·(AAᵀ) = 1 say so; the row-sum theorem needs nothing)",
    "'%d' / '%.6f' formatting, str.split, int(), float(): a line is its token list; '%.6f' % x is half-even rounding of the exact "
    "value of x to 6 decimals (fmtFixed in the driver; correctly rounding printf) — compared token for token on every run; "
    "float(tok) of a written token is its decimal value (contract hrd of C20_reader_handoff)",
    "float64 ≈ ℝ: raw matrix entries compared at 1e-9 (relative to max(1,|a|)); transformed matrix compared with the a-priori "
    "bound γ·(|Aᵀ||M||A|) of floating-point matrix products (AAᵀ is nearly singular by volume conservation, cond ≈ 1e9, so "
    "absolute errors up to ≈1e-6 are rounding, not logic); the model's M is what np.linalg.inv returns on the real raw matrix",
    "translator/gens/voro.py (AST walker) is trusted: it extracts headers, suffixes, id shift, guard, count expression, "
    "decimals, frame/shape indices, column index, slice bounds, finite-difference formula, self-term sign, np.save argument "
    "order semantically and pins every statement of the three routines as text",
    "the `boxbounds.sum() != 0` decision is judged only when the exact sum is ≥ 1e-6 away from 0 or the float sum is exactly 0 "
    "too; weights below 1e-6 (written as 0.000000) are not judged for positivity; faces smaller than 1e-4 are below the "
    "resolution of voro++ (slivers of area 1e-8 … 7e-6 are reported from one cell, both or none) and are neither matched nor "
    "judged for symmetry / equal weights",
    "freud DOES break its contract on rare 3-D inputs: a genuine face (area 3e-4 … 2.4e-3, present for both cells in an "
    "independent float64 Qhull tessellation of 27 periodic copies) is reported from one of the two cells only (4 of 1500 generated "
    "3-D cases, never in 2-D).  The raw-output monitor attributes it to freud, the files are still compared token for token and "
    "shown to mirror freud's list, and the resulting asymmetry of the written relation is the LISTED finding "
    "C20:cal_neighbors:freud-one-sided-face (corpus/C20/freud-one-sided-face.json runs first on every run).  Inputs on which "
    "freud breaks shapes / order / coverage / volume sum would be counted and skipped (none observed)",
    "not covered: partially written files when the guard raises, negative nconfig, an `ndim` argument different from the "
    "data's dimensionality, triclinic boxes (the property says orthogonal), N < 4",
]
EPS = 2.0 ** -52
logging.disable(logging.CRITICAL)


# ----------------------------------------------------------------------------- helpers

def q(x):
    """exact value of a double as a driver token"""
    f = Fraction(float(x))
    return str(f.numerator) if f.denominator == 1 else f"{f.numerator}/{f.denominator}"


def fdec(fr_, nd=3):
    """Fraction on the decimal grid -> string"""
    v = fr_ * 10 ** nd
    assert v.denominator == 1, fr_
    v = int(v)
    s = "-" if v < 0 else ""
    v = abs(v)
    return f"{s}{v // 10 ** nd}.{v % 10 ** nd:0{nd}d}"


def gen_box(rng, ndim, origin):
    """(lo, hi, len) as decimal strings"""
    if origin == "sumzero":
        # dyadic bounds (float arithmetic exact) whose total is 0 although at least one axis is not centred
        while True:
            L = [Fraction(rng.randint(8, 18), 2) for _ in range(ndim)]
            lo = [Fraction(rng.randint(-24, 8), 4) for _ in range(ndim - 1)]
            rest = sum(2 * lo[k] + L[k] for k in range(ndim - 1)) + L[-1]
            lo.append(-rest / 2)
            if any(2 * lo[k] + L[k] != 0 for k in range(ndim)) and abs(lo[-1]) < 12:
                break
        return [fdec(x) for x in lo], [fdec(lo[k] + L[k]) for k in range(ndim)], [fdec(x) for x in L]
    L = [Fraction(dec(rng, 4, 9, 2)) for _ in range(ndim)]
    if origin == "zero":
        lo = [Fraction(0)] * ndim
    elif origin == "centred":
        lo = [-x / 2 for x in L]
    else:
        lo = [Fraction(dec(rng, -6, 6, 2)) for _ in range(ndim)]
        if sum(2 * lo[k] + L[k] for k in range(ndim)) == 0:
            lo[0] += Fraction(1, 100)
    return [fdec(x) for x in lo], [fdec(lo[k] + L[k]) for k in range(ndim)], [fdec(x) for x in L]


def gen_frames(rng, ndim, N, T, origin):
    frames = []
    for _ in range(T):
        lo, hi, L = gen_box(rng, ndim, origin)
        pos = []
        seen = set()
        while len(pos) < N:
            row = tuple(fdec(Fraction(math.floor((Fraction(lo[k]) + Fraction(rng.randint(0, 999), 1000) * Fraction(L[k])) * 1000), 1000))
                        for k in range(ndim))
            if row not in seen:
                seen.add(row)
                pos.append(list(row))
        frames.append({"lo": lo, "hi": hi, "len": L, "pos": pos})
    return frames


def gen_cal(rng):
    ndim = rng.choice([2, 3])
    origin = rng.choice(["zero", "centred", "nonzero", "nonzero", "sumzero"])
    N = rng.randint(8, 40)
    T = rng.choice([1, 2, 2, 3])
    return {"kind": "cal", "ndim": ndim, "origin": origin, "N": N, "T": T, "frames": gen_frames(rng, ndim, N, T, origin),
            "nmax_choice": [rng.choice(["below", "at", "above", "big"]) for _ in range(T)]}


def gen_vm(rng):
    ndim = rng.choice([2, 3])
    origin = rng.choice(["zero", "centred", "nonzero", "nonzero", "sumzero"])
    N = rng.randint(4, 12) if ndim == 2 else rng.randint(5, 12)
    T = rng.choice([1, 2, 3, 3])
    return {"kind": "vm", "ndim": ndim, "origin": origin, "N": N, "T": T, "frames": gen_frames(rng, ndim, N, T, origin),
            "deltar": rng.choice(["0.01", "0.01", "0.005", "0.02"]),
            "calls": [{"nconfig": t, "transform": tr, "out": rng.choice(["", "", "vm", "vm.npy"])}
                      for t in range(T) for tr in (False, True)]}


def snapshots_of(c):
    from PyMatterSim.reader.reader_utils import SingleSnapshot, Snapshots
    snaps = []
    for t, f in enumerate(c["frames"]):
        L = np.array([float(x) for x in f["len"]])
        bb = np.column_stack(([float(x) for x in f["lo"]], [float(x) for x in f["hi"]]))
        P = np.array([[float(x) for x in row] for row in f["pos"]], dtype=float).reshape(len(f["pos"]), c["ndim"])
        snaps.append(SingleSnapshot(t, P.shape[0], np.ones(P.shape[0], dtype=int), P, L, bb, None, np.diag(L)))
    return Snapshots(len(snaps), snaps)


def digest(s):
    h = hashlib.sha256()
    for sn in s.snapshots:
        for a in (sn.positions, sn.boxlength, sn.boxbounds, sn.hmatrix):
            h.update(np.ascontiguousarray(a).tobytes())
    return h.hexdigest()


def box_volume(f, ndim):
    v = Fraction(1)
    for x in f["len"]:
        v *= Fraction(x)
    return float(v)


def float_sum_zero(f):
    bb = np.column_stack(([float(x) for x in f["lo"]], [float(x) for x in f["hi"]]))
    return bb.sum() == 0


# ----------------------------------------------------------------------------- freud, called the way the code calls it

def freud_raw(box, points):
    import freud
    voro = freud.locality.Voronoi()
    voro.compute((box, points))
    return np.array(voro.nlist), np.array(voro.nlist.weights), np.array(voro.volumes)


def freud_volumes(box, points):
    import freud
    voro = freud.locality.Voronoi()
    return np.array(voro.compute((box, points)).volumes)


TINY = 1e-4


def unmatched(xs, ys, tol):
    """weights of the faces i→j against those of j→i.  Faces smaller than TINY are below the resolution of the tessellation
    library itself (voro++ occasionally reports such a sliver from one of the two cells only): they are not matched and
    not judged.  -> None or message"""
    a = sorted(x for x in xs if x >= TINY)
    b = sorted(x for x in ys if x >= TINY)
    if len(a) != len(b):
        return f"{len(a)} face(s) {a} one way, {len(b)} {b} the other"
    if any(abs(p - q) > tol * max(1.0, abs(p)) for p, q in zip(a, b)):
        return f"weights {a} one way, {b} the other"
    return None


def raw_contract(nl, w, vol, N, V):
    """freud's contract on its raw output -> None or message"""
    if nl.ndim != 2 or nl.shape[1] != 2 or len(w) != len(nl) or len(vol) != N:
        return f"shapes nlist {nl.shape} weights {len(w)} volumes {len(vol)} for {N} particles"
    if len(nl) and (np.diff(nl[:, 0]) < 0).any():
        return "nlist not sorted by the first index"
    if sorted(set(nl[:, 0].tolist())) != list(range(N)):
        return "not every particle has a bond"
    bonds = {}
    for (i, j), x in zip(nl.tolist(), w.tolist()):
        bonds.setdefault((i, j), []).append(x)
    for (i, j), xs in bonds.items():
        why = unmatched(xs, bonds.get((j, i), []), 1e-6)
        if why:
            return f"bond ({i},{j}) vs ({j},{i}): {why}"
    if (w <= 0).any() or (vol <= 0).any():
        return "non-positive weight or volume"
    if abs(vol.sum() - V) > 1e-6 * V:
        return f"volumes sum to {vol.sum()!r}, box volume {V!r}"
    return None


# ----------------------------------------------------------------------------- the property statement on the files

def split_lines(text):
    ls = text.split("\n")
    if ls and ls[-1] == "":
        ls.pop()
    return [l.split() for l in ls]


def judge_files(c, files, raws):
    """files = (neighbor, bond, overall) token lines written by the REAL code; raws = freud's raw output per frame
    (used only for the rounding margin of tiny weights and for attribution).  -> None or (keytail, message)"""
    nbl, bdl, ovl = files
    N, T, ndim = c["N"], c["T"], c["ndim"]
    if len(nbl) != T * (N + 1) or len(bdl) != T * (N + 1):
        return "file-shape", f"neighbour file {len(nbl)} lines, bond file {len(bdl)} lines for {T} frames of {N} particles"
    if len(ovl) != 1 + T * N:
        return "overall-shape", f"overall file has {len(ovl)} lines for {T} frames of {N} particles (one header + one line per particle per frame)"
    if ovl[0] != ["id", "cn", "area_or_volume"]:
        return "overall-header", f"overall header {ovl[0]}"
    want_b = "edgelengthlist" if ndim == 2 else "facearealist"
    for t in range(T):
        b = t * (N + 1)
        if nbl[b] != ["id", "cn", "neighborlist"]:
            return "header", f"frame {t}: neighbour header {nbl[b]}"
        if bdl[b] != ["id", "cn", want_b]:
            return "header", f"frame {t}: bond header {bdl[b]} (expected {want_b})"
        rows, wrows, vols = [], [], []
        for i in range(N):
            rn, rb, ro = nbl[b + 1 + i], bdl[b + 1 + i], ovl[1 + t * N + i]
            try:
                ids = [int(x) for x in rn]
                wid, wcn = int(rb[0]), int(rb[1])
                ws = [float(x) for x in rb[2:]]
                oid, ocn, ov = int(ro[0]), int(ro[1]), float(ro[2])
            except (ValueError, IndexError):
                return "tokens", f"frame {t} particle {i + 1}: {rn} / {rb} / {ro}"
            if len(ro) != 3 or ids[0] != i + 1 or wid != i + 1 or oid != i + 1:
                return "id-order", f"frame {t} line {i}: ids {ids[0]}/{wid}/{oid}, expected {i + 1}"
            if ids[1] != len(ids) - 2 or wcn != len(ws) or ocn != ids[1] or wcn != ids[1]:
                return "cn", (f"frame {t} particle {i + 1}: cn {ids[1]}/{wcn}/{ocn} but {len(ids) - 2} neighbours and "
                              f"{len(ws)} weights listed")
            if any(j < 1 or j > N for j in ids[2:]):
                return "id-range", f"frame {t} particle {i + 1}: neighbour ids {ids[2:]} outside 1..{N}"
            rows.append([j - 1 for j in ids[2:]])
            wrows.append(ws)
            vols.append(ov)
        # symmetric relation with multiplicities (in a small periodic cell a pair can share several faces) and equal
        # weights in both directions; slivers below TINY are not matched (see `unmatched`)
        tiny = raws is not None and (raws[t][1] < 1e-6).any()
        bw = {}
        for i in range(N):
            for j, x in zip(rows[i], wrows[i]):
                bw.setdefault((i, j), []).append(x)
                if x <= 0 and not tiny:
                    return "weights-positive", f"frame {t}: weight {x} of bond {i + 1}-{j + 1}"
        for (i, j), xs in bw.items():
            ys = bw.get((j, i), [])
            if not ys and max(xs) >= TINY:
                return "symmetric", f"frame {t}: {j + 1} is listed for {i + 1} (weights {xs}) but {i + 1} is not listed for {j + 1}"
            why = unmatched(xs, ys, 2e-6)
            if why:
                return ("symmetric" if "face(s)" in why else "weights-equal"), f"frame {t}: bond {i + 1}-{j + 1}: {why}"
        V = box_volume(c["frames"][t], ndim)
        if any(v <= 0 for v in vols):
            return "volume-positive", f"frame {t}: a cell volume ≤ 0"
        if abs(sum(vols) - V) > 1e-6 * V + N * 0.5e-6:
            return "volume-sum", f"frame {t}: cell volumes sum to {sum(vols):.6f}, box volume {V:.6f}"
        if raws is not None:
            nl, w, vol = raws[t]
            exp = [[int(j) for (a, j) in nl.tolist() if a == i] for i in range(N)]
            if exp != rows:
                bad = next(i for i in range(N) if exp[i] != rows[i])
                return "rows-vs-tessellation", (f"frame {t} particle {bad + 1}: written neighbours {[j + 1 for j in rows[bad]]}, "
                                                f"the tessellation of this frame gives {[j + 1 for j in exp[bad]]}")
            expw = [[float(x) for (a, _), x in zip(nl.tolist(), w.tolist()) if a == i] for i in range(N)]
            for i in range(N):
                if any(abs(a - b) > 0.5e-6 + 1e-9 for a, b in zip(wrows[i], expw[i])):
                    return "weights-vs-tessellation", f"frame {t} particle {i + 1}: written {wrows[i]}, tessellation {expw[i]}"
                if abs(vols[i] - float(vol[i])) > 0.5e-6 + 1e-9:
                    return "volume-vs-tessellation", (f"frame {t} particle {i + 1}: written volume {vols[i]}, "
                                                      f"tessellation {float(vol[i]):.6f}")
    return None


# ----------------------------------------------------------------------------- stream `cal`

def op_vconv(c, t):
    f = c["frames"][t]
    return "vconv {} {} {} {} {} {}".format(c["ndim"], len(f["pos"]), " ".join(f["lo"]), " ".join(f["hi"]), " ".join(f["len"]),
                                            " ".join(x for row in f["pos"] for x in row))


def op_vrender(c, raws):
    parts = [f"vrender {c['ndim']} {len(raws)}"]
    for nl, w, vol in raws:
        parts.append(str(len(nl)))
        parts.append(" ".join(f"{i} {j}" for i, j in nl.tolist()))
        parts.append(" ".join(q(x) for x in w.tolist()))
        parts.append(str(len(vol)))
        parts.append(" ".join(q(x) for x in vol.tolist()))
    return " ".join(p for p in parts if p != "")


def parse_vrender(o):
    if o.startswith("err "):
        return None, o[4:]
    assert o.startswith("ok "), o[:80]
    files = []
    for part in o[3:].split("||"):
        files.append([l.split() for l in part.split("|")] if part.strip() else [])
    return files, None


def real_cal(c, tmp):
    """run the real writer; -> ((neighbor, bond, overall) token lines, None) or (None, 'Exc: msg')"""
    from PyMatterSim.neighbors.freud_neighbors import cal_neighbors
    out = os.path.join(tmp, "vor")
    for s in (".neighbor.dat", ".edgelength.dat", ".facearea.dat", ".overall.dat"):
        if os.path.exists(out + s):
            os.remove(out + s)
    if c["N"] % 3 != 1:
        # files of these names are left over from an earlier analysis: the call must replace them, not add to them
        for s in (".neighbor.dat", ".edgelength.dat", ".facearea.dat", ".overall.dat"):
            with open(out + s, "w") as f:
                f.write("id   cn   stale\n1 2 2 3\n2 1 1\n3 1 1\n" * 2)
    s = snapshots_of(c)
    h0 = digest(s)
    try:
        cal_neighbors(s, out)
    except Exception as e:  # noqa: BLE001
        return None, f"{type(e).__name__}: {e}", False
    texts = []
    for suf in (".neighbor.dat", ".edgelength.dat" if c["ndim"] == 2 else ".facearea.dat", ".overall.dat"):
        with open(out + suf) as f:
            texts.append(f.read())
    return [split_lines(x) for x in texts], None, digest(s) != h0


def convert_check(c, conv_outs):
    """real convert_configuration vs the model; -> (skip, disagreement, list_box, list_points)"""
    from PyMatterSim.neighbors.freud_neighbors import convert_configuration
    lb, lp = convert_configuration(snapshots_of(c))
    skip, why = False, None
    for t, o in enumerate(conv_outs):
        toks = o.split()
        m, w = Fraction(toks[0]), int(toks[1])
        f = c["frames"][t]
        if (m == 0 and not float_sum_zero(f)) or (0 < m < Fraction(1, 10 ** 6)):
            skip = True
            continue
        vals = [float(Fraction(x)) for x in toks[2:]]
        P = np.asarray(lp[t])
        n = len(f["pos"])
        if P.shape != (n, w):
            why = why or f"frame {t}: points shape {P.shape}, model {(n, w)}"
            continue
        if any(not common.close(a, b, 1e-9) for a, b in zip(P.ravel().tolist(), vals)):
            k = next(k for k, (a, b) in enumerate(zip(P.ravel().tolist(), vals)) if not common.close(a, b, 1e-9))
            why = why or f"frame {t}: points[{k // w},{k % w}] = {P.ravel()[k]!r}, model {vals[k]!r}"
        b = lb[t]
        L = [float(x) for x in f["len"]]
        got = [b.Lx, b.Ly] + ([b.Lz] if c["ndim"] == 3 else [])
        if bool(b.is2D) != (c["ndim"] == 2) or any(abs(a - x) > 1e-5 * x for a, x in zip(got, L)):
            why = why or f"frame {t}: box {b} for lengths {L}"
    return skip, why, lb, lp


def judge_convert(c, lp):
    """convert_configuration against the property statement: coordinates relative to the box centre, up to a rigid
    translation per axis (freud wraps), z padded with zeros in 2D"""
    for t, f in enumerate(c["frames"]):
        P = np.asarray(lp[t])
        n = len(f["pos"])
        if P.shape != (n, 3):
            return "convert:shape", f"frame {t}: points shape {P.shape}, expected {(n, 3)}"
        if c["ndim"] == 2 and (P[:, 2] != 0).any():
            return "convert:z-padding", f"frame {t}: z column not zero"
        X = np.array([[float(x) for x in row] for row in f["pos"]])
        D = P[:, :c["ndim"]] - X
        if np.abs(D - D[0]).max() > 1e-9:
            return "convert:not-a-translation", f"frame {t}: points are not positions minus one constant vector"
        if not float_sum_zero(f):
            ctr = np.array([float(Fraction(a) + Fraction(b) / 2) for a, b in zip(f["lo"], f["len"])])
            if np.abs(D[0] + ctr).max() > 1e-9:
                return "convert:centre", f"frame {t}: shift {(-D[0]).tolist()} but the box centre is {ctr.tolist()}"
    return None


def own_box(c, t):
    import freud
    return freud.box.Box.from_box([float(x) for x in c["frames"][t]["len"]])


def judge_boxes(c, lb):
    """every frame must be tessellated in ITS OWN periodic box (the property: cell volumes sum to the box volume of the frame)"""
    for t, f in enumerate(c["frames"]):
        b = lb[t]
        L = [float(x) for x in f["len"]]
        got = [b.Lx, b.Ly] + ([b.Lz] if c["ndim"] == 3 else [])
        if bool(b.is2D) != (c["ndim"] == 2) or any(abs(a - x) > 1e-6 * x for a, x in zip(got, L)):      # (freud keeps box lengths in float32)
            return "convert:box", (f"frame {t} is handed to the tessellation in a box of lengths {got} but its own box has lengths {L} "
                                   f"(cell volumes cannot sum to the box volume of that frame)")
    return None


def nmaxs_of(choice, lines, N):
    out = []
    for t, ch in enumerate(choice):
        m = c05.max_cn(lines, N, t)
        out.append({"below": max(m - 1, 0), "at": m, "above": m + 1, "big": 200}[ch])
    return out


def run_cal(run, cases, count=True):
    """-> (disagreements [(case, why)], spec failures [(case, keytail, why)])"""
    tmp = tempfile.mkdtemp(prefix="c20-")
    dis, sf = [], []
    try:
        conv = common.drive([op_vconv(c, t) for c in cases for t in range(c["T"])])
        k = 0
        pend = []
        for c in cases:
            co = conv[k:k + c["T"]]
            k += c["T"]
            if any(o == "bad-op" for o in co):
                raise common.Infra("driver rejected vconv")
            skip, why, lb, lp = convert_check(c, co)
            if count:
                run.hist("cal.ndim", c["ndim"]); run.hist("cal.origin", c["origin"]); run.hist("cal.frames", c["T"])
                run.hist("cal.N", (c["N"] // 8) * 8)
            if skip:
                run.coverage["skipped_inside_margin"] = run.coverage.get("skipped_inside_margin", 0) + 1
                continue
            if why:
                dis.append((c, "convert_configuration: " + why))
            j = judge_convert(c, lp) or judge_boxes(c, lb)
            if j:
                sf.append((c, j[0], j[1]))
            # freud's raw output is computed in the harness's OWN box of each frame (not the one the real code built), so that a
            # wrong box handed to freud by the code is attributed to the code and not to freud
            raws = [freud_raw(own_box(c, t), lp[t]) for t in range(c["T"])]
            bad = [raw_contract(nl, w, vol, c["N"], box_volume(c["frames"][t], c["ndim"])) for t, (nl, w, vol) in enumerate(raws)]
            freud_bad = None
            if any(bad):
                first = str(next(b for b in bad if b))
                run.coverage.setdefault("freud_contract_failures", [])
                if count and len(run.coverage["freud_contract_failures"]) < 20:
                    run.coverage["freud_contract_failures"].append(first[:200])
                if not all(b is None or b.startswith("bond ") for b in bad):
                    # shapes / order / coverage / volume sum broken by freud itself: nothing about pymattersim can be judged
                    if count:
                        run.coverage["skipped_freud_contract"] = run.coverage.get("skipped_freud_contract", 0) + 1
                    continue
                # a face reported from one of the two cells only: the files can only mirror it (C20_symmetry_preserved);
                # everything else is still compared and judged, the asymmetry is attributed to freud
                freud_bad = first
                if count:
                    run.coverage["freud_one_sided_faces"] = run.coverage.get("freud_one_sided_faces", 0) + 1
            files, err, mutated = real_cal(c, tmp)
            pend.append((c, raws, files, err, mutated, freud_bad))
        outs = common.drive([op_vrender(c, raws) for c, raws, _, _, _, _ in pend]) if pend else []
        rd = []
        for (c, raws, files, err, mutated, freud_bad), o in zip(pend, outs):
            if o == "bad-op":
                raise common.Infra("driver rejected vrender")
            mfiles, merr = parse_vrender(o)
            if mutated:
                sf.append((c, "cal_neighbors:mutates-input", "cal_neighbors changed the snapshot arrays"))
            if err is not None:
                if merr is None:
                    dis.append((c, f"cal_neighbors raised {err}; the model writes the files"))
                sf.append((c, "cal_neighbors:raised:" + err.split(":")[0], f"cal_neighbors raised {err} on a configuration in general "
                           f"position ({c['ndim']}D, {c['N']} particles, {c['T']} frames, origin {c['origin']})"))
                continue
            if merr is not None:
                dis.append((c, f"model: guard raises ({merr}); the real code wrote the files"))
            else:
                for name, a, b in zip(("neighbour", "bond", "overall"), files, mfiles):
                    if a != b:
                        kk = next((i for i, (x, y) in enumerate(zip(a, b)) if x != y), min(len(a), len(b)))
                        dis.append((c, f"{name} file line {kk}: real {a[kk] if kk < len(a) else None} vs model "
                                       f"{b[kk] if kk < len(b) else None} ({len(a)} vs {len(b)} lines)"))
                        break
            j = judge_files(c, files, raws)
            if freud_bad and (j is None or j[0] in ("symmetric", "weights-equal")):
                sf.append((c, "cal_neighbors:freud-one-sided-face",
                           f"{c['ndim']}D, {c['N']} particles: freud's own neighbour list is not symmetric ({freud_bad}) and the written "
                           f"files reproduce it faithfully" + (f": {j[1]}" if j else "")))
            elif j:
                sf.append((c, "cal_neighbors:" + j[0], j[1]))
            if count:
                run.count(op_vrender(c, raws)[:2000], c["T"] > 1 or c["origin"] != "zero",
                          sample={"ndim": c["ndim"], "N": c["N"], "frames": c["T"], "origin": c["origin"],
                                  "neighbor": [" ".join(l) for l in files[0][:3]], "bond": [" ".join(l) for l in files[1][:2]],
                                  "overall": [" ".join(l) for l in files[2][:2]]})
                if any(len(set(map(tuple, nl.tolist()))) != len(nl) for nl, _, _ in raws):
                    run.hist("cal.features", "pair-sharing-several-faces")
                if any((nl[:, 0] == nl[:, 1]).any() for nl, _, _ in raws):
                    run.hist("cal.features", "particle-neighbour-of-its-own-image")
            # hand-off to the reader: both files, frame by frame from one handle
            for which, lines in (("neighbour", files[0]), ("bond", files[1])):
                if len(lines) >= c["T"] * (c["N"] + 1):
                    rd.append((c, which, lines, nmaxs_of(c["nmax_choice"], lines, c["N"])))
        outs2 = common.drive([c05.op_nread(lines, c["N"], nm) for c, _, lines, nm in rd]) if rd else []
        for (c, which, lines, nm), o in zip(rd, outs2):
            if o == "bad-op":
                raise common.Infra("driver rejected nread")
            why, rt, rrest = c05.compare_reader(lines, c["N"], nm, tmp, o)
            if why:
                dis.append((c, f"read_neighbors on the {which} file: " + why))
            j = c05.judge_read(lines, c["N"], nm, rt, rrest)
            if j:
                sf.append((c, f"{j[0]}:{which}", f"{which} file: " + j[1]))
            if count:
                run.coverage["evaluations"] += 1
                for x in nm:
                    run.hist("read.Nmax", x if x == 200 else "near-max-cn")
    finally:
        shutil.rmtree(tmp, ignore_errors=True)
    return dis, sf


# ----------------------------------------------------------------------------- stream `vm`

def fd_volumes(box, pts, n, ndim, deltar):
    """V1/V2 exactly as the code obtains them: in-place `+= δ`, `-= 2δ`, `+= δ` on one array, freud after each of the
    first two.  -> (original, V1[n][ndim], V2[n][ndim])"""
    points = np.array(pts, dtype=float, copy=True)
    original = freud_volumes(box, points)
    V1 = [[None] * ndim for _ in range(n)]
    V2 = [[None] * ndim for _ in range(n)]
    for i in range(n):
        for j in range(ndim):
            points[i, j] += deltar
            V1[i][j] = freud_volumes(box, points)
            points[i, j] -= 2 * deltar
            V2[i][j] = freud_volumes(box, points)
            points[i, j] += deltar
    return original, V1, V2


def op_vmat(mode, N, ndim, tr, deltar, original, V1, V2, M):
    parts = [f"vmat {mode} {N} {ndim} {1 if tr else 0} {q(deltar)}",
             " ".join(q(x) for i in range(N) for j in range(ndim) for x in V1[i][j].tolist()),
             " ".join(q(x) for i in range(N) for j in range(ndim) for x in V2[i][j].tolist()),
             " ".join(q(x) for x in original.tolist())]
    if tr:
        parts.append(" ".join(q(x) for x in np.asarray(M).ravel().tolist()))
    return " ".join(parts)


def parse_vmat(o):
    t = o.split()
    r, cdim = int(t[0]), int(t[1])
    return Fraction(t[2]), np.array([common.bits2float(x) for x in t[3:]]).reshape(r, cdim)


def float_matrix(N, ndim, deltar, original, V1, V2):
    """float replica of the Spec (only used to obtain M and error bounds when the real raw matrix is unavailable)"""
    A = np.zeros((N, N * ndim))
    for i in range(N):
        for j in range(ndim):
            m = (V1[i][j] - V2[i][j]) / (2 * deltar)
            A[:, ndim * i + j] = m
            A[i, ndim * i + j] = 0.0
    for k in range(N):
        A[k, ndim * k:ndim * k + ndim] = -A[k].reshape(N, ndim).sum(axis=0)
    return A / original[:, None]


def real_vm(c, call, tmp):
    """-> dict(result | error, saved, mutated)"""
    from PyMatterSim.neighbors.freud_neighbors import VolumeMatrix
    s = snapshots_of(c)
    h0 = digest(s)
    for fn in os.listdir(tmp):
        if fn.startswith("vm"):
            os.remove(os.path.join(tmp, fn))
    out = os.path.join(tmp, call["out"]) if call["out"] else ""
    res = {}
    try:
        res["result"] = np.asarray(VolumeMatrix(s, ndim=c["ndim"], nconfig=call["nconfig"], deltar=float(c["deltar"]),
                                                transform_matrix=call["transform"], outputfile=out))
    except Exception as e:  # noqa: BLE001
        res["error"] = f"{type(e).__name__}: {e}"
    res["mutated"] = digest(s) != h0
    if out:
        fn = out if out.endswith(".npy") else out + ".npy"
        res["saved"] = np.load(fn) if os.path.exists(fn) else None
    return res


def vm_shapes(c):
    return " ".join(f"{len(f['pos'])} 3" for f in c["frames"])


def run_vm(run, cases, count=True):
    from PyMatterSim.neighbors.freud_neighbors import convert_configuration
    tmp = tempfile.mkdtemp(prefix="c20v-")
    dis, sf = [], []
    try:
        jobs = [(c, call) for c in cases for call in c["calls"]]
        idx = common.drive([f"vmidx {call['nconfig']} {c['T']} {vm_shapes(c)}" for c, call in jobs]) if jobs else []
        cache = {}
        ops, meta = [], []
        for (c, call), io in zip(jobs, idx):
            if io == "bad-op":
                raise common.Infra("driver rejected vmidx")
            ndim, N, t = c["ndim"], c["N"], call["nconfig"]
            delt = float(c["deltar"])
            if count:
                run.hist("vm.ndim", ndim); run.hist("vm.N", N); run.hist("vm.frames", c["T"]); run.hist("vm.nconfig", t)
                run.hist("vm.transform", call["transform"]); run.hist("vm.outputfile", call["out"] or "unset")
                run.hist("vm.origin", c["origin"])
            real = real_vm(c, call, tmp)
            ck = id(c)
            if ck not in cache:
                cache[ck] = {"conv": convert_configuration(snapshots_of(c)), "fd": {}}
            lb, lp = cache[ck]["conv"]

            def fd(bi, pi, n):
                key = (bi, pi, n)
                if key not in cache[ck]["fd"]:
                    cache[ck]["fd"][key] = fd_volumes(own_box(c, bi), lp[pi], n, ndim, delt)      # the harness's own box of frame bi
                return cache[ck]["fd"][key]

            m = {"c": c, "call": call, "real": real, "spec_i": None, "impl_i": None}
            # --- Spec: the requested frame, all of its particles
            orig, V1, V2 = fd(t, t, N)
            Aref = float_matrix(N, ndim, delt, orig, V1, V2)
            m["Aref"] = Aref
            # M = what np.linalg.inv returns on the raw matrix the real code builds (same numpy calls); the float replica
            # of the Spec is used when the real raw matrix is not available
            M = None
            if call["transform"]:
                raw = real_vm(c, dict(call, transform=False, out=""), tmp).get("result")
                base = raw if raw is not None and raw.shape == Aref.shape and np.isfinite(raw).all() else Aref
                try:
                    M = np.linalg.inv(np.matmul(base, base.T))
                except np.linalg.LinAlgError:
                    M = None
                if M is None or not np.isfinite(M).all():
                    run.coverage["skipped_singular"] = run.coverage.get("skipped_singular", 0) + 1
                    continue
                m["M"] = M
                m["base"] = base
            m["spec_i"] = len(ops)
            ops.append(op_vmat("spec", N, ndim, call["transform"], delt, orig, V1, V2, M))
            # --- Impl: the frames / particle count the regenerated index expressions select
            if io.startswith("err "):
                m["impl_err"] = io[4:]
            else:
                _, bi, pi, n, sraw, strans = io.split()
                if call["out"] and (strans if call["transform"] else sraw) == "raises":
                    m["impl_err"] = "TypeError (np.save arguments)"
                o2, W1, W2 = fd(int(bi), int(pi), int(n))
                m["impl_i"] = len(ops)
                ops.append(op_vmat("impl", int(n), ndim, call["transform"], delt, o2, W1, W2, M))
            meta.append(m)
        outs = common.drive(ops) if ops else []
        for m in meta:
            c, call, real = m["c"], m["call"], m["real"]
            ndim, N, t = c["ndim"], c["N"], call["nconfig"]
            tag = f"{ndim}D N={N} frames={c['T']} nconfig={t} transform={call['transform']} outputfile={call['out']!r}"
            if outs[m["spec_i"]] == "bad-op" or (m["impl_i"] is not None and outs[m["impl_i"]] == "bad-op"):
                raise common.Infra("driver rejected vmat")
            rs_spec, S = parse_vmat(outs[m["spec_i"]])
            A = m["Aref"]
            if call["transform"]:
                absA = np.abs(A)
                bound = 4096 * EPS * (absA.T @ np.abs(m["M"]) @ absA) + 1e-12
                Ab = m["base"]     # the raw matrix the real code built (row-sum bound of ITS product Aᵀ·M·A)
                rsb = 4096 * EPS * (np.abs(Ab.T @ m["M"]) @ np.abs(Ab)).reshape(N * ndim, N, ndim).sum(axis=1) + 1e-12
            else:
                bound = 1e-9 * np.maximum(1.0, np.abs(S))
                rsb = None         # raw matrix: bound from the returned rows themselves (below)
            # ---- correspondence: real vs Impl
            if "impl_err" in m:
                if "error" not in real:
                    dis.append((c, f"VolumeMatrix({tag}) returned shape {real['result'].shape}; the model raises {m['impl_err']}"))
            elif "error" in real:
                dis.append((c, f"VolumeMatrix({tag}) raised {real['error']}; the model returns a matrix"))
            else:
                rs_i, I = parse_vmat(outs[m["impl_i"]])
                R = real["result"]
                if R.shape != I.shape:
                    dis.append((c, f"VolumeMatrix({tag}) shape {R.shape} vs model {I.shape}"))
                else:
                    b2 = bound if I.shape == bound.shape else 1e-9 * np.maximum(1.0, np.abs(I))
                    bad = np.argwhere(~(np.abs(R - I) <= b2))
                    if len(bad):
                        r0, c0 = bad[0]
                        dis.append((c, f"VolumeMatrix({tag})[{r0},{c0}] = {float(R[r0, c0])!r} vs model {float(I[r0, c0])!r} (bound {b2[r0, c0]:.2e})"))
            # ---- the property statement: real vs Spec of the REQUESTED frame
            if real.get("mutated"):
                sf.append((c, "VolumeMatrix:mutates-input", f"VolumeMatrix({tag}) changed the snapshot arrays"))
            if "error" in real:
                exc = real["error"].split(":")[0]
                if call["out"] and not call["transform"] and exc == "TypeError":
                    key = "VolumeMatrix:save-raw:raised:" + exc
                elif t != 0:
                    key = "VolumeMatrix:nconfig!=0:raised:" + exc
                else:
                    key = "VolumeMatrix:raised:" + exc
                sf.append((c, key, f"VolumeMatrix({tag}) raised {real['error']}"))
            else:
                R = real["result"]
                if R.shape != S.shape:
                    sf.append((c, "VolumeMatrix:shape", f"VolumeMatrix({tag}) returned shape {R.shape}, expected {S.shape}"))
                else:
                    rs = R.reshape(R.shape[0], N, ndim).sum(axis=1)
                    if rsb is None:
                        rsb = 64 * N * EPS * np.abs(R).reshape(R.shape[0], N, ndim).sum(axis=1) + 1e-13
                    badr = np.argwhere(~(np.abs(rs) <= rsb))
                    if len(badr):
                        r0, d0 = badr[0]
                        sf.append((c, "VolumeMatrix:rowsum", f"VolumeMatrix({tag}): row {r0} sums to {float(rs[r0, d0])!r} over displaced "
                                                             f"coordinate {d0} (rounding bound {rsb[r0, d0]:.2e})"))
                    bad = np.argwhere(~(np.abs(R - S) <= bound))
                    if len(bad):
                        r0, c0 = bad[0]
                        other = ""
                        if c["T"] > 1 and not call["transform"]:
                            other = " — not the volume response of the requested frame"
                        sf.append((c, "VolumeMatrix:entries", f"VolumeMatrix({tag})[{r0},{c0}] = {float(R[r0, c0])!r}, the definition on frame "
                                                              f"{t} gives {float(S[r0, c0])!r} (bound {bound[r0, c0]:.2e}){other}"))
                    if call["out"]:
                        sv = real.get("saved")
                        if sv is None or sv.shape != R.shape or not np.array_equal(sv, R):
                            sf.append((c, "VolumeMatrix:saved-file", f"VolumeMatrix({tag}): the saved .npy "
                                                                     f"{'is missing' if sv is None else 'differs from the returned array'}"))
            if rs_spec != 0:
                raise common.Infra(f"model self-check: Spec row sums are not exactly zero ({rs_spec})")
            if count:
                run.count([c["frames"], call, c["deltar"]], t != 0 or bool(call["out"]) or call["transform"],
                          sample={"call": tag, "origin": c["origin"], "deltar": c["deltar"],
                                  "result_row0": (real["result"][0][:4].tolist() if "result" in real else real["error"])})
                if call["transform"] and "result" in real:
                    G = A @ A.T
                    run.coverage["max_cond_AAt"] = max(run.coverage.get("max_cond_AAt", 0.0), float(np.linalg.cond(G)))
                    run.coverage["max_inv_residual"] = max(run.coverage.get("max_inv_residual", 0.0),
                                                           float(np.abs(m["M"] @ G - np.eye(N)).max()))
    finally:
        shutil.rmtree(tmp, ignore_errors=True)
    return dis, sf


# ----------------------------------------------------------------------------- pipeline entry points

def run_cases(run, cases, count=True):
    d1, s1 = run_cal(run, [c for c in cases if c["kind"] == "cal"], count)
    d2, s2 = run_vm(run, [c for c in cases if c["kind"] == "vm"], count)
    return d1 + d2, s1 + s2


def correspond(run):
    ncal, nvm = (60, 10) if run.tier == "quick" else (1500, 150)
    cases = common.load_corpus(PROP)
    run.coverage["corpus_cases"] = len(cases)
    cases += [gen_cal(run.rng) for _ in range(ncal)] + [gen_vm(run.rng) for _ in range(nvm)]
    dis, sf = run_cases(run, cases)
    run.coverage["traces_validated_against_impl"] = run.coverage["evaluations"]
    broken = []
    if dis:
        broken.append({"kind": "correspondence", "name": "Pms.Voro.Impl~freud_neighbors/read_neighbors",
                       "detail": f"{len(dis)} disagreements; first: {dis[0][1][:300]}", "cases": [c for c, _ in dis[:30]]})
    if sf:
        broken.append({"kind": "monitor", "name": "C20 property statement on real output",
                       "detail": f"{len(sf)} failures; first: {sf[0][2][:300]}", "cases": [c for c, _, _ in sf[:40]]})
    return broken


def failing(run, c):
    """does the REAL code contradict the property statement on this input?  -> [(key, message)]"""
    memo = run.__dict__.setdefault("_c20_memo", {})
    ck = common.sha(json.dumps(c, sort_keys=True))
    if ck in memo:
        return memo[ck]
    _, sf = run_cases(run, [c], count=False)
    out, seen = [], set()
    for _, k, msg in sf:
        if k not in seen:
            seen.add(k)
            out.append(("C20:" + k, msg))
    memo[ck] = out
    return out


def shrink(run, c, key):
    def still(cand):
        try:
            return any(k == key for k, _ in failing(run, cand))
        except common.Infra:
            return False

    best = c
    if best["kind"] == "vm":
        # one call only
        for call in sorted(best["calls"], key=lambda k: (bool(k["out"]), k["transform"], k["nconfig"])):
            cand = dict(best, calls=[call])
            if still(cand):
                best = cand
                break
        # fewer frames (keep the requested one reachable)
        call = best["calls"][0]
        while best["T"] > call["nconfig"] + 1:
            cand = dict(best, T=best["T"] - 1, frames=best["frames"][:-1])
            if not still(cand):
                break
            best = cand
        lo_n = 4
    else:
        for t in range(best["T"]):
            if best["T"] > 1:
                cand = dict(best, T=1, frames=[best["frames"][t]], nmax_choice=[best["nmax_choice"][t]])
                if still(cand):
                    best = cand
                    break
        lo_n = 6
    changed = True
    while changed and best["N"] > lo_n:
        changed = False
        for p in range(best["N"] - 1, -1, -1):
            cand = dict(best, N=best["N"] - 1, frames=[dict(f, pos=[r for k, r in enumerate(f["pos"]) if k != p]) for f in best["frames"]])
            if still(cand):
                best, changed = cand, True
                break
    return best


def search(run, broken):
    unexplained, tried = [], 0
    seen = set()
    gen_pool = None
    for b in broken:
        found = False
        pool = list(b.get("cases", []))
        if not pool:
            if gen_pool is None:
                gen_pool = [gen_cal(run.rng) for _ in range(30)] + [gen_vm(run.rng) for _ in range(6)]
            pool = gen_pool
        for c in pool:
            tried += 1
            fs = failing(run, c)
            for key, msg in fs:
                listed = any(e["key"] == key for e in run.known)
                # a listed finding explains the monitor that reported it, never a broken theorem / translator
                if not listed or b["kind"] == "monitor":
                    found = True
                if key in seen:
                    continue
                seen.add(key)
                if listed:
                    run.violation(key, msg, {"case": c, "broken": b["name"]})     # no shrinking, no replay file
                    continue
                c2 = shrink(run, c, key)
                msg2 = next((m for k, m in failing(run, c2) if k == key), msg)
                run.violation(key, msg2, {"case": c2, "broken": b["name"]})
        if not found:
            unexplained.append(b)
    run.coverage["search_cases"] = tried
    return unexplained


def replay(run, rp):
    if "case" in rp:
        fs = failing(run, rp["case"])
        for k, msg in fs:
            print(f"  {k}: {msg}")
        return any(k == rp.get("key") for k, _ in fs) if rp.get("key") else bool(fs)
    import sys
    st = common.proof_stage(run, sys.modules[__name__])
    names = {b["name"] for b in rp.get("broken", [])}
    still = [b for b in st["broken"] if b["name"] in names or b["kind"] in ("translator", "proof")]
    for b in still:
        print(f"  still broken: {b['kind']} {b['name']}")
    if still or not st["driver_ok"]:
        return True
    dis, sf = run_cases(run, rp.get("cases", []), count=False)
    for c, why in dis[:3]:
        print("  still disagrees: " + why[:200])
    return bool(dis or sf)
