"""C07 — symmetries.  The theorems (Pms/Props/C07.lean) are stated on the Specs of the properties that own each
observable; the tie to the source is METAMORPHIC execution of the REAL routines: a configuration and its image under a
generator of the symmetry group (translation, lattice shift, relabelling, species swap, axis permutation, rotation of an
open cluster, dilation) are both fed to the real routine and the outputs compared (1e-8; discrete outputs exactly), under
margin guards that keep every discrete decision of the code (rint, bin edge, cutoff, sort order) away from its flip
point.  The generators are executed twice: by numpy here and by the Lean definitions of Pms/Model/Sym.lean in exact
rational arithmetic (driver op `sym`), and the two are compared before a transformed input is used.
A metamorphic failure of the real code is a concrete failing input of the property."""
import logging
import math
import os
import random
import shutil
import tempfile
import time
import warnings
from fractions import Fraction

import numpy as np

import common

logging.disable(logging.CRITICAL)

PROP = "C07"
PROPS_FILES = ["Pms/Props/C07.lean", "Pms/Props/C07Sq.lean", "Pms/Props/C07Rot.lean", "Pms/Props/C07Pair.lean", "Pms/Props/C07Dyn.lean", "Pms/Props/C07Ql.lean"]
GENERATORS = []
RULE = ("metamorphic pairs (configuration, transformed configuration) × real routine; configurations = seeded decimal-grid "
        "configurations (2D/3D, orthogonal and triclinic cells, 1-4 species, 1-5 frames, open clusters) and first frames of "
        "the repo's sample trajectories; transformations = translation, lattice shift, id permutation, species swap, axis "
        "permutation (with the box), exact rational SO(2)/SO(3) rotation of open clusters, dilation; a pair is judged only "
        "when every discrete decision of the routine is ≥ 1e-7 (relative) from its flip point; non-trivial = the "
        "transformation is not the identity and the routine's output is not constant; distinct = distinct (routine, "
        "transformation kind, configuration) triples")
TRUSTED_BASE = [
    "Lean 4.33 kernel; axioms propext, Classical.choice, Quot.sound only",
    "C07 theorems are stated on the Specs of C02/C03/C04/C05/C06/C10/C11/C15/C17 (Pms/Model/*.lean); they reach the code "
    "through those properties' refinement theorems and correspondences (not re-run here) and, directly, through the "
    "metamorphic execution of the real routines in this check (a test, not a proof)",
    "the group actions of Pms/Model/Sym.lean are executed by the driver in exact ℚ and compared with the numpy "
    "transformations used on the real code (1e-9)",
    "rotation invariance of q_l, of the coarse-grained Q_l and of s_ij is PROVED for every degree l ≤ 12 (C07_rot_ql, C07_rot_Ql, "
    "C07_rot_sij): the spherical-harmonic addition theorem is proved for the model's own Y_lm from a trivariate polynomial identity "
    "decided in the kernel (`decide +kernel`, no native_decide); for l > 12 it is a hypothesis (C07_rot_ql_partial); rotation "
    "invariance of ŵ_l is not proved (full statement kept as a Prop), only tested",
    "float64 ≈ ℝ, numpy/pandas/LAPACK primitives by contract; cos/sin addition formulas and 2π-periodicity from Mathlib",
    "margin guards and tolerances of harness/corr/C07.py (1e-8 on reals, 2e-6 on S(q) after the code's round(6))",
]

SAMPLE_DIR = os.path.join(common.REPO, "tests", "sample_test_data")
TOL = 1e-8
MARGIN = 1e-7          # rint arguments (fractional units), distance gaps, cutoff comparisons
EDGE_MARGIN = 1e-9     # pair distance vs histogram bin edge, relative to the box size (float error is ~1e-15 relative)


# ----------------------------------------------------------------------------- configurations

def fstr(x):
    return repr(float(x))


def gen_config(rng, d, N, K=1, T=1, cell="orth", ppp=None, Lrange=(3.0, 5.0), spread=None, minsep=0.0, shear=False):
    """decimal-grid configuration; cell ∈ orth | cubic | tri ; open clusters have ppp = 0.  Box lengths have three
    decimals with an odd last digit, positions three decimals: no pair can sit exactly on a half-cell tie of an
    orthogonal cell.  minsep: minimum (minimum-image) separation enforced in frame 0 by rejection."""
    def blen():
        v = int(round(rng.uniform(*Lrange) * 1000)) | 1
        return f"{v // 1000}.{v % 1000:03d}"
    if cell == "cubic":
        L = [blen()] * d
    else:
        L = [blen() for _ in range(d)]
    H = [[L[i] if i == j else "0" for j in range(d)] for i in range(d)]
    if cell == "tri":
        for i in range(d):
            for j in range(i):
                H[i][j] = common.dec(rng, -0.8, 0.8, nd=2)
        common.sparse_tilt(rng, H)
    types = [1 + (i % K) for i in range(N)]
    rng.shuffle(types)
    Hf = np.array([[float(x) for x in row] for row in H])
    Hinv = np.linalg.inv(Hf)
    per = np.array(ppp if ppp is not None else [1] * d, dtype=float)
    base = []
    tries = 0
    while len(base) < N:
        p = [round(rng.uniform(0, float(L[k]) if spread is None else spread), 3) for k in range(d)]
        tries += 1
        if minsep > 0 and base and tries < 20000:
            diff = np.array(base) - np.array(p)
            f = diff @ Hinv
            r = (f - np.rint(f) * per) @ Hf
            if np.sqrt((r ** 2).sum(axis=1)).min() < minsep:
                continue
        base.append(p)
    pos = []
    for t in range(T):
        pos.append([[f"{base[i][k] + (0 if t == 0 else rng.uniform(-0.25, 0.25) * t ** 0.5):.3f}" for k in range(d)] for i in range(N)])
    cfg = {"d": d, "N": N, "T": T, "L": L, "H": H, "ppp": ppp if ppp is not None else [1] * d, "types": types, "pos": pos,
           "src": f"gen:{cell}"}
    if shear and cell == "tri" and T >= 2:
        # a sheared trajectory: the same box lengths, another tilt in every frame (cell of frame 0 = H)
        Hs = [H]
        for t in range(1, T):
            Ht = [row[:] for row in H]
            for i in range(d):
                for j in range(i):
                    Ht[i][j] = common.dec(rng, -0.8, 0.8, nd=2)
            Hs.append(Ht)
        cfg["Hs"] = Hs
        cfg["src"] = "gen:tri-sheared"
    return cfg


_SAMPLE_CACHE = {}


def sample_config(name, ndim, nmax=None, frames=1, center_cluster=None):
    """first frame(s) of a repo sample trajectory as a configuration (decimal strings = repr of the parsed doubles).
    center_cluster = n: the n particles nearest (minimum image) to particle 0, unwrapped around it — an open cluster"""
    key = (name, ndim, nmax, frames, center_cluster)
    if key in _SAMPLE_CACHE:
        return _SAMPLE_CACHE[key]
    from PyMatterSim.reader.dump_reader import DumpReader
    path = os.path.join(SAMPLE_DIR, name)
    if not os.path.exists(path):
        return None
    rd = DumpReader(path, ndim=ndim)
    rd.read_onefile()
    snaps = rd.snapshots.snapshots[:frames]
    s0 = snaps[0]
    N = s0.nparticle
    sel = np.arange(N)
    H = np.asarray(s0.hmatrix, dtype=float)
    ppp = [1] * ndim
    poss = [np.asarray(s.positions, dtype=float) for s in snaps]
    if center_cluster:
        Hinv = np.linalg.inv(H)
        f = (poss[0] - poss[0][0]) @ Hinv
        rij = (f - np.rint(f)) @ H
        order = np.argsort(np.linalg.norm(rij, axis=1), kind="stable")[:center_cluster]
        sel = np.sort(order)
        poss = [rij[sel]]
        ppp = [0] * ndim
    elif nmax and nmax < N:
        sel = np.arange(nmax)
        poss = [p[sel] for p in poss]
    cfg = {"d": ndim, "N": len(sel), "T": len(poss), "L": [fstr(x) for x in s0.boxlength],
           "H": [[fstr(x) for x in row] for row in H], "ppp": ppp,
           "types": [int(t) for t in np.asarray(s0.particle_type)[sel]],
           "pos": [[[fstr(x) for x in row] for row in p] for p in poss],
           "src": f"sample:{name}" + (f":cluster{center_cluster}" if center_cluster else "") + (f":first{nmax}" if nmax and nmax < N else "")}
    _SAMPLE_CACHE[key] = cfg
    return cfg


def arrays(cfg):
    H = np.array([[float(x) for x in row] for row in cfg["H"]])
    Hs = np.array([[[float(x) for x in row] for row in Ht] for Ht in cfg["Hs"]]) if "Hs" in cfg else np.array([H] * cfg["T"])
    return {"d": cfg["d"], "N": cfg["N"], "T": cfg["T"],
            "L": np.array([float(x) for x in cfg["L"]]),
            "H": H, "Hs": Hs,
            "ppp": np.array([int(x) for x in cfg["ppp"]]),
            "types": np.array(cfg["types"], dtype=int),
            "pos": np.array([[[float(x) for x in row] for row in fr] for fr in cfg["pos"]], dtype=float).reshape(cfg["T"], cfg["N"], cfg["d"])}


def snapshots_of(A, steps=None):
    from PyMatterSim.reader.reader_utils import SingleSnapshot, Snapshots
    d = A["d"]
    snaps = []
    for t in range(A["T"]):
        snaps.append(SingleSnapshot(timestep=(steps[t] if steps else t), nparticle=A["N"], particle_type=A["types"].copy(),
                                    positions=A["pos"][t].copy(), boxlength=A["L"].copy(),
                                    boxbounds=np.column_stack((np.zeros(d), A["L"])), realbounds=None, hmatrix=A["Hs"][t].copy()))
    return Snapshots(nsnapshots=A["T"], snapshots=snaps)


# ----------------------------------------------------------------------------- the group

PYTH = [(3, 4, 5), (5, 12, 13), (8, 15, 17), (7, 24, 25), (20, 21, 29), (12, 35, 37)]


def rational_rotation(rng, d):
    """an exactly orthogonal rational matrix with determinant +1 (list of Fraction rows)"""
    if d == 2:
        a, b, c = rng.choice(PYTH)
        co, si = Fraction(a, c), Fraction(b, c)
        if rng.random() < 0.5:
            co, si = si, co
        if rng.random() < 0.5:
            si = -si
        if rng.random() < 0.3:
            co = -co
        return [[co, -si], [si, co]]
    # 3D: unit quaternion with integer components
    while True:
        q = [rng.randint(-4, 4) for _ in range(4)]
        n = sum(x * x for x in q)
        if n > 0 and sum(1 for x in q if x) >= 2:
            break
    w, x, y, z = [Fraction(v) for v in q]
    n = Fraction(n)
    return [[(w * w + x * x - y * y - z * z) / n, 2 * (x * y - w * z) / n, 2 * (x * z + w * y) / n],
            [2 * (x * y + w * z) / n, (w * w - x * x + y * y - z * z) / n, 2 * (y * z - w * x) / n],
            [2 * (x * z - w * y) / n, 2 * (y * z + w * x) / n, (w * w - x * x - y * y + z * z) / n]]


def make_tf(kind, cfg, seed):
    """the group element, derived deterministically from (kind, cfg sizes, seed)"""
    rng = random.Random(f"tf-{kind}-{seed}")
    d, N = cfg["d"], cfg["N"]
    if kind == "translate":
        return {"kind": kind, "c": [common.dec(rng, -7, 7, nd=3) for _ in range(d)]}
    if kind == "lshift":
        # every particle of every frame gets its own whole number of cell vectors
        return {"kind": kind, "m": [[[rng.randint(-2, 2) for _ in range(d)] for _ in range(N)] for _ in range(cfg["T"])]}
    if kind == "relabel":
        s = list(range(N))
        while N > 1 and s == list(range(N)):
            rng.shuffle(s)
        return {"kind": kind, "sigma": s}
    if kind == "swap":
        ks = sorted(set(cfg["types"]))
        a, b = rng.sample(ks, 2)
        return {"kind": kind, "a": min(a, b), "b": max(a, b)}
    if kind == "axes":
        p = list(range(d))
        while p == list(range(d)):
            rng.shuffle(p)
        return {"kind": kind, "pi": p}
    if kind == "rot":
        R = rational_rotation(rng, d)
        return {"kind": kind, "R": [[str(x) for x in row] for row in R]}
    if kind == "dilate":
        return {"kind": kind, "s": rng.choice(["2", "0.5", "1.5", "3", "1.25", "0.8"])}
    raise ValueError(kind)


def apply_tf(A, tf):
    """numpy version of the generators of Pms/Model/Sym.lean"""
    B = dict(A)
    k = tf["kind"]
    if k == "translate":
        B["pos"] = A["pos"] + np.array([float(x) for x in tf["c"]])[None, None, :]
    elif k == "lshift":
        m = np.array(tf["m"], dtype=float)                      # [T, N, d]
        B["pos"] = A["pos"] + np.einsum("tna,tab->tnb", m * A["ppp"][None, None, :], A["Hs"])     # each frame's own cell
    elif k == "relabel":
        s = np.array(tf["sigma"])
        B["pos"] = A["pos"][:, s, :]
        B["types"] = A["types"][s]
    elif k == "swap":
        a, b = tf["a"], tf["b"]
        t = A["types"].copy()
        t[A["types"] == a] = b
        t[A["types"] == b] = a
        B["types"] = t
    elif k == "axes":
        p = np.array(tf["pi"])
        B["pos"] = A["pos"][:, :, p]
        B["L"] = A["L"][p]
        B["H"] = A["H"][p][:, p]
        B["Hs"] = A["Hs"][:, p][:, :, p]
        B["ppp"] = A["ppp"][p]
    elif k == "rot":
        R = np.array([[float(Fraction(x)) for x in row] for row in tf["R"]])
        B["pos"] = A["pos"] @ R.T
    elif k == "dilate":
        s = float(tf["s"])
        B["pos"] = A["pos"] * s
        B["L"] = A["L"] * s
        B["H"] = A["H"] * s
        B["Hs"] = A["Hs"] * s
    return B


def driver_lines(cfg, tf, nlim=60):
    """`sym` ops that make the Lean definitions produce the same transformed data (frame 0, first nlim particles)"""
    d = cfg["d"]
    n = min(cfg["N"], nlim)
    P = " ".join(x for row in cfg["pos"][0][:n] for x in row)
    k = tf["kind"]
    if k == "translate":
        return [f"sym translate {d} {n} {P} " + " ".join(tf["c"])]
    if k == "lshift":
        return [f"sym lshift {d} " + " ".join(x for row in cfg["H"] for x in row) + " " + " ".join(str(x) for x in cfg["ppp"]) +
                f" {n} {P} " + " ".join(str(x) for row in tf["m"][0][:n] for x in row)]
    if k == "relabel":
        if cfg["N"] > nlim:
            return []
        return [f"sym relabel {d} {n} " + " ".join(str(x) for x in tf["sigma"]) + " " + P]
    if k == "axes":
        return [f"sym axes {d} " + " ".join(str(x) for x in tf["pi"]) + f" {n} {P}",
                f"sym axesmat {d} " + " ".join(str(x) for x in tf["pi"]) + " " + " ".join(x for row in cfg["H"] for x in row)]
    if k == "rot":
        return [f"sym rot {d} " + " ".join(x for row in tf["R"] for x in row) + f" {n} {P}"]
    if k == "dilate":
        return [f"sym dilate {tf['s']} {d} {n} {P}"]
    if k == "swap":
        return [f"sym swap {tf['a']} {tf['b']} {n} " + " ".join(str(t) for t in cfg["types"][:n])]
    return []


def check_against_model(cfg, tf, B, outs, nlim=60):
    """compare numpy-transformed data with the driver's exact result; returns None or a message"""
    if not outs:
        return None
    d = cfg["d"]
    n = min(cfg["N"], nlim)
    k = tf["kind"]
    toks = outs[0].split()
    if outs[0] == "bad-op":
        return "driver rejected the sym op"
    if k == "rot":
        if toks[0] != "1":
            return "rotation matrix is not exactly orthogonal in the model"
        toks = toks[1:]
    if k == "swap":
        got = [int(x) for x in toks]
        return None if got == [int(x) for x in B["types"][:n]] else "swap: numpy and model disagree"
    got = np.array([float(Fraction(x)) for x in toks]).reshape(n, d)
    if not np.allclose(got, B["pos"][0][:n], rtol=1e-9, atol=1e-9):
        return f"{k}: numpy and model positions disagree"
    if k == "axes":
        Hm = np.array([float(Fraction(x)) for x in outs[1].split()]).reshape(d, d)
        if not np.allclose(Hm, B["H"], rtol=1e-12, atol=1e-12):
            return "axes: numpy and model cell disagree"
    return None


# ----------------------------------------------------------------------------- geometry used by the margin guards

def pair_geom(A, t):
    """independent minimum-image pair table: returns (D [N,N] distances, tie margin of the rint arguments)"""
    pos, H, ppp = A["pos"][t], A["Hs"][t], A["ppp"]
    Hinv = np.linalg.inv(H)
    diff = pos[None, :, :] - pos[:, None, :]              # diff[i, j] = r_j - r_i
    f = diff @ Hinv
    tie = 1.0
    if ppp.any():
        g = np.abs(f[:, :, ppp.astype(bool)])
        tie = float(np.min(np.abs((g % 1.0) - 0.5))) if g.size else 1.0
    f = f - np.rint(f) * ppp[None, None, :]
    r = f @ H
    return np.sqrt((r ** 2).sum(axis=2)), tie


def offdiag(D):
    n = D.shape[0]
    return D[~np.eye(n, dtype=bool)]


def edge_margin(values, edges):
    if len(values) == 0 or len(edges) == 0:
        return 1.0
    idx = np.searchsorted(edges, values)
    lo = np.abs(values - edges[np.clip(idx - 1, 0, len(edges) - 1)])
    hi = np.abs(values - edges[np.clip(idx, 0, len(edges) - 1)])
    return float(np.min(np.minimum(lo, hi)))


def gap_margin(D, upto):
    """smallest gap between consecutive sorted distances of each row among its `upto` smallest"""
    S = np.sort(D, axis=1)[:, :upto]
    if S.shape[1] < 2:
        return 1.0
    return float(np.min(np.diff(S, axis=1)))


# ----------------------------------------------------------------------------- files

def write_neigh(path, frames):
    """frames: list (per frame) of list (per particle) of 0-based neighbour ids"""
    with open(path, "w") as f:
        for fr in frames:
            f.write("id     cn     neighborlist\n")
            for i, r in enumerate(fr):
                f.write(f"{i + 1} {len(r)} " + " ".join(str(j + 1) for j in r) + "\n")


def read_neigh(path, T, n):
    out = []
    with open(path) as f:
        for _ in range(T):
            f.readline()
            rows = [None] * n
            for _ in range(n):
                it = f.readline().split()
                rows[int(it[0]) - 1] = [int(v) - 1 for v in it[2:2 + int(it[1])]]
            out.append(rows)
    return out


def real_neighbors(A, mode, param, tmp):
    from PyMatterSim.neighbors import calculate_neighbors as cn
    fn = os.path.join(tmp, f"nb{random.random()}.dat")
    S = snapshots_of(A)
    if mode == "nn":
        cn.Nnearests(S, int(param), A["ppp"].copy(), fn)
    else:
        cn.cutoffneighbors(S, float(param), A["ppp"].copy(), fn)
    out = read_neigh(fn, A["T"], A["N"])
    os.remove(fn)
    return out


def map_neigh(nb, tf):
    """the neighbour table of the transformed configuration, given the table of the original"""
    if tf["kind"] != "relabel":
        return nb
    s = tf["sigma"]
    inv = [0] * len(s)
    for i, o in enumerate(s):
        inv[o] = i
    return [[[inv[q] for q in fr[s[i]]] for i in range(len(s))] for fr in nb]


def perm_rows(x, tf, axis):
    """per-particle output of the original → expected per-particle output of the transformed configuration"""
    if tf["kind"] != "relabel":
        return x
    return np.take(np.asarray(x), np.array(tf["sigma"]), axis=axis)


# ----------------------------------------------------------------------------- routines
# each routine:  run(A, P, tmp, aux) -> output ;  guard(A, P) -> (ok, why) ;  expect(out0, tf, P) -> expected output on the
# transformed configuration ;  params_tf(P, tf) -> parameters of the transformed run ;  cmp tolerance

def cmp_arrays(a, b, tol=TOL, what=""):
    a = np.asarray(a, dtype=float)
    b = np.asarray(b, dtype=float)
    if a.shape != b.shape:
        return f"{what}: shape {a.shape} vs {b.shape}"
    both_nan = np.isnan(a) & np.isnan(b)
    with np.errstate(invalid="ignore"):
        bad = ~both_nan & ~(np.abs(a - b) <= tol * np.maximum(1.0, np.maximum(np.abs(a), np.abs(b))))
    if bad.any():
        i = int(np.argmax(bad.ravel()))
        return f"{what}: {int(bad.sum())} of {a.size} values differ, e.g. [{i}] {a.ravel()[i]!r} vs {b.ravel()[i]!r}"
    return None


def cmp_dict(e, g, tol=TOL):
    if sorted(e) != sorted(g):
        return f"outputs {sorted(e)} vs {sorted(g)}"
    for k in e:
        r = cmp_arrays(e[k], g[k], tol, k)
        if r:
            return r
    return None


# --- g(r)
def gr_run(A, P, tmp, aux):
    from PyMatterSim.static.gr import gr
    df = gr(snapshots_of(A), ppp=A["ppp"].copy(), rdelta=float(P["rdelta"])).getresults()
    return {str(c): df[c].to_numpy(dtype=float) for c in df.columns}


def gr_guard(A, P):
    delta = float(P["rdelta"])
    q = float(A["L"].min()) / 2.0 / delta
    if abs(q - round(q)) < 1e-6:
        return False, "maxbin"
    maxbin = int(q)
    edges = np.arange(maxbin + 1) * delta
    for t in range(A["T"]):
        D, tie = pair_geom(A, t)
        if tie < MARGIN:
            return False, "rint-tie"
        if edge_margin(offdiag(D), edges) < EDGE_MARGIN * max(1.0, float(A["L"].max())):
            return False, "bin-edge"
    return True, ""


def swap_name(name, prefix, a, b):
    """column name after swapping the species digits a and b (partial columns are named <prefix><x><y>, x ≤ y)"""
    if not name.startswith(prefix) or len(name) != len(prefix) + 2:
        return name
    x, y = int(name[-2]), int(name[-1])
    sw = lambda z: b if z == a else a if z == b else z
    x, y = sorted((sw(x), sw(y)))
    return f"{prefix}{x}{y}"


def gr_expect(out, tf, P):
    if tf["kind"] == "swap":
        return {swap_name(k, "gr", tf["a"], tf["b"]): v for k, v in out.items()}
    if tf["kind"] == "dilate":
        e = dict(out)
        e["r"] = out["r"] * float(tf["s"])
        return e
    return out


def gr_params(P, tf):
    if tf["kind"] == "dilate":
        return {"rdelta": repr(float(P["rdelta"]) * float(tf["s"]))}
    return P


# --- S(q)
def sq_run(A, P, tmp, aux):
    from PyMatterSim.static.sq import sq
    df = sq(snapshots_of(A), qrange=float(P["qrange"]), onlypositive=False).getresults()
    return {str(c): df[c].to_numpy(dtype=float) for c in df.columns}


def sq_guard(A, P):
    if np.abs(A["H"] - np.diag(np.diag(A["H"]))).max() > 0:
        return False, "triclinic"
    from PyMatterSim.utils.wavevector import choosewavevector
    tw = 2 * np.pi / A["L"]
    x = float(P["qrange"]) * 2.0 / tw.min()
    if abs(x - round(x)) < 1e-6:
        return False, "numofq"
    qv = choosewavevector(A["d"], int(x), False).astype(float) * tw[None, :]
    qn = np.linalg.norm(qv, axis=1) * 1e6
    if np.min(np.abs((qn % 1.0) - 0.5)) < 1e-3:
        return False, "q-rounding"
    return True, ""


def sq_expect(out, tf, P):
    if tf["kind"] == "swap":
        return {swap_name(k, "Sq", tf["a"], tf["b"]): v for k, v in out.items()}
    return out


# --- neighbours
def nb_run(A, P, tmp, aux):
    return real_neighbors(A, P["mode"], P["param"], tmp)


def nb_guard(A, P):
    for t in range(A["T"]):
        D, tie = pair_geom(A, t)
        if tie < MARGIN:
            return False, "rint-tie"
        if P["mode"] == "nn":
            if int(P["param"]) + 1 > A["N"]:
                return False, "N"
            if gap_margin(D, min(A["N"], int(P["param"]) + 2)) < MARGIN:
                return False, "distance-tie"
        else:
            if np.min(np.abs(D - float(P["param"]))) < MARGIN:
                return False, "cutoff-edge"
            inside = np.where(D <= float(P["param"]), D, np.inf)
            S = np.sort(inside, axis=1)
            with np.errstate(invalid="ignore"):
                gaps = np.diff(S, axis=1)
            gaps = gaps[np.isfinite(gaps)]
            if gaps.size and gaps.min() < MARGIN:
                return False, "distance-tie"
    return True, ""


def nb_expect(out, tf, P):
    return map_neigh(out, tf)


def nb_cmp(e, g):
    if e != g:
        for t, (fe, fg) in enumerate(zip(e, g)):
            for i, (re_, rg) in enumerate(zip(fe, fg)):
                if re_ != rg:
                    return f"neighbour list of particle {i} (frame {t}): expected {re_} got {rg}"
        return "neighbour tables differ"
    return None


# --- boo_3d
def boo3_aux(A, P, tmp):
    nb = real_neighbors(A, P["mode"], P["param"], tmp)
    if any(len(r) == 0 for fr in nb for r in fr):
        return None
    return {"nb": nb}


def boo3_run(A, P, tmp, aux):
    from PyMatterSim.static.boo import boo_3d
    nf = os.path.join(tmp, f"n{random.random()}.dat")
    write_neigh(nf, aux["nb"])
    with warnings.catch_warnings():
        warnings.simplefilter("ignore")
        b = boo_3d(snapshots_of(A), l=int(P["l"]), neighborfile=nf, weightsfile=None, ppp=A["ppp"].copy(), Nmax=30)
        out = {"ql": np.array(b.ql_Ql(coarse_graining=False)), "Ql": np.array(b.ql_Ql(coarse_graining=True))}
        w, wc = b.w_W_cap(coarse_graining=False)
        W, Wc = b.w_W_cap(coarse_graining=True)
    ok = out["ql"] > 0.05
    okQ = out["Ql"] > 0.05
    out["w"] = np.array(w, dtype=float)
    out["wcap"] = np.where(ok, np.array(wc, dtype=float), 0.0)
    out["Wcap"] = np.where(okQ, np.array(Wc, dtype=float), 0.0)
    os.remove(nf)
    return out


def bond_guard(A, P):
    for t in range(A["T"]):
        D, tie = pair_geom(A, t)
        if tie < MARGIN:
            return False, "rint-tie"
        if offdiag(D).min() < 1e-3:
            return False, "coincident"
    return True, ""


def perpart_expect(out, tf, P):
    return {k: perm_rows(v, tf, 1) for k, v in out.items()}


def aux_map(aux, tf):
    return {"nb": map_neigh(aux["nb"], tf)} if aux else aux


# --- boo_2d
def boo2_run(A, P, tmp, aux):
    from PyMatterSim.static.boo import boo_2d
    nf = os.path.join(tmp, f"n{random.random()}.dat")
    write_neigh(nf, aux["nb"])
    with warnings.catch_warnings():
        warnings.simplefilter("ignore")
        b = boo_2d(snapshots_of(A), l=int(P["l"]), neighborfile=nf, weightsfile="", ppp=A["ppp"].copy(), Nmax=30)
        phi = np.array(b.ParticlePhi)
    os.remove(nf)
    return {"abs": np.abs(phi), "re": phi.real, "im": phi.imag}


def boo2_expect(out, tf, P):
    o = {k: perm_rows(v, tf, 1) for k, v in out.items()}
    phi = o["re"] + 1j * o["im"]
    l = int(P["l"])
    if tf["kind"] == "rot":
        R = [[Fraction(x) for x in row] for row in tf["R"]]
        u = complex(float(R[0][0]), float(R[1][0])) ** l          # e^{i l α}
        phi = phi * u
    elif tf["kind"] == "axes":
        phi = ((1j) ** l) * np.conj(phi)                          # x ↔ y : θ → π/2 − θ
    return {"abs": o["abs"], "re": phi.real, "im": phi.imag}


# --- tetrahedral order
def tetra_run(A, P, tmp, aux):
    from PyMatterSim.static.geometric import q8_tetrahedral
    return {"q8": np.array(q8_tetrahedral(snapshots_of(A), ppp=A["ppp"].copy()))}


def tetra_guard(A, P):
    if A["N"] < 6 or A["d"] != 3:
        return False, "N"
    for t in range(A["T"]):
        D, tie = pair_geom(A, t)
        if tie < MARGIN:
            return False, "rint-tie"
        S = np.sort(D, axis=1)
        if np.min(S[:, 5] - S[:, 4]) < MARGIN or S[:, 1].min() < 1e-3:
            return False, "distance-tie"
    return True, ""


# --- S2
def s2_sigmas(P):
    return np.array([[float(x) for x in row] for row in P["sigmas"]])


def s2_run(A, P, tmp, aux):
    from PyMatterSim.static.pairentropy import S2
    with warnings.catch_warnings(), np.errstate(all="ignore"):
        warnings.simplefilter("ignore")
        s = S2(snapshots_of(A), sigmas=s2_sigmas(P), ppp=A["ppp"].copy(), rdelta=float(P["rdelta"]), ndelta=int(P["ndelta"]))
        return {"s2": np.array(s.particle_s2())}


def s2_guard(A, P):
    rmax = (int(P["ndelta"]) - 1) * float(P["rdelta"]) + float(P["rdelta"]) / 2
    for t in range(A["T"]):
        D, tie = pair_geom(A, t)
        if tie < MARGIN:
            return False, "rint-tie"
        if np.min(np.abs(offdiag(D) - rmax)) < MARGIN:
            return False, "rmax-edge"
    return True, ""


def swap_matrix(M, a, b):
    M = [list(r) for r in M]
    i, j = a - 1, b - 1
    M[i], M[j] = M[j], M[i]
    for r in M:
        r[i], r[j] = r[j], r[i]
    return M


def s2_params(P, tf):
    if tf["kind"] == "swap":
        return dict(P, sigmas=swap_matrix(P["sigmas"], tf["a"], tf["b"]))
    return P


# --- Hessian spectrum
def hess_run(A, P, tmp, aux):
    import pandas as pd
    from PyMatterSim.reader.reader_utils import SingleSnapshot
    from PyMatterSim.static.hessians import HessianMatrix, InteractionParams, ModelName
    d = A["d"]
    f = lambda M: np.array([[float(x) for x in row] for row in M], dtype=float)
    snap = SingleSnapshot(timestep=0, nparticle=A["N"], particle_type=A["types"].copy(), positions=A["pos"][0].copy(),
                          boxlength=A["L"].copy(), boxbounds=np.column_stack((np.zeros(d), A["L"])), realbounds=None,
                          hmatrix=A["H"].copy())
    masses = {t + 1: float(m) for t, m in enumerate(P["masses"])}
    if P["model"] == "lj":
        ip = InteractionParams(model_name=ModelName.lennard_jones)
    else:
        ip = InteractionParams(model_name=ModelName.inverse_power_law, ipl_n=float(P["ipl_n"]), ipl_A=1.0)
    h = HessianMatrix(snapshot=snap, masses=masses, epsilons=f(P["eps"]), sigmas=f(P["sig"]), r_cuts=f(P["rc"]),
                      ppp=A["ppp"].copy(), shiftpotential=True)
    out = os.path.join(tmp, f"h{random.random()}")
    with np.errstate(all="ignore"):
        h.diagonalize_hessian(interaction_params=ip, saveevecs=False, savehessian=False, outputfile=out)
    df = pd.read_csv(out + ".omega_PR.csv")
    os.remove(out + ".omega_PR.csv")
    om = df["omega"].to_numpy(dtype=float)
    ev = np.where(om > 0, om * om, om)                    # undo `np.where(evals > 0, sqrt(evals), evals)`
    pr = df["PR"].to_numpy(dtype=float)
    scale = max(1.0, float(np.abs(ev).max()))
    gaps = np.diff(ev)
    simple = np.ones(len(ev), dtype=bool)
    simple[:-1] &= gaps > 1e-5 * scale
    simple[1:] &= gaps > 1e-5 * scale
    return {"evals": ev / scale, "scale": np.array([scale]), "PR_simple": np.where(simple, pr, -1.0)}


def hess_guard(A, P):
    D, tie = pair_geom(A, 0)
    if tie < MARGIN:
        return False, "rint-tie"
    rc = np.array([[float(x) for x in row] for row in P["rc"]])
    ty = A["types"] - 1
    RC = rc[ty][:, ty]
    m = ~np.eye(A["N"], dtype=bool)
    if np.min(np.abs(D - RC)[m]) < MARGIN:
        return False, "cutoff-edge"
    if D[m].min() < 0.5:
        return False, "too-close"
    return True, ""


def hess_params(P, tf):
    if tf["kind"] == "swap":
        a, b = tf["a"], tf["b"]
        ms = list(P["masses"])
        ms[a - 1], ms[b - 1] = ms[b - 1], ms[a - 1]
        return dict(P, masses=ms, eps=swap_matrix(P["eps"], a, b), sig=swap_matrix(P["sig"], a, b), rc=swap_matrix(P["rc"], a, b))
    return P


def hess_cmp(e, g):
    r = cmp_arrays(e["evals"], g["evals"], 1e-8, "eigenvalues/scale") or cmp_arrays(e["scale"], g["scale"], 1e-8, "scale")
    if r:
        return r
    both = (e["PR_simple"] >= 0) & (g["PR_simple"] >= 0)
    return cmp_arrays(e["PR_simple"][both], g["PR_simple"][both], 1e-6, "PR of simple eigenvalues")


# --- Dynamics.relaxation
def dyn_run(A, P, tmp, aux):
    from PyMatterSim.dynamic.dynamics import Dynamics
    S = snapshots_of(A, steps=[100 * t for t in range(A["T"])])
    kw = dict(dt=0.002, ppp=A["ppp"].copy(), diameters={int(k): float(v) for k, v in P["diam"].items()}, a=float(P["a"]),
              cal_type=P["cal"], neighborfile="")
    obj = Dynamics(x_snapshots=S, **kw) if P["coords"] == "x" else Dynamics(xu_snapshots=S, **kw)
    with np.errstate(all="ignore"):
        df = obj.relaxation(qconst=float(P["qconst"]))
    return {str(c): df[c].to_numpy(dtype=float) for c in df.columns}


def dyn_guard(A, P):
    Hinv = np.linalg.inv(A["H"])
    diam = np.array([float(P["diam"][str(t)]) for t in A["types"]])
    cut = (diam * float(P["a"])) ** 2
    for n in range(1, A["T"]):
        for m in range(n):
            r = A["pos"][n] - A["pos"][m]
            if P["coords"] == "x":
                f = r @ Hinv
                g = np.abs(f[:, A["ppp"].astype(bool)])
                if g.size and np.min(np.abs((g % 1.0) - 0.5)) < MARGIN:
                    return False, "rint-tie"
                r = (f - np.rint(f) * A["ppp"][None, :]) @ A["H"]
            d2 = (r ** 2).sum(axis=1)
            if np.min(np.abs(d2 - cut)) < MARGIN:
                return False, "cutoff-edge"
    return True, ""


def dyn_params(P, tf):
    if tf["kind"] == "swap":
        dm = dict(P["diam"])
        dm[str(tf["a"])], dm[str(tf["b"])] = dm[str(tf["b"])], dm[str(tf["a"])]
        return dict(P, diam=dm)
    return P


# --- gyration tensor descriptors
def gyr_run(A, P, tmp, aux):
    from PyMatterSim.static.shape import gyration_tensor
    z = np.array(gyration_tensor(A["pos"][0].copy()), dtype=complex)     # np.linalg.eig hands back a complex dtype
    return {"shape": z.real, "shape_imag": z.imag}


def gyr_guard(A, P):
    p = A["pos"][0] - A["pos"][0].mean(axis=0)
    rg = math.sqrt((p ** 2).sum() / A["N"])
    if abs(math.log10(rg)) < 0.05:
        return False, "log10(Rg)≈0"
    ev = np.linalg.eigvalsh(p.T @ p / A["N"])
    if np.min(np.diff(ev)) < 1e-6:
        return False, "degenerate"
    return True, ""


# --- participation ratio
def pr_run(A, P, tmp, aux):
    from PyMatterSim.static.vector import participation_ratio
    return {"pr": np.array([participation_ratio(A["pos"][0].copy())])}


def always(A, P):
    return True, ""


def same(out, tf, P):
    return out


def same_params(P, tf):
    return P


ROUTINES = {
    "gr": dict(run=gr_run, guard=gr_guard, expect=gr_expect, params=gr_params, tol=TOL,
               tfs=["translate", "lshift", "relabel", "swap", "axes", "dilate"]),
    "sq": dict(run=sq_run, guard=sq_guard, expect=sq_expect, params=same_params, tol=2e-6,
               tfs=["translate", "lshift", "relabel", "swap", "axes"]),
    "neighbors": dict(run=nb_run, guard=nb_guard, expect=nb_expect, params=same_params, cmp=nb_cmp,
                      tfs=["translate", "lshift", "relabel", "axes", "rot"]),
    "boo3d": dict(run=boo3_run, guard=bond_guard, expect=perpart_expect, params=same_params, tol=TOL, aux=boo3_aux,
                  tfs=["translate", "lshift", "relabel", "axes", "rot"]),
    "boo2d": dict(run=boo2_run, guard=bond_guard, expect=boo2_expect, params=same_params, tol=TOL, aux=boo3_aux,
                  tfs=["translate", "lshift", "relabel", "axes", "rot"]),
    "tetra": dict(run=tetra_run, guard=tetra_guard, expect=perpart_expect, params=same_params, tol=TOL,
                  tfs=["translate", "lshift", "relabel", "axes", "rot"]),
    "s2": dict(run=s2_run, guard=s2_guard, expect=perpart_expect, params=s2_params, tol=TOL,
               tfs=["translate", "lshift", "relabel", "swap", "axes", "rot"]),
    "hessian": dict(run=hess_run, guard=hess_guard, expect=same, params=hess_params, cmp=hess_cmp,
                    tfs=["translate", "lshift", "relabel", "swap", "axes", "rot"]),
    "dynamics": dict(run=dyn_run, guard=dyn_guard, expect=same, params=dyn_params, tol=TOL,
                     tfs=["translate", "lshift", "relabel", "swap", "axes"]),
    "gyration": dict(run=gyr_run, guard=gyr_guard, expect=same, params=same_params, tol=TOL,
                     tfs=["translate", "relabel", "axes", "rot"]),
    "pr": dict(run=pr_run, guard=always, expect=same, params=same_params, tol=TOL, tfs=["relabel", "axes", "rot"]),
}


def tf_allowed(routine, kind, cfg, P):
    """is the transformation inside the property's quantifier for this routine and configuration?"""
    periodic = any(cfg["ppp"])
    if kind == "rot" and periodic:
        return False                                   # rotations: open (non-periodic) clusters only
    if kind == "lshift" and not periodic:
        return False
    if kind == "lshift" and routine == "dynamics" and P.get("coords") != "x":
        return False                                   # unwrapped coordinates are not defined modulo the lattice
    if kind == "swap" and len(set(cfg["types"])) < 2:
        return False
    if kind == "rot" and routine == "boo2d" and cfg["d"] != 2:
        return False
    if kind == "dilate" and routine != "gr":
        return False
    return kind in ROUTINES[routine]["tfs"]


# ----------------------------------------------------------------------------- one metamorphic pair

def run_case(case, sym_check=True):
    """returns (status, message): status ∈ ok | skip | FAIL | MODEL (numpy/Lean transformation mismatch)"""
    R = ROUTINES[case["routine"]]
    cfg, P = case["cfg"], case["params"]
    A = arrays(cfg)
    ok, why = R["guard"](A, P)
    if not ok:
        return "skip", why
    tf = make_tf(case["tfkind"], cfg, case["tfseed"])
    B = apply_tf(A, tf)
    if sym_check:
        lines = driver_lines(cfg, tf)
        msg = check_against_model(cfg, tf, B, common.drive(lines) if lines else [])
        if msg:
            return "MODEL", msg
    P2 = R["params"](P, tf)
    ok2, why2 = R["guard"](B, P2)
    if not ok2:
        return "skip", "transformed:" + why2
    tmp = tempfile.mkdtemp(prefix="c07-")
    try:
        aux = None
        if "aux" in R:
            aux = R["aux"](A, P, tmp)
            if aux is None:
                return "skip", "no-aux"
        try:
            out0 = R["run"](A, P, tmp, aux)
        except Exception as e:  # noqa: BLE001
            return "skip", f"original raised {type(e).__name__}: {e}"
        try:
            out1 = R["run"](B, P2, tmp, aux_map(aux, tf) if aux else None)
        except Exception as e:  # noqa: BLE001
            return "FAIL", f"transformed input raised {type(e).__name__}: {e} (the original input did not)"
        exp = R["expect"](out0, tf, P)
        msg = R["cmp"](exp, out1) if "cmp" in R else cmp_dict(exp, out1, R["tol"])
        if msg:
            return "FAIL", msg
        return "ok", ""
    finally:
        shutil.rmtree(tmp, ignore_errors=True)


# ----------------------------------------------------------------------------- the plan of a tier

def mixture_params(K):
    sig = [[f"{1.0 + 0.1 * (i + j):.2f}" for j in range(K)] for i in range(K)]
    eps = [[f"{1.0 + 0.25 * abs(i - j) + 0.1 * (i + j):.2f}" for j in range(K)] for i in range(K)]
    rc = [[f"{2.0 * float(sig[i][j]):.2f}" for j in range(K)] for i in range(K)]
    return sig, eps, rc


def plan(run):
    rng = run.rng
    quick = run.tier == "quick"
    cases = []

    def add(routine, cfg, params, kinds=None, reps=1, alt=None):
        """alt: {key: [candidate values]} — the first candidate whose margin guard passes is used (e.g. a bin width
        for which no pair of a sample frame sits on a bin edge)"""
        if cfg is None:
            return
        if alt:
            A = arrays(cfg)
            (key, cands), = alt.items()
            for v in cands:
                if ROUTINES[routine]["guard"](A, dict(params, **{key: v}))[0]:
                    params = dict(params, **{key: v})
                    break
        for kind in (kinds or ROUTINES[routine]["tfs"]):
            if not tf_allowed(routine, kind, cfg, params):
                continue
            for _ in range(reps):
                cases.append({"routine": routine, "cfg": cfg, "params": params, "tfkind": kind, "tfseed": rng.randint(0, 10 ** 9)})

    reps = 1 if quick else 6
    ncfg = 2 if quick else 8
    for _ in range(ncfg):
        # g(r): 2D/3D, orthogonal and triclinic, 1-4 species, 1-2 frames
        for d, cell, K in ([(2, "tri", 2), (3, "orth", 3), (2, "orth", 5)] if quick else
                           [(2, "orth", 1), (2, "tri", 2), (3, "orth", 3), (3, "tri", 4), (3, "cubic", 2), (3, "orth", 5), (2, "tri", 6)]):
            cfg = gen_config(rng, d, rng.randint(max(10, 3 * K), max(16, 3 * K + 2)), K=K, T=(rng.choice([2, 3]) if cell == "tri" else rng.choice([1, 2])), cell=cell, shear=True)
            add("gr", cfg, {"rdelta": rng.choice(["0.113", "0.207", "0.151"])}, reps=reps)
        # S(q): orthogonal cells
        for d, cell, K in ([(2, "orth", 2), (3, "orth", 3)] if quick else [(2, "orth", 1), (2, "orth", 2), (3, "orth", 3), (3, "cubic", 2)]):
            cfg = gen_config(rng, d, rng.randint(8, 14), K=K, T=rng.choice([1, 2]), cell=cell)
            add("sq", cfg, {"qrange": rng.choice(["5.3", "4.1"] if d == 3 else ["7.7", "6.2"])}, reps=reps)
        # neighbours
        for d, cell in ([(2, "tri"), (3, "orth")] if quick else [(2, "orth"), (2, "tri"), (3, "orth"), (3, "tri")]):
            cfg = gen_config(rng, d, rng.randint(10, 16), cell=cell, T=rng.choice([1, 2]))
            add("neighbors", cfg, {"mode": "nn", "param": rng.randint(3, 6)}, reps=reps)
            add("neighbors", cfg, {"mode": "cut", "param": rng.choice(["1.35", "1.62"])}, kinds=["translate", "lshift", "relabel", "axes"], reps=reps)
        # open clusters: rotations
        c3 = gen_config(rng, 3, rng.randint(12, 18), cell="cubic", ppp=[0, 0, 0], Lrange=(9.0, 12.0), spread=3.0, K=2, minsep=0.8)
        c2 = gen_config(rng, 2, rng.randint(10, 16), cell="cubic", ppp=[0, 0], Lrange=(9.0, 12.0), spread=4.5, minsep=0.8)
        add("neighbors", c3, {"mode": "nn", "param": 4}, kinds=["rot"], reps=reps)
        add("boo3d", c3, {"l": rng.choice([4, 6]), "mode": "nn", "param": rng.randint(4, 8)}, kinds=["rot", "relabel", "translate", "axes"], reps=reps)
        if _ == 0:
            # every degree of the library's own closed-form table (and two delegated ones): q_l, ŵ_l under rotation / axis permutation
            for ll in (1, 2, 3, 5, 7, 8, 9, 10, 11, 12):
                add("boo3d", c3, {"l": ll, "mode": "nn", "param": rng.randint(4, 8)}, kinds=["rot", "axes"], reps=1)
        add("boo2d", c2, {"l": rng.choice([4, 6]), "mode": "nn", "param": rng.randint(3, 6)}, kinds=["rot", "relabel", "translate", "axes"], reps=reps)
        add("boo2d", c2, {"l": rng.choice([3, 5]), "mode": "nn", "param": rng.randint(3, 6)}, kinds=["rot", "axes"], reps=reps)
        add("tetra", c3, {}, kinds=["rot", "relabel", "translate", "axes"], reps=reps)
        sig, eps, rc = mixture_params(2)
        add("hessian", c3, {"model": "lj", "masses": ["1.0", "2.5"], "eps": eps, "sig": sig, "rc": rc}, kinds=["rot", "swap"], reps=reps)
        add("s2", c3, {"sigmas": [["0.12", "0.15"], ["0.15", "0.2"]], "rdelta": "0.1", "ndelta": 30}, kinds=["rot"], reps=reps)
        add("gyration", c3, {}, reps=reps)
        add("gyration", c2, {}, reps=reps)
        add("pr", c3, {}, reps=reps)
        add("pr", c2, {}, reps=reps)
        # periodic: BOO, tetrahedral, S2, Hessian, dynamics
        p3 = gen_config(rng, 3, rng.randint(12, 16), cell=rng.choice(["orth", "tri"]), K=2, Lrange=(3.0, 4.0))
        p2 = gen_config(rng, 2, rng.randint(12, 16), cell=rng.choice(["orth", "tri"]), Lrange=(3.5, 5.0))
        add("boo3d", p3, {"l": rng.choice([4, 6]), "mode": "nn", "param": rng.randint(4, 8)}, kinds=["translate", "lshift", "relabel", "axes"], reps=reps)
        add("boo2d", p2, {"l": rng.choice([4, 6, 5]), "mode": "cut", "param": "1.7"}, kinds=["translate", "lshift", "relabel", "axes"], reps=reps)
        add("tetra", p3, {}, kinds=["translate", "lshift", "relabel", "axes"], reps=reps)
        add("s2", p3, {"sigmas": [["0.12", "0.15"], ["0.15", "0.2"]], "rdelta": "0.07", "ndelta": 20},
            kinds=["translate", "lshift", "relabel", "swap", "axes"], reps=reps)
        ph = gen_config(rng, rng.choice([2, 3]), rng.randint(8, 11), cell=rng.choice(["orth", "tri"]), K=2, Lrange=(4.2, 5.0), minsep=0.8)
        add("hessian", ph, {"model": rng.choice(["lj", "ipl"]), "ipl_n": "10", "masses": ["1.0", "2.5"], "eps": eps, "sig": sig, "rc": rc},
            kinds=["translate", "lshift", "relabel", "swap", "axes"], reps=reps)
        for coords in ("x", "xu"):
            pd_ = gen_config(rng, rng.choice([2, 3]), rng.randint(8, 12), cell=rng.choice(["orth", "tri"]), K=2, T=rng.randint(3, 5))
            add("dynamics", pd_, {"coords": coords, "diam": {"1": "1.0", "2": "0.88"}, "a": "0.3", "cal": rng.choice(["slow", "fast"]),
                                  "qconst": "6.2832"}, reps=reps)
    # the repo's own sample trajectories (first frames)
    big = not quick
    for name, nd in [("unary.dump", 3), ("IS.2DIPL.atom", 2)] + ([("quarternary.dump", 3), ("2d/2ddump.s.atom", 2), ("3d/3dkaljdump.s.atom", 3), ("2d_triclinic.atom", 2)] if big else []):
        full = sample_config(name, nd, nmax=(1000 if big else 500))
        if full is None:
            continue
        kinds_small = ["translate", "relabel"] if quick else None
        add("gr", full, {"rdelta": "0.0517"}, kinds=(["translate", "axes"] if quick else None),
            alt={"rdelta": ["0.0517", "0.0713", "0.0611", "0.0823", "0.0467", "0.0931", "0.1013", "0.0557"]})
        add("sq", sample_config(name, nd, nmax=200), {"qrange": "1.6" if nd == 3 else "1.3"}, kinds=kinds_small)
        add("neighbors", sample_config(name, nd, nmax=300), {"mode": "nn", "param": 12 if nd == 3 else 6}, kinds=kinds_small)
        cl = sample_config(name, nd, center_cluster=40)
        add("neighbors", cl, {"mode": "nn", "param": 6}, kinds=["rot"])
        if nd == 3:
            add("boo3d", cl, {"l": 6, "mode": "nn", "param": 12}, kinds=["rot"])
            add("tetra", cl, {}, kinds=["rot"])
            add("tetra", sample_config(name, nd, nmax=300), {}, kinds=["lshift", "axes"])
        else:
            add("boo2d", cl, {"l": 6, "mode": "nn", "param": 6}, kinds=["rot"])
        add("gyration", cl, {})
        K = len(set(cl["types"]))
        if K <= 2:
            sig, eps, rc = mixture_params(2)
            add("hessian", sample_config(name, nd, center_cluster=24), {"model": "lj", "masses": ["1.0", "2.5"], "eps": eps, "sig": sig, "rc": rc}, kinds=["rot", "relabel"])
    for name, nd in [("2d/2ddump.s.atom", 2)] + ([("3d/3dkaljdump.s.atom", 3)] if big else []):
        cfg = sample_config(name, nd, nmax=(200 if quick else 1000), frames=4)
        add("dynamics", cfg, {"coords": "x", "diam": {"1": "1.0", "2": "0.88"}, "a": "0.3", "cal": "slow", "qconst": "6.2832"},
            kinds=(["translate", "lshift"] if quick else None))
    return cases


# ----------------------------------------------------------------------------- correspond / search / replay

def slim(case):
    return {k: case[k] for k in ("routine", "cfg", "params", "tfkind", "tfseed")}


def correspond(run):
    cases = [c for c in common.load_corpus(PROP)] + plan(run)
    fails, model_fails = [], []
    skipped = {}
    timing = {}
    for case in cases:
        t0 = time.time()
        status, msg = run_case(case)
        timing[case["routine"]] = timing.get(case["routine"], 0.0) + time.time() - t0
        src = case["cfg"]["src"].split(":")[0] + (":" + case["cfg"]["src"].split(":")[1] if case["cfg"]["src"].startswith("sample") else "")
        run.hist("routine", case["routine"])
        run.hist("transformation", case["tfkind"])
        run.hist("source", src)
        run.hist("cell", ("open" if not any(case["cfg"]["ppp"]) else "periodic") + f":{case['cfg']['d']}D")
        if status == "skip":
            skipped[msg.split(" ")[0][:40]] = skipped.get(msg.split(" ")[0][:40], 0) + 1
            continue
        key = [case["routine"], case["tfkind"], common.sha(repr(case["cfg"]["pos"]))]
        run.count(key, True, sample={"routine": case["routine"], "transformation": case["tfkind"], "source": case["cfg"]["src"],
                                     "N": case["cfg"]["N"], "status": status})
        run.hist("judged", f"{case['routine']}:{case['tfkind']}")
        if status == "FAIL":
            fails.append((case, msg))
        elif status == "MODEL":
            model_fails.append((case, msg))
    run.coverage["skipped_inside_margin"] = skipped
    run.coverage["seconds_per_routine"] = {k: round(v, 2) for k, v in timing.items()}
    run.coverage["traces_validated_against_impl"] = run.coverage["evaluations"]
    broken = []
    by = {}
    for case, msg in fails:
        by.setdefault((case["routine"], case["tfkind"]), []).append((case, msg))
    for (rt, kind), lst in by.items():
        broken.append({"kind": "metamorphic", "name": f"{rt}~{kind}", "detail": f"{len(lst)} failing pairs; first: {lst[0][1][:300]}",
                       "cases": [slim(c) for c, _ in lst[:6]]})
    if model_fails:
        broken.append({"kind": "correspondence", "name": "Pms.Sym generators~numpy transformations",
                       "detail": f"{len(model_fails)} mismatches; first: {model_fails[0][1][:200]}", "cases": [slim(c) for c, _ in model_fails[:3]]})
    return broken


def shrink(case):
    """fewer particles / frames while the pair still fails (generated configurations only)"""
    best = case
    cfg = case["cfg"]
    for n in (cfg["N"] // 2, (3 * cfg["N"]) // 4, cfg["N"] - 1):
        if n < 6 or n >= best["cfg"]["N"]:
            continue
        c2 = dict(cfg, N=n, types=cfg["types"][:n], pos=[fr[:n] for fr in cfg["pos"]])
        if len(set(c2["types"])) != len(set(cfg["types"])):
            continue
        cand = dict(case, cfg=c2)
        try:
            st, _ = run_case(cand, sym_check=False)
        except Exception:  # noqa: BLE001
            continue
        if st == "FAIL":
            best = cand
            break
    return best


def search(run, broken):
    unexplained = []
    tried = 0
    for b in broken:
        found = False
        if b["kind"] == "metamorphic":
            for case in b.get("cases", []):
                tried += 1
                st, msg = run_case(case, sym_check=False)
                if st == "FAIL":
                    c2 = shrink(case) if case["cfg"]["N"] <= 64 else case
                    st2, msg2 = run_case(c2, sym_check=False)
                    if st2 != "FAIL":
                        c2, msg2 = case, msg
                    run.violation(f"C07:{case['routine']}:{case['tfkind']}",
                                  f"{case['routine']} is not invariant/covariant under {case['tfkind']} on {c2['cfg']['src']} "
                                  f"(N={c2['cfg']['N']}, d={c2['cfg']['d']}): {msg2[:300]}",
                                  {"case": slim(c2), "broken": b["name"]})
                    found = True
                    break
        else:
            # a broken proof obligation: look for a failing pair with the thorough plan under a time budget
            t0 = time.time()
            budget = 30 if run.tier == "quick" else 300
            saved = run.tier
            run.tier = "thorough"
            try:
                for case in plan(run):
                    if time.time() - t0 > budget:
                        break
                    tried += 1
                    st, msg = run_case(case, sym_check=False)
                    if st == "FAIL":
                        run.violation(f"C07:{case['routine']}:{case['tfkind']}",
                                      f"{case['routine']} is not invariant/covariant under {case['tfkind']}: {msg[:300]}",
                                      {"case": slim(case), "broken": b["name"]})
                        found = True
                        break
            finally:
                run.tier = saved
        if not found:
            unexplained.append(b)
    run.coverage["search_cases"] = tried
    return unexplained


def replay(run, rp):
    if "case" in rp:
        st, msg = run_case(rp["case"], sym_check=False)
        if st == "FAIL":
            print("  " + msg[:300])
        return st == "FAIL"
    return any(run_case(c, sym_check=False)[0] == "FAIL" for c in rp.get("cases", []))
