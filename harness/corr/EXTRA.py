"""EXTRA — utilities outside the 20 listed properties (utils/geometry.py, two utils/funcs.py formulas, utils/fft.py Filon_COS).
Tie = translator (Pms/GenR/Extra.lean regenerated) + numeric validation of the regenerated Float terms against the real functions +
the theorems' statements monitored on the real outputs.  Not in MANIFEST.json (no listed property is about these routines)."""
import logging
import math

import numpy as np

import common
from common import bits2float, float2bits

logging.disable(logging.WARNING)

PROP = "EXTRA"
PROPS_FILES = ["Pms/Props/Extra.lean", "Pms/Props/Filon.lean", "Pms/Props/WaveX.lean", "Pms/Props/Pack.lean", "Pms/Props/Voropp.lean", "Pms/Props/Lws.lean"]
GENERATORS = ["extra", "filon", "wavex", "lws"]
RULE = ("random decimal-grid arguments: 2-D line pairs (non-parallel, |D| ≥ 1e-3), triangles from random 2-D/3-D vertices in an open box, "
        "x ∈ [−1, 1]; each evaluation compares the regenerated Lean term (Float) with the real function and checks the theorem's statement on "
        "the real output (point on both lines; law of cosines; Heron = half cross product; P_2 / its 2-D variant; inertia tensor entries)")
TRUSTED_BASE = ["Lean 4.33 kernel; axioms propext, Classical.choice, Quot.sound only",
                "translator/gens/extra.py (expression printer shared with C12), validated numerically on every run",
                "float64 ≈ ℝ; np.arccos, np.sqrt, np.linalg.norm by contract; remove_pbc is the C02 model (open boundaries used here)"]


def G():
    from PyMatterSim.utils import geometry, funcs
    return geometry, funcs


def correspond(run):
    g, f = G()
    rng = run.rng
    n = 200 if run.tier == "quick" else 5000
    ops, meta = [], []
    for _ in range(n):
        P = [float(common.dec(rng, -5, 5, 3)) for _ in range(8)]
        D = (P[0] - P[2]) * (P[5] - P[7]) - (P[1] - P[3]) * (P[4] - P[6])
        if abs(D) < 1e-3:
            continue
        ops.append("extraf li " + " ".join(float2bits(x) for x in P)); meta.append(("li", P))
        d = rng.choice([2, 3])
        V = np.array([[float(common.dec(rng, -4, 4, 3)) for _ in range(d)] for _ in range(3)])
        a, b, c = np.linalg.norm(V[0] - V[1]), np.linalg.norm(V[0] - V[2]), np.linalg.norm(V[1] - V[2])
        if min(a, b, c) < 1e-2:
            continue
        ops.append("extraf angle " + " ".join(float2bits(x) for x in (a, b, c))); meta.append(("angle", (a, b, c, V)))
        ops.append("extraf area " + " ".join(float2bits(x) for x in (a, b, c))); meta.append(("area", (a, b, c, V)))
        x = float(common.dec(rng, -1, 1, 3))
        nd = rng.choice([2, 3])
        ops.append(f"extraf leg {float2bits(x)} {float2bits(float(nd))}"); meta.append(("leg", (x, nd)))
    outs = common.drive(ops)
    tdis, pf = [], []
    for (kind, arg), o in zip(meta, outs):
        if o == "bad-op":
            raise common.Infra("driver rejected extraf")
        m = [bits2float(t) for t in o.split()]
        run.hist("routine", kind)
        if kind == "li":
            P = arg
            r = g.lines_intersection(np.array(P[0:2]), np.array(P[2:4]), np.array(P[4:6]), np.array(P[6:8]))
            run.count(("li", tuple(P)), True, sample={"li": P, "real": [float(r[0]), float(r[1])]})
            if not (common.close(r[0], m[0], 1e-9) and common.close(r[1], m[1], 1e-9)):
                tdis.append(({"kind": kind, "P": P}, f"lines_intersection {list(r)} vs regenerated term {m}"))
            cr1 = (P[2] - P[0]) * (r[1] - P[1]) - (P[3] - P[1]) * (r[0] - P[0])
            cr2 = (P[6] - P[4]) * (r[1] - P[5]) - (P[7] - P[5]) * (r[0] - P[4])
            sc = 1 + max(abs(x) for x in P) ** 2 * (1 + abs(float(r[0])) + abs(float(r[1])))
            if abs(cr1) > 1e-7 * sc or abs(cr2) > 1e-7 * sc:
                pf.append(({"kind": kind, "P": P}, f"lines_intersection: returned point {list(r)} is not on both lines (cross products {cr1}, {cr2})"))
        elif kind == "angle":
            a, b, c, V = arg
            r = float(g.triangle_angle(a, b, c))
            run.count(("angle", a, b, c), True)
            if not common.close(math.cos(r), m[0], 1e-9, 1e-9) and abs(m[0]) < 1 - 1e-9:
                tdis.append(({"kind": kind, "abc": [a, b, c]}, f"triangle_angle cos {math.cos(r)} vs regenerated cos_theta {m[0]}"))
            u, v = V[1] - V[0], V[2] - V[0]
            gam = math.acos(max(-1.0, min(1.0, float(np.dot(u, v)) / (a * b))))
            if abs(r - gam) > 1e-6:
                pf.append(({"kind": kind, "V": V.tolist()}, f"triangle_angle({a}, {b}, {c}) = {r}, the angle between the two sides is {gam}"))
        elif kind == "area":
            a, b, c, V = arg
            d = V.shape[1]
            H = np.diag([100.0] * d)
            r = float(g.triangle_area(V, H, np.array([0] * d)))
            run.count(("area", a, b, c), True)
            if not common.close(r * r, m[0], 1e-8, 1e-10):
                tdis.append(({"kind": kind, "V": V.tolist()}, f"triangle_area² {r * r} vs regenerated radicand {m[0]}"))
            u, v = V[1] - V[0], V[2] - V[0]
            half = 0.5 * math.sqrt(max(0.0, float(np.dot(u, u) * np.dot(v, v) - np.dot(u, v) ** 2)))
            if abs(r - half) > 1e-7 * (1 + half):
                pf.append(({"kind": kind, "V": V.tolist()}, f"triangle_area = {r}, half the cross product = {half}"))
        else:
            x, nd = arg
            r = float(f.Legendre_polynomials(x, nd))
            run.count(("leg", x, nd), True)
            if not common.close(r, m[0], 1e-12, 1e-12):
                tdis.append(({"kind": kind, "x": x, "nd": nd}, f"Legendre_polynomials {r} vs regenerated term {m[0]}"))
            if abs(r - (nd * x * x - 1) / 2) > 1e-12:
                pf.append(({"kind": kind, "x": x, "nd": nd}, f"Legendre_polynomials({x}, {nd}) = {r}"))
    # moment of inertia: entries and order against the definition
    for _ in range(40 if run.tier == "quick" else 1000):
        N = rng.randint(1, 8)
        X = np.array([[float(common.dec(rng, -3, 3, 3)) for _ in range(3)] for _ in range(N)])
        m_ = rng.choice([1, 2, 3])
        M = np.asarray(f.moment_of_inertia(X, m_, True))
        vec = np.asarray(f.moment_of_inertia(X, m_, False))
        r2 = (X ** 2).sum(axis=1)
        ref = np.array([[m_ * ((r2 if i == j else 0) - X[:, i] * X[:, j]).sum() / N for j in range(3)] for i in range(3)])
        run.hist("routine", "inertia")
        run.count(("inertia", X.tobytes(), m_), True)
        if np.abs(M - ref).max() > 1e-9 or np.abs(vec - np.array([ref[0, 0], ref[1, 1], ref[2, 2], ref[0, 1], ref[0, 2], ref[1, 2]])).max() > 1e-9:
            pf.append(({"kind": "inertia", "X": X.tolist(), "m": m_}, "moment_of_inertia differs from m/N Σ (r² δ_ij − x_i x_j) or from the order [xx, yy, zz, xy, xz, yz]"))
    filon_part(run, tdis, pf)
    wavex_part(run, tdis, pf)
    pack_part(run, tdis, pf)
    voropp_part(run, tdis, pf)
    lws_part(run, tdis, pf)
    run.coverage["programs"] = 15
    run.coverage["disagreements_checked"] = len(tdis)
    broken = []
    if tdis:
        broken.append({"kind": "translator-validation", "name": "Pms.Gen.ExtraF~utils.geometry/funcs", "detail": tdis[0][1], "cases": [c for c, _ in tdis[:5]]})
    if pf:
        broken.append({"kind": "oracle", "name": "utils.geometry/funcs vs the theorems' statements", "detail": pf[0][1], "cases": [c for c, _ in pf[:5]],
                       "failing": [(c, w) for c, w in pf[:10]]})
    return broken


def filon_part(run, tdis, pf):
    """Filon_COS: (a) the whole routine against the driver's assembly of the regenerated terms, frequency by frequency; (b) the
    theorems' statements on the real output: ω = 0 is twice Simpson's rule; a quadratic C is transformed exactly."""
    from PyMatterSim.utils.fft import Filon_COS
    rng = run.rng
    cases = []
    for _ in range(30 if run.tier == "quick" else 600):
        m = rng.randint(1, 14)
        dt = float(rng.choice(["0.001", "0.002", "0.005", "0.01", "0.05", "0.1", "0.25"]))
        npts = 2 * m + 1 + (1 if rng.random() < 0.2 else 0)              # an even number of points: the last one is dropped
        t = np.array([round(k * dt, 6) for k in range(npts)])
        quad = rng.random() < 0.5
        if quad:
            a0, a1, a2 = [float(common.dec(rng, -2, 2, 2)) for _ in range(3)]
            C = a0 + a1 * t + a2 * t * t
        else:
            a0 = a1 = a2 = None
            C = np.array([float(common.dec(rng, -2, 2, 3)) for _ in range(npts)])
        T = t[2 * m]
        a = 0 if rng.random() < 0.5 else float(common.dec(rng, 0.2, 3, 2)) / T
        cases.append((m, dt, t, C, a, (a0, a1, a2) if quad else None))
    ops, meta = [], []
    for m, dt, t, C, a, q in cases:
        try:
            with np.errstate(all="ignore"):
                df = Filon_COS(C.copy(), t.copy(), a)
        except Exception as e:
            pf.append(({"kind": "filon", "m": m, "dt": dt, "C": C.tolist(), "a": a}, f"Filon_COS raised {type(e).__name__}: {e}"))
            continue
        run.hist("routine", "filon"); run.hist("filon_points", len(C)); run.hist("filon_input", "quadratic" if q else "random")
        run.count(("filon", m, dt, C.tobytes(), a), True)
        case = {"kind": "filon", "m": m, "dt": dt, "C": C.tolist(), "a": a}
        if len(df) != 2 * m + 1:
            pf.append((case, f"Filon_COS returned {len(df)} frequencies for {2 * m + 1} used points"))
            continue
        Cu, tu = C[:2 * m + 1], t[:2 * m + 1]
        step = a if a else 2 * math.pi / tu[-1]
        for n in range(2 * m + 1):
            om = float(df["omega"].iloc[n])
            if abs(om - n * step) > 1e-9 * (1 + abs(n * step)):
                pf.append((case, f"Filon_COS omega[{n}] = {om}, n·a = {n * step}"))
                break
            ops.append("filonf " + " ".join(float2bits(x) for x in [dt, om, float(tu[0]), float(tu[-1])] + [float(x) for x in Cu]))
            meta.append((case, n, om, float(df["FFT"].iloc[n]) * math.pi, Cu, tu, q))
    outs = common.drive(ops) if ops else []
    for (case, n, om, real, Cu, tu, q), o in zip(meta, outs):
        if o == "bad-op":
            raise common.Infra("driver rejected filonf")
        model = bits2float(o.split()[0])
        scale = 1 + float(np.abs(Cu).sum()) * 2 * case["dt"]
        th = om * case["dt"]
        # cancellation in α, β, γ grows like eps/θ³: the comparison of two float evaluations is widened accordingly
        tol = 1e-9 * scale * (1 + (1.0 / th ** 3 if th else 0) * 1e-6)
        if not abs(real - model) <= tol:
            tdis.append((case, f"Filon_COS FFT[{n}]·π = {real!r} vs the regenerated terms assembled by the driver {model!r} (ω = {om})"))
        if n == 0:
            simpson = case["dt"] / 3 * (Cu[0] + Cu[-1] + 4 * Cu[1:-1:2].sum() + 2 * Cu[2:-1:2].sum())
            if not abs(real - 2 * simpson) <= 1e-9 * scale:
                pf.append((case, f"Filon_COS at ω = 0: FFT·π = {real!r}, twice Simpson's rule = {2 * simpson!r}"))
        elif q and th >= 0.05:
            a0, a1, a2 = q
            T = float(tu[-1])

            def F(x):
                return (a0 * math.sin(om * x) / om + a1 * (x * math.sin(om * x) / om + math.cos(om * x) / om ** 2)
                        + a2 * (x * x * math.sin(om * x) / om + 2 * x * math.cos(om * x) / om ** 2 - 2 * math.sin(om * x) / om ** 3))
            exact = 2 * (F(T) - F(0.0))
            if not abs(real - exact) <= 1e-7 * scale * (1 + 1e-6 / th ** 3):
                pf.append((case, f"Filon_COS of the quadratic {a0} + {a1} t + {a2} t² at ω = {om}: FFT·π = {real!r}, 2∫₀ᵀ p(t) cos(ωt) dt = {exact!r}"))


def parse_rows(o):
    n, _, body = o.partition(" ")
    rows = [tuple(int(x) for x in r.split(",")) for r in body.split(";")] if body.strip() else []
    assert len(rows) == int(n), o[:200]
    return rows


def wavex_part(run, tdis, pf):
    """wavevector3d / wavevector2d / continuousvector for EVERY numofq in a range: (a) the real routine against the driver's
    interpretation of the regenerated loop nests (rows as a multiset + sorted key column, since argsort's permutation among equal
    keys is numpy's choice; continuousvector row by row); (b) against the statement of the membership theorems, by brute force."""
    import itertools
    from PyMatterSim.utils import wavevector as wv
    thorough = run.tier != "quick"
    jobs = []
    for name, k, top in (("wavevector3d", 3, 13 if thorough else 9), ("wavevector2d", 2, 40 if thorough else 18)):
        for n in range(0, top + 1):
            jobs.append(("sq", name, k, n, None))
    for d in (1, 2, 3, 4):
        for n in range(0, (13 if thorough else 8) if d < 4 else 4):
            for pos in (False, True):
                jobs.append(("cont", "continuousvector", d, n, pos))
    ops = []
    for kind, name, k, n, pos in jobs:
        ops.append(f"wavex sq impl {name} {n}" if kind == "sq" else f"wavex cont impl {k} {n} {1 if pos else 0}")
    outs = common.drive(ops)
    for (kind, name, k, n, pos), o in zip(jobs, outs):
        case = {"kind": name, "ndim": k, "numofq": n, "onlypositive": pos}
        run.hist("routine", name)
        run.count((name, k, n, pos), n >= 2)
        if o == "bad-op":
            raise common.Infra("driver rejected wavex")
        try:
            real = getattr(wv, name)(n) if kind == "sq" else wv.continuousvector(k, n, pos)
            real = np.asarray(real)
        except Exception as e:
            if o != "error":
                pf.append((case, f"{name}({'' if kind == 'sq' else str(k) + ', '}{n}{'' if kind == 'sq' else ', ' + str(pos)}) raised {type(e).__name__}: {e}"))
            continue
        if o in ("error", "no-routine"):
            tdis.append((case, f"{name}: the model of the regenerated routine says {o}, the real routine returned shape {real.shape}"))
            continue
        model = parse_rows(o)
        width = (k + 1) if kind == "sq" else k
        if real.ndim != 2 or real.shape[1] != width:
            pf.append((case, f"{name}: returned shape {real.shape}, expected (*, {width})"))
            continue
        rows = [tuple(int(x) for x in r) for r in real.tolist()]
        if any(float(x) != int(x) for r in real.tolist() for x in r):
            pf.append((case, f"{name}: non-integer entries"))
            continue
        if kind == "sq":
            if sorted(rows) != sorted(model):
                tdis.append((case, f"{name}({n}): rows differ from the regenerated model: real-only {sorted(set(rows) - set(model))[:4]}, model-only {sorted(set(model) - set(rows))[:4]}"))
            want = sorted((sum(x * x for x in t),) + t for t in itertools.product(range(n), repeat=k)
                          if any(t) and any(j * j == sum(x * x for x in t) for j in range(n)))
            if sorted(rows) != want:
                pf.append((case, f"{name}({n}): returned rows are not exactly the non-zero vectors of range({n})^{k} whose squared norm is one of 0², …, {n - 1}² "
                                 f"(with that squared norm in front): unexpected {sorted(set(rows) - set(want))[:4]}, missing {sorted(set(want) - set(rows))[:4]}, "
                                 f"{len(rows)} rows for {len(want)}"))
            elif any(rows[i][0] > rows[i + 1][0] for i in range(len(rows) - 1)):
                pf.append((case, f"{name}({n}): rows are not sorted by the squared norm"))
        else:
            if rows != model:
                tdis.append((case, f"continuousvector({k}, {n}, {pos}): rows differ from the regenerated model ({len(rows)} vs {len(model)} rows)"))
            h = n // 2
            want = [t for t in itertools.product(range(-h, h), repeat=k) if any(t) and (not pos or min(t) >= 0)] if k in (2, 3) else []
            if rows != want:
                pf.append((case, f"continuousvector({k}, {n}, {pos}): returned rows are not exactly the non-zero integer vectors of [−{h}, {h})^{k}"
                                 f"{' without negative components' if pos else ''} in loop order: {len(rows)} rows for {len(want)}; "
                                 f"unexpected {sorted(set(rows) - set(want))[:4]}, missing {sorted(set(want) - set(rows))[:4]}"))


def pack_part(run, tdis, pf):
    """packing_capability_2d: the real routine (neighbour file read through read_neighbors, minimum image through remove_pbc,
    reference angles through triangle_angle) against the driver's composition of the models (exact ℚ geometry, Float angles) and
    against a brute-force evaluation of the definition; plus the theorems' statements on the real output: ≥ 0, unchanged when the
    order inside a neighbour row changes (symmetric σ), exactly 0 for touching-disc triangles."""
    import os, shutil, tempfile
    from fractions import Fraction
    from PyMatterSim.reader.reader_utils import SingleSnapshot, Snapshots
    from PyMatterSim.static.geometric import packing_capability_2d
    rng = run.rng
    cases = []
    for _ in range(40 if run.tier == "quick" else 600):
        N = rng.randint(4, 12)
        K = rng.choice([1, 2, 3])
        lx, ly = common.dec(rng, 3, 6, 2), common.dec(rng, 3, 6, 2)
        xy = common.dec(rng, -1.5, 1.5, 2) if rng.random() < 0.5 else "0"
        H = [[lx, "0"], [xy, ly]]
        ppp = rng.choice([[1, 1], [1, 1], [1, 0], [0, 1], [0, 0]])
        sig = [[None] * K for _ in range(K)]
        for a in range(K):
            for b in range(a, K):
                sig[a][b] = sig[b][a] = common.dec(rng, 0.9, 1.3, 2)
        types = [rng.randint(1, K) for _ in range(N)]
        types[rng.randrange(N)] = K                       # the routine asserts that the largest label equals the size of σ
        pos = [[common.dec(rng, 0, 6, 3), common.dec(rng, 0, 6, 3)] for _ in range(N)]
        rows = []
        for i in range(N):
            others = [j for j in range(N) if j != i]
            rng.shuffle(others)
            rows.append(others[:rng.randint(0, min(6, N - 1))])
        if rng.random() < 0.6:                            # make many pairs mutual, otherwise most terms vanish
            for i in range(N):
                for j in rows[i]:
                    if i not in rows[j] and len(rows[j]) < 8:
                        rows[j].append(i)
        cases.append({"kind": "packing", "N": N, "K": K, "H": H, "ppp": ppp, "sig": sig, "types": types, "pos": pos, "rows": rows})
    # touching discs: an equilateral-ish cluster whose every mutual triangle has exactly the reference side lengths (one species)
    for s_ in ("1", "1.25", "0.5"):
        a = float(s_)
        P = [[3.0, 3.0]] + [[3.0 + a * math.cos(k * math.pi / 3), 3.0 + a * math.sin(k * math.pi / 3)] for k in range(6)]
        rows = [[1, 2, 3, 4, 5, 6]] + [[0, 1 + (k % 6), 1 + ((k - 2) % 6)] for k in range(1, 7)]
        cases.append({"kind": "packing", "N": 7, "K": 1, "H": [["20", "0"], ["0", "20"]], "ppp": [0, 0], "sig": [[s_]], "types": [1] * 7,
                      "pos": [[repr(x), repr(y)] for x, y in P], "rows": rows, "ideal": True})

    def real(c, rows):
        tmp = tempfile.mkdtemp(prefix="extrapack")
        try:
            nf = os.path.join(tmp, "nb.dat")
            with open(nf, "w") as f:
                f.write("id     cn     neighborlist\n")
                for i, r in enumerate(rows):
                    f.write("{} {} {}\n".format(i + 1, len(r), " ".join(str(j + 1) for j in r)))
            Hf = np.array([[float(x) for x in r] for r in c["H"]])
            L = np.array([Hf[0, 0], Hf[1, 1]])
            snap = SingleSnapshot(0, c["N"], np.array(c["types"], dtype=int), np.array([[float(x) for x in p] for p in c["pos"]]), L,
                                  np.column_stack((np.zeros(2), L)), None, Hf)
            with np.errstate(all="ignore"):
                return np.asarray(packing_capability_2d(Snapshots(1, [snap]), np.array([[float(x) for x in r] for r in c["sig"]]), nf,
                                                        ppp=np.array(c["ppp"])))[0]
        finally:
            shutil.rmtree(tmp, ignore_errors=True)

    def brute(c, rows):
        Hf = np.array([[float(x) for x in r] for r in c["H"]]); Hi = np.linalg.inv(Hf)
        X = np.array([[float(x) for x in p] for p in c["pos"]]); sg = np.array([[float(x) for x in r] for r in c["sig"]])
        pp = np.array(c["ppp"], dtype=float)

        def mi(v):
            f = v @ Hi
            return (f - np.rint(f) * pp) @ Hf
        out = []
        for o in range(c["N"]):
            tot = 0.0
            for a in range(len(rows[o])):
                for b in range(a + 1, len(rows[o])):
                    i, j = rows[o][a], rows[o][b]
                    if j in rows[i] and i in rows[j]:
                        u, v = mi(X[i] - X[o]), mi(X[j] - X[o])
                        th = math.acos(max(-1.0, min(1.0, float(u @ v) / math.sqrt(float(u @ u) * float(v @ v)))))
                        so, si, sj = sg[c["types"][o] - 1, c["types"][i] - 1], sg[c["types"][o] - 1, c["types"][j] - 1], sg[c["types"][i] - 1, c["types"][j] - 1]
                        tot += abs(th - math.acos((so * so + si * si - sj * sj) / (2 * so * si)))
            out.append(tot / len(rows[o]) if rows[o] else float("nan"))
        return out
    ops = []
    for c in cases:
        if c.get("ideal"):
            ops.append(None)
            continue
        ops.append("pack2d {} {} 20 {} {} {} {} {} {}".format(
            c["N"], c["K"], " ".join(x for r in c["H"] for x in r), " ".join(str(x) for x in c["ppp"]), " ".join(x for r in c["sig"] for x in r),
            " ".join(str(t - 1) for t in c["types"]), " ".join(x for p in c["pos"] for x in p),
            " ".join(str(len(r)) + "".join(" " + str(j) for j in r) for r in c["rows"])))
    outs = iter(common.drive([o for o in ops if o]))
    for c, op in zip(cases, ops):
        run.hist("routine", "packing")
        try:
            r = real(c, c["rows"])
        except Exception as e:
            pf.append((c, f"packing_capability_2d raised {type(e).__name__}: {e}"))
            continue
        if c.get("ideal"):
            run.count(("pack-ideal", c["sig"][0][0]), True)
            if not np.all(np.abs(r) <= 1e-6):
                pf.append((c, f"packing_capability_2d of touching discs (every mutual triangle has the reference side lengths) is {r.tolist()}, expected 0"))
            continue
        o = next(outs)
        if o == "bad-op":
            raise common.Infra("driver rejected pack2d")
        t = o.split()
        margin, dmin = Fraction(t[0]), Fraction(t[1])
        if margin < Fraction(1, 10 ** 6) or dmin < Fraction(1, 10 ** 4):
            run.hist("packing_skipped", "rint tie or coincident particles")
            continue
        model = [bits2float(x) for x in t[2:]]
        run.count(("pack", repr(c["pos"]), repr(c["rows"])), any(len(x) >= 2 for x in c["rows"]))
        run.hist("packing_mask", str(c["ppp"])); run.hist("packing_cell", "tilted" if c["H"][1][0] != "0" else "orthogonal")
        bf = brute(c, c["rows"])
        for k in range(c["N"]):
            if not c["rows"][k]:
                continue
            if not common.close(float(r[k]), model[k], 1e-7, 1e-7):
                tdis.append((c, f"packing_capability_2d[{k}] = {float(r[k])!r} vs the model's composition {model[k]!r}"))
            if not common.close(float(r[k]), bf[k], 1e-7, 1e-7):
                pf.append((c, f"packing_capability_2d[{k}] = {float(r[k])!r}, definition (Σ over mutual neighbour pairs |θ − θ_ref| / cn) = {bf[k]!r}"))
                break
            if float(r[k]) < 0:
                pf.append((c, f"packing_capability_2d[{k}] = {float(r[k])!r} is negative"))
                break
        # order inside a row does not matter (σ symmetric): E_pack_perm
        rows2 = [list(reversed(x)) for x in c["rows"]]
        try:
            r2 = real(c, rows2)
            if not all(common.close(float(a), float(b), 1e-7, 1e-7) for a, b, x in zip(r, r2, c["rows"]) if x):
                pf.append((c, "packing_capability_2d changes when the neighbours inside each row are listed in reverse order"))
        except Exception as e:
            pf.append((c, f"packing_capability_2d raised {type(e).__name__} on reversed rows: {e}"))


def voropp_part(run, tdis, pf):
    """neighbors/voropp_neighbors.py with a STAND-IN for the external program: a script named `voro++`, first on PATH, that keeps a copy
    of the input file it is given and writes a prepared `dumpused.vol`.  Checked: get_input / the input file (id, coordinates, radius of
    the particle's type); cal_voro (the four files are the four `@`-parts of every line, verbatim); voronowalls against the driver's
    model and the theorems' statements (no wall left, areas aligned with the kept neighbours, recomputed cn and total area); indicehis
    against the model (rows as a multiset, frequencies non-increasing and adding up to 1)."""
    import os, shutil, stat, tempfile
    from fractions import Fraction
    from PyMatterSim.reader.reader_utils import SingleSnapshot, Snapshots
    from PyMatterSim.neighbors import voropp_neighbors as vp
    rng = run.rng
    tmp = tempfile.mkdtemp(prefix="extravoro")
    cwd, path0 = os.getcwd(), os.environ.get("PATH", "")
    try:
        exe = os.path.join(tmp, "bin")
        os.makedirs(exe)
        with open(os.path.join(exe, "voro++"), "w") as f:
            f.write('#!/bin/sh\nn=$(cat "$PMS_FAKE_DIR/count")\ncp dumpused "$PMS_FAKE_DIR/in.$n"\ncp "$PMS_FAKE_DIR/vol.$n" dumpused.vol\necho $((n+1)) > "$PMS_FAKE_DIR/count"\n')
        os.chmod(os.path.join(exe, "voro++"), stat.S_IRWXU)
        os.environ["PATH"] = exe + os.pathsep + path0
        os.environ["PMS_FAKE_DIR"] = tmp
        os.chdir(tmp)
        for _ in range(12 if run.tier == "quick" else 150):
            T, N, d = rng.randint(1, 3), rng.randint(2, 7), 3
            K = rng.choice([1, 2, 3])
            radii = {k + 1: float(common.dec(rng, 0.3, 0.9, 2)) for k in range(K)}
            walls = rng.random() < 0.7
            frames, snaps = [], []
            for t in range(T):
                types = [rng.randint(1, K) for _ in range(N)]
                pos = np.array([[float(common.dec(rng, 0, 5, 3)) for _ in range(d)] for _ in range(N)])
                L = np.array([5.0, 6.0, 7.0])
                snaps.append(SingleSnapshot(t, N, np.array(types), pos, L, np.column_stack((np.zeros(d), L)), None, np.diag(L)))
                cells = []
                order = list(range(1, N + 1))
                rng.shuffle(order)                                   # voro++ writes the cells in its own order
                for i in order:
                    cn = rng.randint(3, 9)
                    nbrs = [(-rng.randint(1, 6) if walls and rng.random() < 0.3 else rng.randint(1, N)) for _ in range(cn)]
                    if all(x < 0 for x in nbrs):
                        nbrs[0] = rng.randint(1, N)
                    areas = [common.dec(rng, 0, 3, 3) for _ in range(cn)]
                    vol = common.dec(rng, 0.5, 9, 3)
                    tot = str(sum(Fraction(a) for a in areas).limit_denominator(10 ** 6).__float__())
                    idx = [0, 0, 0] + [rng.randint(0, 4) for _ in range(rng.randint(2, 6))]
                    cells.append({"id": i, "cn": cn, "nbrs": nbrs, "areas": areas, "vol": vol, "tot": "%.6f" % float(tot), "idx": idx})
                frames.append(cells)
                with open(os.path.join(tmp, f"vol.{t}"), "w") as f:
                    for c in cells:
                        f.write(f"{c['id']} {c['cn']} {c['vol']} {c['tot']} @{c['id']} {' '.join(map(str, c['idx']))} @{c['id']} {c['cn']} "
                                f"{' '.join(map(str, c['nbrs']))} @{c['id']} {c['cn']} {' '.join(c['areas'])}\n")
            S = Snapshots(T, snaps)
            case = {"kind": "voropp", "T": T, "N": N, "radii": radii, "frames": frames}
            for routine in ("cal_voro", "voronowalls"):
                with open(os.path.join(tmp, "count"), "w") as f:
                    f.write("0\n")
                out = os.path.join(tmp, "o")
                try:
                    with np.errstate(all="ignore"):
                        (vp.cal_voro(S, "-p", radii, out) if routine == "cal_voro" else vp.voronowalls(S, "-px", radii, out))
                except Exception as e:
                    pf.append((dict(case, routine=routine), f"{routine} raised {type(e).__name__}: {e}"))
                    continue
                run.hist("routine", routine); run.count((routine, repr(frames)), True)
                # the input file handed to voro++
                for t in range(T):
                    got = np.loadtxt(os.path.join(tmp, f"in.{t}"), ndmin=2)
                    want = np.column_stack((np.arange(N) + 1, snaps[t].positions, [radii[k] for k in snaps[t].particle_type]))
                    if got.shape != want.shape or np.abs(got - want).max() > 6e-7:
                        pf.append((dict(case, routine=routine), f"{routine}: the input file of frame {t} is not `id x y z radius-of-its-type`"))
                        break
                files = {k: open(f"{out}.{k}.dat").read().split("\n") for k in ("neighbor", "facearea", "voroindex", "overall")}
                if routine == "cal_voro":
                    want = {"neighbor": [], "facearea": [], "voroindex": ["id   voro_index   0_to_7_faces"], "overall": ["id   cn   volume   facearea"]}
                    for cells in frames:
                        want["neighbor"].append("id   cn   neighborlist"); want["facearea"].append("id   cn   facearealist")
                        for c in cells:
                            want["overall"].append(f"{c['id']} {c['cn']} {c['vol']} {c['tot']} ")
                            want["voroindex"].append(f"{c['id']} {' '.join(map(str, c['idx']))} ")
                            want["neighbor"].append(f"{c['id']} {c['cn']} {' '.join(map(str, c['nbrs']))} ")
                            want["facearea"].append(f"{c['id']} {c['cn']} {' '.join(c['areas'])}")
                    for k in want:
                        if [x for x in files[k] if x != ""] != want[k]:
                            pf.append((dict(case, routine=routine), f"cal_voro: {k} file is not the corresponding `@`-part of every voro++ line, frame by frame"))
                            break
                    continue
                # voronowalls: per cell against the model and the statements
                ops = []
                for cells in frames:
                    for c in cells:
                        nb = [c["id"], c["cn"]] + c["nbrs"]
                        fa = [str(c["id"]), str(c["cn"])] + c["areas"]
                        ops.append(f"voropp walls impl {len(nb)} {' '.join(map(str, nb))} {len(fa)} {' '.join(fa)} {c['id']} {c['cn']} {c['vol']} {c['tot']}")
                outs = common.drive(ops)
                nbl = [x for x in files["neighbor"] if x.strip() and not x.startswith("id")]
                fal = [x for x in files["facearea"] if x.strip() and not x.startswith("id")]
                ovl = [x for x in files["overall"] if x.strip() and not x.startswith("id")]
                flat = [c for cells in frames for c in cells]
                if not (len(nbl) == len(fal) == len(ovl) == len(flat)):
                    pf.append((dict(case, routine=routine), f"voronowalls wrote {len(nbl)}/{len(fal)}/{len(ovl)} rows for {len(flat)} cells"))
                    continue
                for c, o, a, b, g in zip(flat, outs, nbl, fal, ovl):
                    if o in ("bad-op", "error"):
                        raise common.Infra("driver: " + o)
                    mn, mf, mo = [x.split() for x in o.split("|")]
                    rn, rf, ro = [int(x) for x in a.split()], [float(x) for x in b.split()], [float(x) for x in g.split()]
                    if rn != [int(x) for x in mn] or len(rf) != len(mf) or any(abs(x - float(Fraction(y))) > 6e-7 for x, y in zip(rf, mf)) \
                            or len(ro) != 4 or any(abs(x - float(Fraction(y))) > 2e-6 for x, y in zip(ro, mo)):
                        tdis.append((dict(case, routine=routine), f"voronowalls cell {c['id']}: wrote {rn} | {rf} | {ro}, model {mn} | {mf} | {mo}"))
                    kept = [(n, float(x)) for n, x in zip(c["nbrs"], c["areas"]) if n > 0]
                    if rn[2:] != [n for n, _ in kept] or any(n <= 0 for n in rn[2:]) or rn[1] != len(kept) or int(ro[1]) != len(kept) \
                            or len(rf) != 2 + len(kept) or any(abs(x - y) > 6e-7 for x, (_, y) in zip(rf[2:], kept)) \
                            or abs(ro[3] - sum(y for _, y in kept)) > 2e-6 or abs(ro[2] - float(c["vol"])) > 6e-7:
                        pf.append((dict(case, routine=routine), f"voronowalls cell {c['id']} (neighbours {c['nbrs']}, areas {c['areas']}): wrote neighbours {rn}, "
                                                                f"areas {rf}, overall {ro}; expected the positive neighbours {[n for n, _ in kept]} with their own areas "
                                                                f"{[y for _, y in kept]}, cn {len(kept)}, total area {sum(y for _, y in kept):.6f}"))
                        break
                # indicehis on the index file just written
                his = os.path.join(tmp, "his.dat")
                try:
                    vp.indicehis(out + ".voroindex.dat", his)
                except Exception as e:
                    pf.append((dict(case, routine="indicehis"), f"indicehis raised {type(e).__name__}: {e}"))
                    continue
                run.hist("routine", "indicehis"); run.count(("his", repr(frames)), True)
                rows = [x.split() for x in open(his).read().split("\n")[1:] if x.strip()]
                real = sorted((tuple(int(v) for v in r[:4]), float(r[4])) for r in rows)
                o = common.drive([f"voropp his {len(flat)} " + " ".join(f"{len(c['idx'])} " + " ".join(map(str, c["idx"])) for c in flat)])[0]
                body = o.partition(" ")[2]
                model = sorted((tuple(int(v) for v in e.split(":")[0].split(",")), float(Fraction(e.split(":")[1]))) for e in body.split(";")) if body else []
                if [k for k, _ in real] != [k for k, _ in model] or any(abs(x - y) > 6e-7 for (_, x), (_, y) in zip(real, model)):
                    tdis.append((dict(case, routine="indicehis"), f"indicehis rows {real} vs model {model}"))
                fr = [float(r[4]) for r in rows]
                if abs(sum(fr) - 1) > 1e-5 * max(1, len(fr)) or any(fr[i] < fr[i + 1] - 1e-9 for i in range(len(fr) - 1)):
                    pf.append((dict(case, routine="indicehis"), f"indicehis: frequencies {fr} do not add up to 1 / are not in decreasing order"))
    finally:
        os.chdir(cwd)
        os.environ["PATH"] = path0
        os.environ.pop("PMS_FAKE_DIR", None)
        shutil.rmtree(tmp, ignore_errors=True)
    np.set_printoptions(edgeitems=3, infstr="inf", linewidth=75, nanstr="nan", precision=8, suppress=False, threshold=1000, formatter=None)


def lws_part(run, tdis, pf):
    """LineWithinSquare: the real routine against the driver's interpretation of the regenerated if-chain (Float atan2) and the
    regenerated intersection terms; monitor: the returned point lies on the line through R0 and R0 − vector and on the line of one of the
    four edges (E_lws_point, E_lws_edge).  Directions within 1e-9 of a corner direction are not judged (the chain's `>` / `<=` there)."""
    from PyMatterSim.utils.geometry import LineWithinSquare
    rng = run.rng
    cases = []
    for _ in range(120 if run.tier == "quick" else 3000):
        x0, y0 = float(common.dec(rng, -3, 3, 2)), float(common.dec(rng, -3, 3, 2))
        w, h = float(common.dec(rng, 1, 5, 2)), float(common.dec(rng, 1, 5, 2))
        jit = lambda: float(common.dec(rng, -0.2, 0.2, 2))
        P = [[x0 + jit(), y0 + jit()], [x0 + w + jit(), y0 + jit()], [x0 + w + jit(), y0 + h + jit()], [x0 + jit(), y0 + h + jit()]]
        R0 = [x0 + w * float(common.dec(rng, 0.3, 0.7, 2)), y0 + h * float(common.dec(rng, 0.3, 0.7, 2))]
        v = [float(common.dec(rng, -4, 4, 2)), float(common.dec(rng, -4, 4, 2))]
        if abs(v[0]) + abs(v[1]) < 0.05:
            continue
        cases.append((P, R0, v))
    ops = ["lws " + " ".join(float2bits(x) for x in [c for p in P for c in p] + R0 + v) for P, R0, v in cases]
    outs = common.drive(ops)
    for (P, R0, v), o in zip(cases, outs):
        if o == "bad-op":
            raise common.Infra("driver rejected lws")
        case = {"kind": "LineWithinSquare", "P": P, "R0": R0, "vector": v}
        th = math.atan2(-v[1], -v[0])
        ang = [math.atan2(p[1] - R0[1], p[0] - R0[0]) for p in P]
        if min(abs(th - a) for a in ang) < 1e-9:
            continue
        run.hist("routine", "LineWithinSquare"); run.count(("lws", repr(P), repr(R0), repr(v)), True)
        try:
            r = LineWithinSquare(*[np.array(p) for p in P], np.array(R0), np.array(v))
        except Exception as e:
            pf.append((case, f"LineWithinSquare raised {type(e).__name__}: {e}"))
            continue
        t = o.split()
        mx, my = bits2float(t[2]), bits2float(t[3])
        run.hist("lws_edge", f"{t[0]}-{t[1]}")
        if not (common.close(float(r[0]), mx, 1e-9, 1e-9) and common.close(float(r[1]), my, 1e-9, 1e-9)):
            tdis.append((case, f"LineWithinSquare = {[float(r[0]), float(r[1])]} vs the regenerated chain and terms {[mx, my]} (edge {t[0]}-{t[1]})"))
        cr = lambda a, b, q: (b[0] - a[0]) * (q[1] - a[1]) - (b[1] - a[1]) * (q[0] - a[0])
        R1 = [R0[0] - v[0], R0[1] - v[1]]
        sc = 1 + max(abs(x) for p in P for x in p) ** 2 + abs(float(r[0])) ** 2 + abs(float(r[1])) ** 2
        on_ray = abs(cr(R0, R1, r)) <= 1e-7 * sc
        on_edge = any(abs(cr(P[k], P[(k + 1) % 4], r)) <= 1e-7 * sc for k in range(4))
        if not (on_ray and on_edge):
            pf.append((case, f"LineWithinSquare returned {[float(r[0]), float(r[1])]}: not on the line through R0 and R0 − vector, or on none of the four edge lines"))
            continue
        # the statement itself, by brute force: where the ray from R0 towards R1 = R0 − vector leaves the (convex) quadrilateral
        hit = None
        for k in range(4):
            a, b = P[k], P[(k + 1) % 4]
            ex, ey, dx, dy = b[0] - a[0], b[1] - a[1], -v[0], -v[1]
            den = dx * ey - dy * ex
            if abs(den) < 1e-12:
                continue
            tt = ((a[0] - R0[0]) * ey - (a[1] - R0[1]) * ex) / den
            ss = ((a[0] - R0[0]) * dy - (a[1] - R0[1]) * dx) / den
            if tt > 1e-9 and -1e-9 <= ss <= 1 + 1e-9:
                hit = [R0[0] + tt * dx, R0[1] + tt * dy]
        if hit is not None and (abs(hit[0] - float(r[0])) > 1e-6 * sc or abs(hit[1] - float(r[1])) > 1e-6 * sc):
            pf.append((case, f"LineWithinSquare returned {[float(r[0]), float(r[1])]}, the ray from R0 towards R0 − vector leaves the quadrilateral at {hit}"))


def search(run, broken):
    found = False
    for b in broken:
        for c, w in b.get("failing", []):
            run.violation("EXTRA:" + c["kind"], w, {"case": c})
            found = True
    return [] if found else list(broken)


def replay(run, rp):
    return True
