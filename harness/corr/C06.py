"""C06 — relaxation functions (`Dynamics.relaxation`, `LogDynamics.relaxation`, `Dynamics.sq4`).

Tie = translator (Pms/Gen/Dyn.lean regenerated from dynamics.py / funcs.py; the model Pms/Model/Dyn.lean
is built from it and the theorems of Pms/Props/C06.lean are about it) + correspondence (real routines,
in-process, vs the model's `Impl` through the compiled driver, exact ℚ, cos/sin evaluated in Float).
Failing-input search = the REAL routines against the model's `Spec` (the property's definition, which uses
nothing regenerated) and against the wrapped-vs-unwrapped monitor."""
import logging
import os
import shutil
import tempfile
from fractions import Fraction

import numpy as np

import common
from common import dec, fr

PROP = "C06"
PROPS_FILES = ["Pms/Props/C06.lean"]
GENERATORS = ["dyn"]
RULE = ("seeded trajectories: T∈2..7 frames × N∈3..10 particles × d∈{2,3} × coordinates {xu only, x only (wrapped, "
        "orthogonal or tilted cell, periodic mask), both} × motion {ballistic, diffusive, arrested, mixed} × diameters map "
        "(1–3 species) × cutoff factor a × {slow, fast} × selection {none, per-frame masks with a constant count, masks with "
        "varying count (Impl only)} × {no neighbour file, file written by the real Nnearests and read by the real "
        "read_neighbors} × {linear, log} sampling, plus sq4 cases (lag from t, conditional S(q) of the mobile subset); "
        "decimal-grid inputs; plus a TIE STREAM of dyadic trajectories (float-exact) with squared displacements exactly equal "
        "to (a·diameter)² (hops of length a·σ, a = 0 with arrested particles) judged at margin 0; otherwise a case is judged only when every cutoff comparison and every rint argument is ≥1e-6 from its "
        "flip point; non-trivial = at least one lag has ≥2 origins and the overlap column is not constant 0 or 1 "
        "(sq4: ≥1 origin with a non-empty proper mobile subset); distinct = distinct literal inputs")
TRUSTED_BASE = [
    "Lean 4.33 kernel; axioms propext, Classical.choice, Quot.sound only",
    "proved for all trajectories over any ordered field (hence ℝ): loop/averaging structure, counts, χ4, α2 prefactor, time axis, "
    "log variant, wrapped = unwrapped inside the half cell, cage-relative formula, sq4 origin/lag bookkeeping — about a model "
    "built FROM the regenerated loop ranges, index expressions, comparison operators, x4/alpha2 expressions and alpha2factor",
    "modelled by contract, not proved: float64 ≈ ℝ; np.cos/np.sin/np.exp (parameters in the theorems, libm in the driver, compared "
    "at 1e-7); np.rint (IsRintHE) and np.linalg.inv (IsInv) as in C02; numpy mean/sum/boolean-mask indexing as finite sums; "
    "pandas Series.map, DataFrame +,/ and groupby(q).mean() after round(8) (rows matched by q with tolerance); Python round()",
    "neighbour tables (real Nnearests → file → real read_neighbors) and wave-vector lists (real choosewavevector) are INPUT DATA "
    "to the model; their own correctness is C05 / C04",
    "translator/gens/dyn.py (AST walker + index/field expression printers) and this harness; statements not semantically "
    "extracted are pinned as unparsed text by the decided theorem C06_source_shape",
    "χ4's N is the number of selected particles and is only defined by the statement for masks with a constant count: "
    "`len(a2_cuts)` of the last iteration is modelled as such in Impl and proved equal to that count",
]

logging.disable(logging.CRITICAL)
import warnings  # noqa: E402
warnings.filterwarnings("ignore", category=RuntimeWarning)      # numpy: mean of an empty selection (judged as NaN == NaN or skipped)
MARGIN = Fraction(1, 10 ** 6)
COLS = ["t", "isf", "Qt", "X4_Qt", "msd", "alpha2"]
TOL = [1e-9, 1e-7, 1e-9, 1e-8, 1e-9, 1e-8]


# ----------------------------------------------------------------------------- generator

def F(s):
    return Fraction(s)


def fstr(q):
    """a Fraction on the decimal grid as a decimal string"""
    q = Fraction(q)
    s = "-" if q < 0 else ""
    q = abs(q)
    n = 0
    while q.denominator != 1 and n < 12:
        q *= 10
        n += 1
    if q.denominator != 1:
        raise ValueError("not on a decimal grid")
    v = q.numerator
    return f"{s}{v // 10 ** n}.{v % 10 ** n:0{n}d}" if n else f"{s}{v}"


def gen_case(rng, variant=None, force=None):
    force = force or {}
    d = force.get("d", rng.choice([2, 3]))
    T = force.get("T", rng.randint(2, 7))
    N = force.get("N", rng.randint(3, 10))
    variant = variant or ("log" if rng.random() < 0.25 else "lin")
    mode = force.get("mode", rng.choice(["xu", "x", "both"]))
    motion = rng.choice(["ballistic", "diffusive", "arrested", "mixed"])
    # cell: rows of H are the cell vectors (row-vector convention of remove_pbc)
    cell = rng.choice(["orth", "orth", "tri"])
    H = [[Fraction(0)] * d for _ in range(d)]
    for i in range(d):
        H[i][i] = F(dec(rng, 3, 9, 2))
    if cell == "tri":
        for i in range(d):
            for j in range(i):
                H[i][j] = F(dec(rng, -1, 1, 2))
        common.sparse_tilt(rng, H)
    ppp = [1] * d if rng.random() < 0.6 else [rng.choice([0, 1]) for _ in range(d)]
    if not any(ppp):
        ppp[rng.randrange(d)] = 1
    nsp = rng.randint(1, 3)
    types = [rng.randint(1, nsp) for _ in range(N)]
    diam = {t: dec(rng, 0.8, 1.6, 2) for t in range(1, nsp + 1)}
    a = dec(rng, 0.1, 0.9, 2)
    fast = rng.random() < 0.4
    t0 = rng.choice([0, 100, 5000])
    interval = rng.choice([1, 10, 500])
    dt = rng.choice(["0.002", "0.005", "0.01", "1"])
    qconst = rng.choice(["2pi", "2pi", dec(rng, 1, 9, 2)])
    # unwrapped positions
    x0 = [[F(dec(rng, 0, float(H[k][k]), 3)) for k in range(d)] for _ in range(N)]
    scale = {"ballistic": F("0.25"), "diffusive": F("0.3"), "arrested": F("0.02")}
    kinds = [motion if motion != "mixed" else rng.choice(["diffusive", "arrested", "ballistic"]) for _ in range(N)]
    vel = [[F(dec(rng, -float(scale["ballistic"]) * 2, float(scale["ballistic"]) * 2, 3)) for _ in range(d)] for _ in range(N)]
    xu = [x0]
    for t in range(1, T):
        fr_ = []
        for i in range(N):
            k = kinds[i]
            if k == "ballistic":
                fr_.append([x0[i][c] + vel[i][c] * t for c in range(d)])
            elif k == "diffusive":
                fr_.append([xu[-1][i][c] + F(dec(rng, -0.45, 0.45, 3)) for c in range(d)])
            else:
                fr_.append([x0[i][c] + F(dec(rng, -0.03, 0.03, 3)) for c in range(d)])
        xu.append(fr_)
    if rng.random() < 0.15:   # occasional jump of more than half a cell
        i = rng.randrange(N)
        t = rng.randrange(1, T)
        for tt in range(t, T):
            xu[tt][i][0] += H[0][0] * F(rng.choice(["0.6", "0.8", "1.3"]))
    # selection
    r = rng.random()
    if r < 0.4:
        cond = None
    elif variant == "log":
        cnt = rng.randint(1, N)
        idx = set(rng.sample(range(N), cnt))
        cond = [[1 if i in idx else 0 for i in range(N)]]
    elif r < 0.9:
        cnt = rng.randint(1, N)
        cond = []
        for _ in range(T):
            idx = set(rng.sample(range(N), cnt))
            cond.append([1 if i in idx else 0 for i in range(N)])
    else:
        cond = []
        for _ in range(T):
            row = [rng.choice([0, 1]) for _ in range(N)]
            if not any(row):
                row[rng.randrange(N)] = 1
            cond.append(row)
    nn = rng.randint(1, N - 2) if (N >= 4 and rng.random() < 0.35) else 0
    c = {"variant": variant, "T": T, "N": N, "d": d, "mode": mode, "motion": motion, "cell": cell,
         "H": [[fstr(x) for x in row] for row in H], "ppp": ppp, "types": types, "diam": diam, "a": a, "fast": fast,
         "t0": t0, "interval": interval, "dt": dt, "qconst": qconst,
         "xu": [[[fstr(v) for v in p] for p in frm] for frm in xu], "cond": cond, "nn": nn,
         "thin": (rng.randint(1, 10 ** 9) if (nn >= 2 and rng.random() < 0.5) else 0)}
    if nn and rng.random() < 0.5:
        c["maxnb"] = rng.choice([1, 2, nn, max(1, nn - 1), nn + 1])      # the `max_neighbors` option: shorter than, equal to, longer than the lists
    # call history on ONE Dynamics / LogDynamics object: an earlier relaxation() with another wavenumber, result discarded
    if rng.random() < 0.35:
        c["prior_qconst"] = rng.choice([q for q in ["2pi", "4.0", "7.1", "3.3"] if q != qconst])
    c.update({k: v for k, v in force.items() if k not in ("d", "T", "N", "mode")})
    return c


def gen_tie(rng, variant=None):
    """TIE STREAM: dyadic inputs on which float64 arithmetic is exact, with squared displacements EXACTLY equal to
    (a·diameter)² (lattice hops of length a·σ; a = 0 with arrested particles).  Pins the conventions themselves:
    slow is strict <, fast is strict >, at equality a particle is neither.  Judged against the exact model, never skipped."""
    d = rng.choice([2, 3])
    T = rng.randint(2, 5)
    N = rng.randint(3, 6)
    variant = variant or rng.choice(["lin", "log"])
    diam = {1: "1", 2: "2", 3: "0.5"}
    types = [rng.randint(1, 3) for _ in range(N)]
    a = rng.choice(["0.5", "0.25", "0", "0.5"])
    fast = rng.random() < 0.5
    x0 = [[Fraction(rng.randint(0, 63), 8) for _ in range(d)] for _ in range(N)]
    kinds = ["mover"] + [rng.choice(["hop", "hop", "arrested", "mover"]) for _ in range(N - 1)]
    hop_t = [rng.randint(1, T - 1) for _ in range(N)]
    hop_ax = [rng.randrange(d) for _ in range(N)]
    hop_sg = [rng.choice([-1, 1]) for _ in range(N)]
    vel = [[Fraction(rng.randint(-3, 3), 8) for _ in range(d)] for _ in range(N)]
    vel[0][0] = Fraction(rng.choice([1, 2, 3]), 8)     # particle 0 always moves: msd > 0 for every pair
    xu = []
    for t in range(T):
        frm = []
        for i in range(N):
            p = list(x0[i])
            if kinds[i] == "mover":
                p = [p[c] + vel[i][c] * t for c in range(d)]
            elif kinds[i] == "hop" and t >= hop_t[i]:
                p[hop_ax[i]] += hop_sg[i] * F(a) * F(diam[types[i]])
            frm.append(p)
        xu.append(frm)
    r = rng.random()
    if r < 0.5:
        cond = None
    else:
        cnt = rng.randint(1, N)
        rows = []
        for _ in range(1 if variant == "log" else T):
            idx = {0} | set(rng.sample(range(1, N), cnt - 1))
            rows.append([1 if i in idx else 0 for i in range(N)])
        cond = rows
    return {"variant": variant, "T": T, "N": N, "d": d, "mode": "xu", "motion": "tie", "cell": "orth",
            "H": [["8" if i == j else "0" for j in range(d)] for i in range(d)], "ppp": [1] * d, "types": types,
            "diam": diam, "a": a, "fast": fast, "t0": rng.choice([0, 64]), "interval": rng.choice([1, 8]),
            "dt": rng.choice(["0.5", "0.125", "1"]), "qconst": "2pi", "xu": [[[fstr(v) for v in p] for p in frm] for frm in xu],
            "cond": cond, "nn": 0, "tie": True}


def wrapped(c):
    """x = xu − Σ_i floor(frac_i)·ppp_i·H_i, exact"""
    d = c["d"]
    H = [[F(x) for x in row] for row in c["H"]]
    Hinv = inv_exact(H)
    out = []
    for frm in c["xu"]:
        f2 = []
        for p in frm:
            p = [F(v) for v in p]
            frac = [sum(p[i] * Hinv[i][k] for i in range(d)) for k in range(d)]
            m = [(frac[k].numerator // frac[k].denominator) * c["ppp"][k] for k in range(d)]
            f2.append([p[k] - sum(m[i] * H[i][k] for i in range(d)) for k in range(d)])
        out.append(f2)
    return out


def inv_exact(H):
    d = len(H)
    A = [[Fraction(x) for x in row] + [Fraction(int(i == j)) for j in range(d)] for i, row in enumerate(H)]
    for col in range(d):
        piv = next(r for r in range(col, d) if A[r][col] != 0)
        A[col], A[piv] = A[piv], A[col]
        pv = A[col][col]
        A[col] = [x / pv for x in A[col]]
        for r in range(d):
            if r != col and A[r][col] != 0:
                f = A[r][col]
                A[r] = [x - f * y for x, y in zip(A[r], A[col])]
    return [row[d:] for row in A]


def qconst_frac(c):
    return Fraction(2 * np.pi) if c["qconst"] == "2pi" else F(c["qconst"])


def snapshots(c, which):
    from PyMatterSim.reader.reader_utils import SingleSnapshot, Snapshots
    d, N, T = c["d"], c["N"], c["T"]
    H = np.array([[float(F(x)) for x in row] for row in c["H"]])
    L = np.array([H[k][k] for k in range(d)])
    bb = np.column_stack((np.zeros(d), L))
    pos = c["xu"] if which == "xu" else [[[fstr(v) for v in p] for p in frm] for frm in wrapped(c)]
    snaps = []
    for t in range(T):
        P = np.array([[float(F(v)) for v in p] for p in pos[t]], dtype=float)
        snaps.append(SingleSnapshot(c["t0"] + c["interval"] * t, N, np.array(c["types"]), P, L.copy(), bb.copy(), None, H.copy()))
    return Snapshots(T, snaps), pos


def neighbour_tables(c, snaps, tmp):
    """the file written by the real Nnearests, and the tables the real reader returns for it"""
    from PyMatterSim.neighbors.calculate_neighbors import Nnearests
    from PyMatterSim.neighbors.read_neighbors import read_neighbors
    fn = os.path.join(tmp, "neighborlist.dat")
    Nnearests(snaps, N=c["nn"], ppp=np.array(c["ppp"]), fnfile=fn)
    if c.get("thin"):
        # variable coordination numbers (cutoff / Voronoi-style lists): every row keeps only its first k ≥ 1 neighbours,
        # k drawn reproducibly from the case; the file stays in the documented "id cn neighborlist" format
        import random as _random
        r = _random.Random(c["thin"])
        out = []
        for line in open(fn):
            it = line.split()
            if not it or not it[0].isdigit():
                out.append(line)
                continue
            k = r.randint(1, int(it[1]))
            ids = it[2:2 + k]
            if r.random() < 0.3:
                # the same particle listed twice (two periodic images of it are neighbours in a small cell): it counts twice in the mean
                ids = ids + [ids[r.randrange(len(ids))]]
            out.append(" ".join([it[0], str(len(ids))] + ids) + "\n")
        with open(fn, "w") as f:
            f.writelines(out)
    # the neighbour rows the dynamics must use: parsed here from the file text (ids − 1), each row cut to the object's
    # `max_neighbors` (the documented meaning of that option: only the first max_neighbors listed neighbours count)
    mx = int(c.get("maxnb", 30))
    tabs, cur = [], None
    with open(fn) as f:
        for line in f:
            it = line.split()
            if not it:
                continue
            if not it[0].isdigit():
                cur = []
                tabs.append(cur)
                continue
            cn = int(it[1])
            cur.append([int(x) - 1 for x in it[2:2 + cn]][:mx])
    return fn, tabs[:c["T"]]


def build(c, tmp, coords=None):
    """the real object + the positions the dynamics uses + neighbour rows"""
    from PyMatterSim.dynamic.dynamics import Dynamics, LogDynamics
    mode = coords or c["mode"]
    su, pu = snapshots(c, "xu")
    sx, px = snapshots(c, "x")
    used, pos = (sx, px) if mode == "x" else (su, pu)
    fn, nbs = "", None
    if c["nn"]:
        # the neighbour file is input data: always computed from the wrapped frames with the case's mask,
        # so the 'x' and 'xu' runs of the same case use the same file
        fn, nbs = neighbour_tables(c, sx, tmp)
    cls = LogDynamics if c["variant"] == "log" else Dynamics
    kw = dict(dt=float(c["dt"]), ppp=np.array(c["ppp"]), diameters={int(k): float(v) for k, v in c["diam"].items()},
              a=float(c["a"]), cal_type="fast" if c["fast"] else "slow", neighborfile=fn, max_neighbors=int(c.get("maxnb", 30)))
    if mode == "xu":
        obj = cls(xu_snapshots=su, **kw)
    elif mode == "x":
        obj = cls(x_snapshots=sx, **kw)
    else:
        obj = cls(xu_snapshots=su, x_snapshots=sx, **kw)
    return obj, pos, nbs, (px if mode != "xu" else pu)


def np_cond(c):
    if c["cond"] is None:
        return None
    arr = np.array(c["cond"], dtype=bool)
    return arr[0] if c["variant"] == "log" else arr


def real_rows(c, coords=None):
    tmp = tempfile.mkdtemp(prefix="c06-")
    try:
        obj, pos, nbs, _ = build(c, tmp, coords)
        q = 2 * np.pi if c["qconst"] == "2pi" else float(c["qconst"])
        if c.get("prior_qconst"):
            obj.relaxation(qconst=(2 * np.pi if c["prior_qconst"] == "2pi" else float(c["prior_qconst"])), condition=np_cond(c))
        res = obj.relaxation(qconst=q, condition=np_cond(c))
        if list(res.columns) != COLS:
            raise ValueError(f"columns {list(res.columns)}")
        return np.asarray(res.values, dtype=float), pos, nbs
    finally:
        shutil.rmtree(tmp, ignore_errors=True)


real_rows = common.with_history(real_rows)


def traj_tokens(c, pos, nbs, coords=None):
    mode = coords or c["mode"]
    T, N, d = c["T"], c["N"], c["d"]
    pbc = mode == "x"
    toks = [T, N, d, int(c["fast"]), int(pbc), int(bool(c["nn"]))]
    toks += [c["t0"] + c["interval"] * t for t in range(T)]
    q = qconst_frac(c)
    toks += [c["dt"], c["a"], f"{q.numerator}/{q.denominator}"]
    dm = {int(k): v for k, v in c["diam"].items()}
    toks += [dm[t] for t in c["types"]]
    toks += [v for frm in pos for p in frm for v in p]
    if pbc:
        for _ in range(T):
            toks += [x for row in c["H"] for x in row]
        toks += c["ppp"]
    if c["nn"]:
        for t in range(T):
            rows = nbs[0] if c["variant"] == "log" else nbs[t]
            for row in rows:
                toks += [len(row)] + row
    if c["cond"] is None:
        toks += [1] * (T * N)
    elif c["variant"] == "log":
        toks += c["cond"][0] * T
    else:
        toks += [b for row in c["cond"] for b in row]
    return " ".join(str(x) for x in toks)


def op_line(c, which, pos, nbs, coords=None):
    return f"dyn {which} {c['variant']} " + traj_tokens(c, pos, nbs, coords)


def parse_rows(o):
    toks = o.split()
    mc, mt, deg = fr(toks[0]), fr(toks[1]), toks[2] == "1"
    vals = [float(fr(t)) for t in toks[3:]]
    return mc, mt, deg, np.array(vals).reshape(-1, 6) if vals else np.zeros((0, 6))


def diff_rows(real, model):
    """first differing (row, column, real, model) or None"""
    if real.shape != model.shape:
        return (-1, "shape", real.shape, model.shape)
    for k in range(real.shape[0]):
        for j in range(6):
            if not common.close(real[k, j], model[k, j], TOL[j]):
                return (k, COLS[j], float(real[k, j]), float(model[k, j]))
    return None


def const_count(c):
    return c["cond"] is None or len({sum(r) for r in c["cond"]}) == 1


def classify(c):
    sel = "none" if c["cond"] is None else ("const" if const_count(c) else "varying")
    return f"{c['variant']}:d{c['d']}:{c['mode']}:{'fast' if c['fast'] else 'slow'}:sel-{sel}:{'cage' if c['nn'] else 'abs'}"


def half_cell_ok(c):
    """every true displacement between two frames is strictly (1e-6) inside the half cell on periodic axes"""
    d = c["d"]
    Hinv = inv_exact([[F(x) for x in row] for row in c["H"]])
    xu = [[[F(v) for v in p] for p in frm] for frm in c["xu"]]
    lim = Fraction(1, 2) - MARGIN
    for o in range(c["T"]):
        for e in range(o + 1, c["T"]):
            for i in range(c["N"]):
                dr = [xu[e][i][k] - xu[o][i][k] for k in range(d)]
                frac = [sum(dr[i2] * Hinv[i2][k] for i2 in range(d)) for k in range(d)]
                if any(c["ppp"][k] and abs(frac[k]) >= lim for k in range(d)):
                    return False
    return True


# ----------------------------------------------------------------------------- judging

def judge(run, cases, which):
    """runs the real code and the driver (`impl` or `spec`) on every case.
    returns list of (case, reason, column) disagreements and list of monitor failures"""
    prepared = []
    for c in cases:
        try:
            real, pos, nbs = real_rows(c)
            prepared.append((c, real, pos, nbs, None))
        except Exception as e:  # the real code raised on a well-formed input
            prepared.append((c, None, None, None, f"{type(e).__name__}: {e}"))
    lines, idx = [], []
    for k, (c, real, pos, nbs, err) in enumerate(prepared):
        if err is None:
            lines.append(op_line(c, which, pos, nbs))
            idx.append(k)
    outs = common.drive(lines) if lines else []
    omap = dict(zip(idx, outs))
    dis, mon = [], []
    skipped = 0
    for k, (c, real, pos, nbs, err) in enumerate(prepared):
        if err is not None:
            dis.append((c, "real code raised " + err, "raise"))
            continue
        o = omap[k]
        if o == "bad-op":
            raise common.Infra("driver rejected op: " + lines[idx.index(k)][:200])
        mc, mt, deg, model = parse_rows(o)
        if c.get("tie"):
            # tie stream: exact float arithmetic by construction, judged at margin 0 (deg cannot happen: particle 0 moves)
            run.coverage["tie_cases_judged"] = run.coverage.get("tie_cases_judged", 0) + 1
            if mc == 0:
                run.coverage["tie_cases_with_exact_equality"] = run.coverage.get("tie_cases_with_exact_equality", 0) + 1
        elif mc < MARGIN or (c["mode"] == "x" and mt < MARGIN) or deg:
            skipped += 1
            continue
        if which == "spec" and (not const_count(c)):
            continue
        for key in ("variant", "d", "mode", "motion", "cell", "fast", "T", "N"):
            run.hist(key, c[key])
        run.hist("selection", "none" if c["cond"] is None else ("const" if const_count(c) else "varying"))
        run.hist("history", "second relaxation() on the object" if c.get("prior_qconst") else "first call")
        run.hist("max_neighbors", "default" if "maxnb" not in c else ("truncates" if c["maxnb"] < c["nn"] else "not binding"))
        run.hist("cage", bool(c["nn"])); run.hist("cage_cn", "variable" if c.get("thin") else ("fixed" if c["nn"] else "none"))
        qcol = real[:, 2]
        nontriv = c["T"] >= 3 and bool(np.any((qcol > 0) & (qcol < 1)))
        run.count(lines[idx.index(k)], nontriv, sample={"class": classify(c), "real_row0": [float(x) for x in real[0]],
                                                        "model_row0": [float(x) for x in model[0]] if len(model) else []})
        df = diff_rows(real, model)
        if df:
            dis.append((c, f"{classify(c)} row {df[0]} column {df[1]}: real {df[2]!r} vs {which} {df[3]!r}", df[1]))
        # wrapped == unwrapped monitor on the real code (C06_wrapped_eq_unwrapped)
        if c["mode"] == "x" and half_cell_ok(c):
            try:
                ru, _, _ = real_rows(c, coords="xu")
                df2 = diff_rows(real, ru)
                run.coverage["wrapped_vs_unwrapped_checked"] = run.coverage.get("wrapped_vs_unwrapped_checked", 0) + 1
                if df2:
                    mon.append((c, f"wrapped≠unwrapped: {classify(c)} row {df2[0]} column {df2[1]}: x-run {df2[2]!r} vs xu-run {df2[3]!r}"))
            except Exception as e:
                mon.append((c, f"wrapped≠unwrapped: xu run raised {type(e).__name__}: {e}"))
    run.coverage["skipped_inside_margin"] = run.coverage.get("skipped_inside_margin", 0) + skipped
    return dis, mon


# ----------------------------------------------------------------------------- sq4

def gen_sq4(rng):
    c = gen_case(rng, variant="lin", force={"T": rng.randint(2, 6), "N": rng.randint(3, 8)})
    c["kind"] = "sq4"
    time0 = Fraction(c["interval"]) * F(c["dt"])
    lagk = rng.randint(1, c["T"] - 1)
    jit = F(rng.choice(["0", "0", "0.1", "-0.2", "0.3", "-0.4", "0.45"]))
    c["t"] = fstr(time0 * (lagk + jit))
    c["qrange"] = rng.choice(["2.0", "2.5", "3.0"])
    if c["cond"] is not None and rng.random() < 0.5:
        c["cond"] = [[rng.choice([0, 1, 1]) for _ in range(c["N"])] for _ in range(c["T"])]
    return c


def sq4_qvectors(c):
    from PyMatterSim.utils.wavevector import choosewavevector
    L = np.array([float(F(c["H"][k][k])) for k in range(c["d"])])
    twopidl = 2 * np.pi / L
    numofq = int(float(c["qrange"]) * 2.0 / twopidl.min())
    return choosewavevector(ndim=c["d"], numofq=numofq, onlypositive=False), twopidl


def real_sq4(c):
    tmp = tempfile.mkdtemp(prefix="c06-")
    try:
        obj, pos, nbs, spos = build(c, tmp)
        if c.get("prior_qconst"):      # earlier calls on the same object: a relaxation() and an sq4 at the smallest lag
            obj.relaxation(qconst=(2 * np.pi if c["prior_qconst"] == "2pi" else float(c["prior_qconst"])), condition=np_cond(c))
            try:
                obj.sq4(t=float(c["interval"]) * float(c["dt"]), qrange=float(c["qrange"]), condition=np_cond(c))
            except ZeroDivisionError:
                pass      # an empty mobility mask at that lag (outside the statement); it is only history here
        res = obj.sq4(t=float(c["t"]), qrange=float(c["qrange"]), condition=np_cond(c))
        if list(res.columns) != ["q", "Sq"]:
            raise ValueError(f"columns {list(res.columns)}")
        return np.asarray(res.values, dtype=float), pos, nbs, spos
    finally:
        shutil.rmtree(tmp, ignore_errors=True)


def sq4_line(c, which, pos, nbs, spos):
    qv, twopidl = sq4_qvectors(c)
    toks = [c["t"], len(qv)] + [int(x) for row in qv for x in row]
    toks += [c["H"][k][k] for k in range(c["d"])]
    for v in twopidl:
        q = Fraction(float(v))
        toks.append(f"{q.numerator}/{q.denominator}")
    toks += [v for frm in spos for p in frm for v in p]
    return f"sq4 {which} " + traj_tokens(c, pos, nbs) + " " + " ".join(str(x) for x in toks)


def judge_sq4(run, cases, which):
    prepared, lines, idx = [], [], []
    for k, c in enumerate(cases):
        try:
            real, pos, nbs, spos = real_sq4(c)
            prepared.append((c, real, None))
            lines.append(sq4_line(c, which, pos, nbs, spos))
            idx.append(k)
        except Exception as e:
            prepared.append((c, None, f"{type(e).__name__}: {e}"))
    outs = common.drive(lines) if lines else []
    omap = dict(zip(idx, outs))
    dis, skipped = [], 0
    for k, (c, real, err) in enumerate(prepared):
        if err is not None:
            # numpy refuses in-place ops on nan frames etc. only on degenerate inputs; ask the model first
            try:
                o = common.drive([sq4_line_safe(c, which)])[0]
                if o != "bad-op" and o.split()[2] == "1":
                    skipped += 1
                    continue
            except Exception:
                pass
            dis.append((c, "real code raised " + err, "raise"))
            continue
        o = omap[k]
        if o == "bad-op":
            raise common.Infra("driver rejected op: " + lines[idx.index(k)][:200])
        toks = o.split()
        mc, mt, deg, mlag = fr(toks[0]), fr(toks[1]), toks[2] == "1", fr(toks[3])
        lag, ng = int(toks[4]), int(toks[5])
        vals = toks[6:]
        keys = [float(fr(vals[3 * g])) for g in range(ng)]
        qs = [2 * np.pi * np.sqrt(x) for x in keys]
        gap = min([b - a for a, b in zip(qs, qs[1:])] + [1.0])
        if mc < MARGIN or (c["mode"] == "x" and mt < MARGIN) or deg or mlag < Fraction(1, 1000) or gap < 1e-6:
            skipped += 1
            continue
        model = np.array([[qs[g] * float(fr(vals[3 * g + 1])), float(fr(vals[3 * g + 2]))] for g in range(ng)])
        for key in ("d", "mode", "fast", "T", "N"):
            run.hist("sq4_" + key, c[key])
        run.hist("sq4_lag", lag)
        run.hist("sq4_selection", "none" if c["cond"] is None else "mask")
        run.hist("sq4_cage", bool(c["nn"]))
        nontriv = bool(np.any(np.abs(real[:, 1] - 1) > 1e-6)) and c["T"] - lag >= 1
        run.count(lines[idx.index(k)], nontriv, sample={"class": "sq4:" + classify(c), "lag": lag, "real_head": real[:2].tolist(),
                                                        "model_head": model[:2].tolist()})
        why = None
        if real.shape != model.shape:
            why = f"{real.shape[0]} shells vs {which} {model.shape[0]}"
        else:
            for g in range(ng):
                if not common.close(real[g, 0], model[g, 0], 1e-7):
                    why = f"shell {g} q: real {float(real[g, 0])!r} vs {which} {float(model[g, 0])!r}"
                    break
                if not common.close(real[g, 1], model[g, 1], 2e-7):
                    why = f"shell {g} Sq: real {float(real[g, 1])!r} vs {which} {float(model[g, 1])!r}"
                    break
        if why:
            dis.append((c, f"sq4:{classify(c)} lag {lag}: {why}", "sq4"))
    run.coverage["skipped_inside_margin"] = run.coverage.get("skipped_inside_margin", 0) + skipped
    return dis


def sq4_line_safe(c, which):
    """the driver line without running the real routine (positions rebuilt from the case)"""
    tmp = tempfile.mkdtemp(prefix="c06-")
    try:
        obj, pos, nbs, spos = build(c, tmp)
        return sq4_line(c, which, pos, nbs, spos)
    finally:
        shutil.rmtree(tmp, ignore_errors=True)


def correspond(run):
    n = 110 if run.tier == "quick" else 1000
    n4 = 40 if run.tier == "quick" else 300
    corpus = common.load_corpus(PROP)
    ntie = 30 if run.tier == "quick" else 400
    def sibling(rng, c):
        # same frames, timesteps, types, diameters, cell, options — every unwrapped position moved a little
        if c.get("tie") or c.get("kind") == "sq4":
            return None
        return dict(c, xu=[common.jitter_positions(rng, fr, 0.05, 3) for fr in c["xu"]])
    cases = [c for c in corpus if c.get("kind") != "sq4"] + common.add_siblings(run.rng, [gen_case(run.rng) for _ in range(n)], sibling, every=5) \
        + [gen_tie(run.rng) for _ in range(ntie)]
    cases4 = [c for c in corpus if c.get("kind") == "sq4"] + [gen_sq4(run.rng) for _ in range(n4)]
    dis, mon = judge(run, cases, "impl")
    dis4 = judge_sq4(run, cases4, "impl")
    run.coverage["traces_validated_against_impl"] = run.coverage["evaluations"]
    broken = []
    if dis4:
        broken.append({"kind": "correspondence", "name": "Pms.Dyn.Impl.sq4Shell~Dynamics.sq4",
                       "detail": f"{len(dis4)} of {len(cases4)} cases disagree; first: {dis4[0][1][:300]}",
                       "cases": [c for c, _, _ in dis4[:20]]})
    if dis:
        broken.append({"kind": "correspondence", "name": "Pms.Dyn.Impl.relaxation~Dynamics/LogDynamics.relaxation",
                       "detail": f"{len(dis)} of {len(cases)} cases disagree; first: {dis[0][1][:300]}",
                       "cases": [c for c, _, _ in dis[:20]]})
    if mon:
        broken.append({"kind": "monitor", "name": "C06 wrapped-vs-unwrapped monitor on the real output",
                       "detail": f"{len(mon)} failures; first: {mon[0][1][:300]}", "cases": [c for c, _ in mon[:20]]})
    return broken


def failing(run, c):
    """does the REAL code contradict the property's definition (Spec) on this input?  → (reason, column) or None"""
    if c.get("kind") == "sq4":
        dis = judge_sq4(run, [c], "spec")
        return (dis[0][1], dis[0][2]) if dis else None
    if not const_count(c):
        return None
    dis, mon = judge(run, [c], "spec")
    if dis:
        return dis[0][1], dis[0][2]
    if mon:
        return mon[0][1], "wrapped"
    return None


def shrink(run, c):
    """fewer frames → fewer particles, while the real code still contradicts Spec"""
    best = c
    if c.get("kind") == "sq4":
        return c
    for T in range(2, c["T"]):
        cand = dict(best, T=T, xu=best["xu"][:T], cond=None if best["cond"] is None else best["cond"][:max(1, T if best["variant"] == "lin" else 1)])
        if failing(run, cand):
            best = cand
            break
    if not best["nn"]:
        for N in range(2, best["N"]):
            cand = dict(best, N=N, types=best["types"][:N], xu=[frm[:N] for frm in best["xu"]],
                        cond=None if best["cond"] is None else [row[:N] for row in best["cond"]])
            if cand["cond"] is not None and (any(sum(r) == 0 for r in cand["cond"]) or not const_count(cand)):
                continue
            if failing(run, cand):
                best = cand
                break
    return best


def search(run, broken):
    unexplained = []
    found = set()
    pool = []
    for b in broken:
        pool += [c for c in b.get("cases", []) if isinstance(c, dict) and "xu" in c]
    budget = 300 if run.tier == "quick" else 1500
    pool += [gen_tie(run.rng) for _ in range(60)]
    fresh = [gen_case(run.rng) for _ in range(budget)]
    fresh4 = [gen_sq4(run.rng) for _ in range(budget // 4)]
    # interleave: 4 relaxation cases, 1 sq4 case
    while fresh or fresh4:
        pool += fresh[:4]
        fresh = fresh[4:]
        pool += fresh4[:1]
        fresh4 = fresh4[1:]
    tried = 0
    for c in pool:
        tried += 1
        if len(found) >= 4:
            break
        why = failing(run, c)
        kind = "sq4" if c.get("kind") == "sq4" else c["variant"]
        if why and (kind, why[1]) not in found:
            c2 = shrink(run, c)
            why2 = failing(run, c2) or why
            found.add((kind, why[1]))
            run.violation(f"C06:{kind}:{why2[1]}", why2[0], {"case": c2, "broken": [b["name"] for b in broken]})
    run.coverage["search_cases"] = tried
    if not found:
        unexplained = list(broken)
    return unexplained


def replay(run, rp):
    if "case" in rp:
        return bool(failing(run, rp["case"]))
    cs = [c for c in rp.get("cases", []) if isinstance(c, dict) and "xu" in c]
    dis, mon = judge(run, [c for c in cs if c.get("kind") != "sq4"], "impl") if cs else ([], [])
    dis4 = judge_sq4(run, [c for c in cs if c.get("kind") == "sq4"], "impl") if cs else []
    return bool(dis or mon or dis4)
