"""C05 — neighbour lists (Nnearests / cutoffneighbors / cutoffneighbors_particletype) and the file
reader (read_neighbors).

correspondence: the REAL writers are run on seeded snapshots; the written file is compared token-wise
with the lines produced by the Lean model (`Pms.Neigh.Impl.*Frame`, exact ℚ, driver op `nbr`); the REAL
reader then reads that file frame by frame from one handle with a per-frame Nmax and is compared with
`Pms.Neigh.Impl.readNeighbors` run on the same text (driver op `nread`).  Hand-made files (weights
header, shuffled ids, truncated files) go through the same reader comparison.

Spec / monitors (used to judge the real code, never the model): exact squared minimum-image distances
(driver op `nd2`, i.e. the C02-verified `removePbc` in ℚ) → brute-force definition of the lists in
Python; the expected table is recomputed in Python from the file's own rows.
"""
import logging
import os
import shutil
import tempfile
from fractions import Fraction

import numpy as np

import common
from common import dec, fr

PROP = "C05"
PROPS_FILES = ["Pms/Props/C05.lean"]
GENERATORS = ["neigh"]
RULE = ("seeded generator over d∈{2,3} × cell {orthogonal, triclinic} × mask {0,1}^d × style {random, jittered lattice, "
        "clustered, exact dyadic lattice (ties + boundary hits)} × n∈[2,10] × frames∈[1,3] × routine {Nnearests (N up to "
        "nparticle-1 and beyond), cutoffneighbors, cutoffneighbors_particletype (K≤3, asymmetric matrices, types may change "
        "between frames)} × per-frame Nmax below/at/above the largest cn; plus hand-made files (weights header, shuffled "
        "ids, truncated).  A case is non-trivial when at least one pair is wrapped by the minimum image or a row is "
        "truncated/padded by the reader; distinct = distinct literal inputs")
TRUSTED_BASE = [
    "Lean 4.33 kernel; axioms propext, Classical.choice, Quot.sound only",
    "np.argpartition / argsort modelled by contract (IsArgpartition: permutation with the kth element in sorted position; "
    "IsArgsort: permutation sorted by key); boolean-mask selection = List.filter over ascending indices; np.linalg.norm "
    "compared through its square (monotone); remove_pbc = the C02 model (np.linalg.inv, np.rint contracts)",
    "file level: a line is its token list (str.split), int() = String.toNat? (round trip with Nat.repr proved in Lean's Std), "
    "float() is a parameter with the contract float(str(m)) = m; np.zeros/slice assignment/astype(int32) by their array "
    "semantics; np.array2string / '%d' formatting only through the tokens they produce (compared on every run)",
    "float64 arithmetic ≈ ℝ: validated by the correspondence under a margin guard (rint arguments, gaps between different "
    "distances from one centre and distance-vs-cutoff gaps ≥ 1e-6; exact ties are compared as groups; the inclusive "
    "boundary is judged on a dyadic stream where float arithmetic is exact), not proved",
    "hand-written model Pms/Model/Neigh.lean tied to calculate_neighbors.py / read_neighbors.py by harness/corr/C05.py; "
    "its discrete constants (argpartition index, slice bounds, drop index, id offsets, cn expression, comparison operators) "
    "are REGENERATED from calculate_neighbors.py into Pms/Gen/Neigh.lean by translator/gens/neigh.py (AST walker trusted; "
    "it matches every statement of the per-centre loops literally and refuses anything else)",
    "failing-input search only: for n≈1000 (where numpy's introselect no longer happens to sort small arrays) the oracle is "
    "a float64 brute force with a 1e-7 gap guard, not the exact model",
]
EPS = Fraction(1, 10 ** 6)
logging.disable(logging.CRITICAL)   # the routines log every call


# ----------------------------------------------------------------------------- generator

def _cell(rng, d, kind, dyadic):
    H = [["0"] * d for _ in range(d)]
    for i in range(d):
        H[i][i] = rng.choice(["4", "8"]) if dyadic else dec(rng, 3, 7, 2)
    if kind == "tri":
        for i in range(d):
            for j in range(i):
                H[i][j] = dec(rng, -1.5, 1.5, 2)
        common.sparse_tilt(rng, H)
    if dyadic and rng.random() < 0.4:
        # a tilted cell on which float arithmetic is still exact (power-of-two edges, dyadic tilt factors): separations of exactly
        # half a cell vector are rint ties whose two directions must stay exact negatives (half-even rounding is odd)
        for i in range(d):
            for j in range(i):
                H[i][j] = rng.choice(["0", "1", "2", "-1", "-2", "0.5"])
    return H


def _fmt(x, nd=3):
    q = 10 ** nd
    v = int(round(x * q))
    s = "-" if v < 0 else ""
    v = abs(v)
    return f"{s}{v // q}.{v % q:0{nd}d}"


def gen_case(rng, style=None):
    d = rng.choice([2, 3])
    style = style or rng.choice(["random", "random", "lattice", "clustered", "dyadic"])
    dyadic = style == "dyadic"
    kind = "orth" if dyadic else rng.choice(["orth", "tri"])
    H = _cell(rng, d, kind, dyadic)
    ppp = [rng.choice(["0", "1"]) for _ in range(d)]
    if rng.random() < 0.5:
        ppp = ["1"] * d
    n = rng.randint(2, 10)
    T = rng.choice([1, 1, 2, 3])
    Hf = [[float(x) for x in row] for row in H]
    pos = []
    for _ in range(T):
        fr_ = []
        if style == "dyadic":
            # integer / half-integer lattice sites: exact ties and exact cutoff-boundary hits
            sites = set()
            while len(sites) < n:
                sites.add(tuple(rng.randint(0, int(Hf[k][k]) * 2 - 1) for k in range(d)))
            for s in sorted(sites, key=lambda _: rng.random()):
                fr_.append([str(Fraction(v, 2)) if v % 2 else str(v // 2) for v in s])
            fr_ = [[(x if "/" not in x else str(float(Fraction(x)))) for x in row] for row in fr_]
        elif style == "lattice":
            m = 2
            while m ** d < n:
                m += 1
            cells = [tuple((c // m ** k) % m for k in range(d)) for c in range(m ** d)]
            rng.shuffle(cells)
            for c in cells[:n]:
                f = [(c[k] + 0.5) / m + rng.uniform(-0.04, 0.04) for k in range(d)]
                fr_.append([_fmt(sum(f[a] * Hf[a][k] for a in range(d))) for k in range(d)])
        elif style == "clustered":
            cents = [[rng.random() for _ in range(d)] for _ in range(rng.randint(1, 3))]
            for _i in range(n):
                c = rng.choice(cents)
                f = [c[k] + rng.uniform(-0.12, 0.12) for k in range(d)]
                fr_.append([_fmt(sum(f[a] * Hf[a][k] for a in range(d))) for k in range(d)])
        else:
            for _i in range(n):
                f = [rng.random() for _ in range(d)]
                fr_.append([_fmt(sum(f[a] * Hf[a][k] for a in range(d))) for k in range(d)])
        if style != "dyadic" and rng.random() < 0.3:
            fr_ = common.unfold_positions(rng, fr_, H, ppp)       # an unfolded (xu) frame
        pos.append(fr_)
    c = {"d": d, "kind": kind, "style": style, "H": H, "ppp": ppp, "n": n, "T": T, "pos": pos}
    mode = rng.choice(["nn", "cut", "ctype"])
    c["mode"] = mode
    Lmin = min(Hf[k][k] for k in range(d))
    if mode == "nn":
        r = rng.random()
        c["N"] = n - 1 if r < 0.3 else (n + rng.randint(0, 1) if r < 0.36 else rng.randint(1, n - 1))
    elif mode == "cut":
        if dyadic:
            c["rc"] = rng.choice(["0.5", "1", "1.5", "2", "2.5", "1", "2"])
        else:
            c["rc"] = dec(rng, 0.2, Lmin * 0.6, 2) if rng.random() < 0.95 else "0"
    else:
        K = rng.randint(1, min(3, n))
        if dyadic:
            rcm = [[rng.choice(["0.5", "1", "1.5", "2", "2.5"]) for _ in range(K)] for _ in range(K)]
        else:
            rcm = [[dec(rng, 0.2, Lmin * 0.6, 2) for _ in range(K)] for _ in range(K)]
        if rng.random() < 0.3:   # symmetric matrix
            for a in range(K):
                for b in range(a):
                    rcm[a][b] = rcm[b][a]
        t0 = list(range(1, K + 1)) + [rng.randint(1, K) for _ in range(n - K)]
        rng.shuffle(t0)
        types = [t0]
        vary = rng.random() < 0.25
        for _ in range(1, T):
            if vary:
                t1 = [rng.randint(1, K) for _ in range(n)]
                types.append(t1)
            else:
                types.append(list(t0))
        c.update({"K": K, "rcm": rcm, "types": types})
    c["nmax_choice"] = [rng.choice(["below", "at", "above", "big", "one", "zero"]) for _ in range(T)]
    return c


def geo_tokens(c):
    return "{} {} {} {} {} {}".format(c["d"], " ".join(x for row in c["H"] for x in row), " ".join(c["ppp"]), c["n"], c["T"],
                                      " ".join(x for f in c["pos"] for row in f for x in row))


def op_nbr(c):
    g = geo_tokens(c)
    if c["mode"] == "nn":
        return f"nbr nn {g} {c['N']}"
    if c["mode"] == "cut":
        return f"nbr cut {g} {c['rc']}"
    return "nbr ctype {} {} {} {}".format(g, c["K"], " ".join(x for row in c["rcm"] for x in row),
                                          " ".join(str(t) for f in c["types"] for t in f))


def op_nd2(c):
    return "nd2 " + geo_tokens(c)


# ----------------------------------------------------------------------------- the real code

def snapshots_of(c):
    from PyMatterSim.reader.reader_utils import SingleSnapshot, Snapshots
    d, n = c["d"], c["n"]
    H = np.array([[float(x) for x in row] for row in c["H"]])
    L = np.diag(H).copy()
    bb = np.column_stack((np.zeros(d), L))
    snaps = []
    for t in range(c["T"]):
        P = np.array([[float(x) for x in row] for row in c["pos"][t]])
        ty = np.array(c["types"][t]) if c["mode"] == "ctype" else np.ones(n, dtype=int)
        snaps.append(SingleSnapshot(t, n, ty, P, L.copy(), bb, None, H.copy()))
    return Snapshots(c["T"], snaps)


def real_write(c, tmp):
    """run the real writer; returns (text, None) or (None, 'ExcName: msg')"""
    from PyMatterSim.neighbors import calculate_neighbors as cn
    fn = os.path.join(tmp, "nb.dat")
    if os.path.exists(fn):
        os.remove(fn)
    if c["n"] % 3 != 1:
        # a file of that name is left over from an earlier analysis (another trajectory): the call must replace it, not add to it
        with open(fn, "w") as f:
            f.write("id     cn     neighborlist\n1 2 2 3\n2 1 1\n3 1 1\n" * 3)
    s = snapshots_of(c)
    ppp = np.array([int(x) for x in c["ppp"]])
    # process-global numpy print options (a user's own, or left behind by another routine) must not change what is written:
    # every other case runs under settings that abbreviate arrays of more than 4 elements
    if c["n"] % 2:
        np.set_printoptions(threshold=4, edgeitems=1, linewidth=30, precision=3)
    else:
        np.set_printoptions(edgeitems=3, infstr="inf", linewidth=75, nanstr="nan", precision=8, suppress=False, threshold=1000, formatter=None)
    try:
        if c["mode"] == "nn":
            cn.Nnearests(s, c["N"], ppp, fn)
        elif c["mode"] == "cut":
            cn.cutoffneighbors(s, float(c["rc"]), ppp, fn)
        else:
            cn.cutoffneighbors_particletype(s, np.array([[float(x) for x in row] for row in c["rcm"]]), ppp, fn)
    except Exception as e:  # noqa: BLE001
        return None, f"{type(e).__name__}: {e}"
    with open(fn) as f:
        return f.read(), None


real_write = common.with_history(real_write)


def real_read(text, n, nmaxs, tmp):
    """successive read_neighbors calls on one open handle; returns (tables|error strings, remaining line count)"""
    from PyMatterSim.neighbors.read_neighbors import read_neighbors
    fn = os.path.join(tmp, "rd.dat")
    with open(fn, "w") as f:
        f.write(text)
    out = []
    with open(fn) as f:
        for Nmax in nmaxs:
            try:
                out.append(np.asarray(read_neighbors(f, n, Nmax)))
            except Exception as e:  # noqa: BLE001
                out.append(f"{type(e).__name__}: {e}")
                break
        rest = len(f.readlines())
    return out, rest


def text_lines(text):
    ls = text.split("\n")
    if ls and ls[-1] == "":
        ls.pop()
    return [l.split() for l in ls]


# ----------------------------------------------------------------------------- Spec (property statement), in Python

def d2_of(c, d2line):
    toks = d2line.split()
    n, T = c["n"], c["T"]
    vals = [fr(t) for t in toks[1:]]
    return fr(toks[0]), [[[vals[(t * n + i) * n + j] for j in range(n)] for i in range(n)] for t in range(T)]


def spec_lists(c, D):
    """per frame, per centre: the d² sequence every correct list must show (others sorted by d²; first N / within cutoff)"""
    out = []
    n = c["n"]
    for t in range(c["T"]):
        rows = []
        for i in range(n):
            others = sorted((D[t][i][j], j) for j in range(n) if j != i)
            if c["mode"] == "nn":
                sel = others[:c["N"]]
            elif c["mode"] == "cut":
                rc2 = Fraction(c["rc"]) ** 2
                sel = [o for o in others if o[0] <= rc2]
            else:
                ty = c["types"][t]
                sel = [o for o in others if o[0] <= Fraction(c["rcm"][ty[i] - 1][ty[o[1]] - 1]) ** 2]
            rows.append(sel)
        out.append(rows)
    return out


def judge_lists(c, D, lines):
    """the written file against the property statement.  Returns None or (keytail, message)."""
    n, T = c["n"], c["T"]
    name = {"nn": "Nnearests", "cut": "cutoffneighbors", "ctype": "cutoffneighbors_particletype"}[c["mode"]]
    if len(lines) != T * (n + 1):
        return f"{name}:file-shape", f"{len(lines)} lines written for {T} frames of {n} particles"
    spec = spec_lists(c, D)
    lists = []
    for t in range(T):
        base = t * (n + 1)
        if lines[base] != ["id", "cn", "neighborlist"]:
            return f"{name}:header", f"frame {t}: header {lines[base]}"
        fl = []
        for i in range(n):
            row = lines[base + 1 + i]
            try:
                ints = [int(x) for x in row]
            except ValueError:
                return f"{name}:tokens", f"frame {t} line {i}: {row}"
            if len(ints) < 2 or ints[0] != i + 1:
                return f"{name}:id", f"frame {t} line {i}: id column {row[:1]} (expected {i + 1})"
            L = [j - 1 for j in ints[2:]]
            if ints[1] != len(L):
                return f"{name}:cn", f"frame {t} particle {i}: cn {ints[1]} but {len(L)} ids written"
            if any(j < 0 or j >= n for j in L):
                return f"{name}:id-range", f"frame {t} particle {i}: ids {ints[2:]} outside 1..{n}"
            if i in L:
                return f"{name}:self", f"frame {t} particle {i}: list {ints[2:]} contains the particle itself"
            if len(set(L)) != len(L):
                return f"{name}:duplicate", f"frame {t} particle {i}: list {ints[2:]} has duplicates"
            got = [D[t][i][j] for j in L]
            want = [o[0] for o in spec[t][i]]
            if got != want:
                if sorted(got) == want:
                    return f"{name}:order", (f"frame {t} particle {i}: list {ints[2:]} not ordered by increasing distance "
                                             f"(d² {[float(x) for x in got]})")
                return f"{name}:membership", (f"frame {t} particle {i}: list {ints[2:]} (d² {[round(float(x), 6) for x in got]}) "
                                              f"but the definition gives ids {[o[1] + 1 for o in spec[t][i]]} "
                                              f"(d² {[round(float(x), 6) for x in want]})")
            fl.append(L)
        lists.append(fl)
    if c["mode"] == "cut":
        for t in range(T):
            for i in range(n):
                for j in lists[t][i]:
                    if i not in lists[t][j]:
                        return f"{name}:symmetric", f"frame {t}: {j + 1} in list of {i + 1} but not conversely"
    return None


def spec_table(lines, n, Nmax):
    """expected read_neighbors result for the next frame of `lines`, from the property statement:
    per particle id: cn, zero-based neighbour indices (values unchanged for non-neighbour-list headers),
    zero padded to the largest cn, truncated to Nmax.  Returns (table, nconsumed) or None if the frame is malformed."""
    if len(lines) < n + 1 or n < 1:
        return None
    shift = 1 if "neighborlist" in lines[0] else 0
    rows = {}
    for item in lines[1:n + 1]:
        try:
            pid, cn = int(item[0]), int(item[1])
            vals = [float(Fraction(x)) - shift for x in item[2:]]
        except (ValueError, IndexError, ZeroDivisionError):
            return None
        if not (1 <= pid <= n) or len(vals) != cn:
            return None
        rows[pid - 1] = vals
    ks = [min(len(rows.get(i, [])), Nmax) for i in range(n)]
    w = max(ks)
    tab = [[float(ks[i])] + rows.get(i, [])[:ks[i]] + [0.0] * (w - ks[i]) for i in range(n)]
    return tab


def judge_read(lines, n, nmaxs, real_tabs, real_rest):
    """the real reader against the property statement on well-formed files"""
    pos = 0
    for fidx, Nmax in enumerate(nmaxs):
        exp = spec_table(lines[pos:], n, Nmax)
        if exp is None:
            return None   # malformed from here on: not judged
        if fidx >= len(real_tabs) or isinstance(real_tabs[fidx], str):
            why = real_tabs[fidx] if fidx < len(real_tabs) else "nothing returned"
            return "read_neighbors:raised", f"frame {fidx} Nmax={Nmax}: {why}"
        got = real_tabs[fidx]
        if got.ndim != 2 or got.shape != (n, len(exp[0])):
            return "read_neighbors:shape", f"frame {fidx} Nmax={Nmax}: shape {got.shape}, expected {(n, len(exp[0]))}"
        if "neighborlist" in lines[pos] and not np.issubdtype(got.dtype, np.integer):
            return "read_neighbors:dtype", f"frame {fidx}: dtype {got.dtype} for a neighbour list"
        for i in range(n):
            if any(not common.close(a, b, 1e-9) for a, b in zip(got[i].tolist(), exp[i])):
                return "read_neighbors:table", (f"frame {fidx} Nmax={Nmax} particle id {i + 1}: row {got[i].tolist()}, "
                                                f"expected {exp[i]}")
        pos += n + 1
    if real_rest != len(lines) - pos:
        return "read_neighbors:handle", f"{real_rest} lines left in the file after {len(nmaxs)} frames, expected {len(lines) - pos}"
    return None


# ----------------------------------------------------------------------------- model side helpers

def parse_nbr(o):
    toks = o.split()
    m = [fr(t) for t in toks[:4]]
    if toks[4:] == ["raise"]:
        return m, None
    lines = [[]]
    for t in toks[4:]:
        if t == "|":
            lines.append([])
        else:
            lines[-1].append(t)
    return m, lines


def op_nread(lines, n, nmaxs):
    return "nread {} {} {} | {}".format(n, len(nmaxs), " ".join(str(x) for x in nmaxs), " | ".join(" ".join(l) for l in lines))


def parse_nread(o):
    parts = [p.split() for p in o.split("|")]
    frames = []
    rest = None
    for p in parts:
        if p[0] == "F":
            ok, nr, nc = int(p[1]), int(p[2]), int(p[3])
            vals = [float(fr(x)) for x in p[4:]]
            frames.append((ok, [vals[r * nc:(r + 1) * nc] for r in range(nr)], nc))
        elif p[0] == "R":
            rest = int(p[1])
    return frames, rest


def max_cn(lines, n, t):
    base = t * (n + 1)
    try:
        return max(int(l[1]) for l in lines[base + 1:base + 1 + n])
    except (ValueError, IndexError):
        return 0


def nmaxs_for(c, lines):
    out = []
    for t, ch in enumerate(c["nmax_choice"]):
        m = max_cn(lines, c["n"], t)
        out.append({"below": max(m - 1, 0), "at": m, "above": m + 1, "big": 200, "one": 1, "zero": 0}[ch])
    return out


def same_lists_mod_ties(c, D, real_lines, model_lines):
    """token-wise comparison of the real file with the model's lines; ids compared through their exact d²
    (so members of an exact tie group may appear in either order)"""
    n = c["n"]
    if len(real_lines) != len(model_lines):
        return f"{len(real_lines)} lines vs model {len(model_lines)}"
    for k, (a, b) in enumerate(zip(real_lines, model_lines)):
        t, r = divmod(k, n + 1)
        if r == 0:
            if a != b:
                return f"header line {k}: {a} vs model {b}"
            continue
        if a[:2] != b[:2] or len(a) != len(b):
            return f"frame {t} line {r}: {a} vs model {b}"
        i = r - 1
        try:
            da = [D[t][i][int(x) - 1] for x in a[2:]]
            db = [D[t][i][int(x) - 1] for x in b[2:]]
        except (ValueError, IndexError):
            return f"frame {t} line {r}: {a} vs model {b}"
        if da != db or sorted(a[2:]) != sorted(b[2:]) and c["mode"] != "nn":
            return f"frame {t} line {r}: {a} vs model {b}"
    return None


def margin_ok(c, m):
    rintM, gapM, cutM, cutM0 = m
    if c["style"] == "dyadic":
        # float arithmetic is exact on this stream (orthogonal power-of-two cells, half-integer sites,
        # cutoffs with exactly representable squares): rint ties give equal distances, boundary hits are judged
        return gapM >= EPS and cutM >= EPS
    return rintM >= EPS and gapM >= EPS and cutM0 >= EPS


# ----------------------------------------------------------------------------- hand-made files for the reader

def gen_file_case(rng):
    n = rng.randint(1, 7)
    T = rng.randint(1, 3)
    kind = rng.choice(["weights", "weights", "shuffled", "truncated", "nlist"])
    lines = []
    for _ in range(T):
        nl = kind in ("shuffled", "nlist", "truncated") and rng.random() < 0.8
        lines.append(["id", "cn", "neighborlist"] if nl else ["id", "cn", rng.choice(["weights", "voronoi_area", "facearea"])])
        rows = []
        for i in range(n):
            cn = rng.randint(0, 6)
            if nl:
                vals = [str(rng.randint(1, max(n, 9))) for _ in range(cn)]
            else:
                vals = [dec(rng, -3, 9, rng.choice([1, 3])) for _ in range(cn)]
            rows.append([str(i + 1), str(cn)] + vals)
        if kind == "shuffled":
            rng.shuffle(rows)
        lines += rows
    if kind == "truncated":
        lines = lines[:rng.randint(0, len(lines) - 1)]
    nmaxs = [rng.choice([0, 1, 2, 3, 5, 6, 7, 200]) for _ in range(T)]
    return {"mode": "file", "kind": kind, "n": n, "T": T, "lines": lines, "nmaxs": nmaxs}


# ----------------------------------------------------------------------------- one pass over a batch of cases

def compare_reader(lines, n, nmaxs, tmp, model_out):
    """real reader vs model on the same text.  Returns (disagreement or None, real tables, real rest)"""
    text = "".join(" ".join(l) + "\n" for l in lines)
    rt, rrest = real_read(text, n, nmaxs, tmp)
    frames, mrest = parse_nread(model_out)
    why = None
    for k, Nmax in enumerate(nmaxs):
        ok, rows, nc = frames[k]
        real = rt[k] if k < len(rt) else "not-reached"
        if not ok:
            # malformed frame (the generator only truncates files): the model's decidable well-formedness
            # check fails, and the real code must raise rather than return a table
            if not isinstance(real, str):
                why = f"frame {k}: model says malformed (truncated file), real returned shape {real.shape}"
            break
        if isinstance(real, str):
            why = f"frame {k} Nmax={Nmax}: real raised {real}, model returned {len(rows)}x{nc}"
            break
        if real.shape != (len(rows), nc):
            why = f"frame {k} Nmax={Nmax}: real shape {real.shape} vs model {(len(rows), nc)}"
            break
        bad = [(i, real[i].tolist(), rows[i]) for i in range(len(rows))
               if any(not common.close(a, b, 1e-9) for a, b in zip(real[i].tolist(), rows[i]))]
        if bad:
            why = f"frame {k} Nmax={Nmax}: row {bad[0][0]} real {bad[0][1]} vs model {bad[0][2]}"
            break
    else:
        if rrest != mrest:
            why = f"remaining lines: real {rrest} vs model {mrest}"
    return why, rt, rrest


def run_cases(run, cases, count=True):
    """returns (disagreements [(case, reason)], spec_failures [(case, keytail, reason)])"""
    tmp = tempfile.mkdtemp(prefix="c05-")
    dis, spec_fail = [], []
    skipped = 0
    try:
        geo = [c for c in cases if c["mode"] != "file"]
        outs = common.drive([x for c in geo for x in (op_nbr(c), op_nd2(c))])
        pending = []   # (case, lines, nmaxs, D, judged)
        for k, c in enumerate(geo):
            o1, o2 = outs[2 * k], outs[2 * k + 1]
            if o1 == "bad-op" or o2 == "bad-op":
                raise common.Infra("driver rejected op: " + op_nbr(c)[:200])
            m, mlines = parse_nbr(o1)
            _, D = d2_of(c, o2)
            text, err = real_write(c, tmp)
            if count:
                run.hist("routine", c["mode"]); run.hist("dim", c["d"]); run.hist("cell", c["kind"])
                run.hist("mask", "".join(c["ppp"])); run.hist("style", c["style"]); run.hist("frames", c["T"])
                run.hist("n", c["n"])
                if c["mode"] == "nn":
                    run.hist("N_vs_n", "N==n-1" if c["N"] == c["n"] - 1 else ("N>=n" if c["N"] >= c["n"] else "N<n-1"))
            if not margin_ok(c, m):
                skipped += 1
                continue
            if count and c["style"] == "dyadic":
                if c["mode"] != "nn" and m[3] == 0:
                    run.hist("dyadic_stream", "cutoff-boundary-hit-judged")
                if any(len(set(row[:i] + row[i + 1:])) < len(row) - 1 for Dt in D for i, row in enumerate(Dt)):
                    run.hist("dyadic_stream", "exact-distance-ties-judged")
            wrapped = any(abs(float(D[t][i][j]) - sum((float(c["pos"][t][i][a]) - float(c["pos"][t][j][a])) ** 2
                                                      for a in range(c["d"]))) > 1e-9
                          for t in range(c["T"]) for i in range(c["n"]) for j in range(i))
            if err is not None:
                if mlines is None:
                    if count:
                        run.count(op_nbr(c), False)
                        run.hist("outcome", "both-raise")
                    continue
                dis.append((c, f"real code raised {err}; model writes {len(mlines)} lines"))
                sf = judge_case_lists(c, D, None, err)
                if sf:
                    spec_fail.append((c, sf[0], sf[1]))
                continue
            rl = text_lines(text)
            if mlines is None:
                dis.append((c, f"model: numpy raises (kth out of bounds); real wrote {len(rl)} lines"))
                sf = judge_case_lists(c, D, rl, None)
                if sf:
                    spec_fail.append((c, sf[0], sf[1]))
                continue
            why = same_lists_mod_ties(c, D, rl, mlines)
            if why:
                dis.append((c, why))
            sf = judge_case_lists(c, D, rl, None)
            if sf:
                spec_fail.append((c, sf[0], sf[1]))
            nmaxs = nmaxs_for(c, rl)
            pending.append((c, rl, nmaxs, wrapped))
        files = [c for c in cases if c["mode"] == "file"]
        for c in files:
            pending.append((c, c["lines"], c["nmaxs"], False))
            if count:
                run.hist("routine", "file:" + c["kind"])
        outs2 = common.drive([op_nread(l, c["n"], nm) for c, l, nm, _ in pending]) if pending else []
        for (c, lines, nmaxs, wrapped), o in zip(pending, outs2):
            if o == "bad-op":
                raise common.Infra("driver rejected nread op")
            why, rt, rrest = compare_reader(lines, c["n"], nmaxs, tmp, o)
            if why:
                dis.append((c, "read_neighbors: " + why))
            sf = judge_read(lines, c["n"], nmaxs, rt, rrest)
            if sf:
                spec_fail.append((c, sf[0], sf[1]))
            if count:
                trunc = any(nm < max_cn(lines, c["n"], t) for t, nm in enumerate(nmaxs)) if c["mode"] != "file" else True
                for nm in nmaxs:
                    run.hist("Nmax", nm if nm in (0, 1, 200) else "near-max-cn")
                run.count(op_nbr(c) if c["mode"] != "file" else op_nread(lines, c["n"], nmaxs), wrapped or trunc,
                          sample={"op": (op_nbr(c) if c["mode"] != "file" else op_nread(lines, c["n"], nmaxs))[:300],
                                  "file": [" ".join(l) for l in lines[:4]], "Nmax": nmaxs,
                                  "table0": (rt[0].tolist()[:3] if rt and not isinstance(rt[0], str) else str(rt[:1]))})
    finally:
        shutil.rmtree(tmp, ignore_errors=True)
    if count:
        run.coverage["skipped_inside_margin"] = run.coverage.get("skipped_inside_margin", 0) + skipped
    return dis, spec_fail


def judge_case_lists(c, D, real_lines, err):
    """real writer result against the property statement"""
    name = {"nn": "Nnearests", "cut": "cutoffneighbors", "ctype": "cutoffneighbors_particletype"}[c["mode"]]
    if err is not None:
        if c["mode"] == "nn" and c["N"] >= c["n"]:
            return None          # there are no N other particles: raising is the right answer
        if c["mode"] == "nn" and c["N"] == c["n"] - 1:
            return "Nnearests:N==nparticle-1:" + err.split(":")[0], (
                f"Nnearests(N={c['N']}) on {c['n']} particles raised {err}: the {c['N']} closest other particles exist")
        return f"{name}:raised:" + err.split(":")[0], f"{name} raised {err} on a well-formed input"
    if c["mode"] == "nn" and c["N"] >= c["n"]:
        return "Nnearests:N>=nparticle:no-error", f"Nnearests(N={c['N']}) on {c['n']} particles wrote a file"
    return judge_lists(c, D, real_lines)


# ----------------------------------------------------------------------------- large-n search stream (float oracle)

def gen_big_case(rng):
    n = rng.choice([600, 1000])
    L = [dec(rng, 8, 12, 2) for _ in range(3)]
    pos = [[dec(rng, 0, float(L[k]) - 0.001, 3) for k in range(3)] for _ in range(n)]
    return {"mode": "nn", "big": True, "d": 3, "kind": "orth", "style": "random", "H": [[L[0], "0", "0"], ["0", L[1], "0"], ["0", "0", L[2]]],
            "ppp": ["1", "1", "1"], "n": n, "T": 1, "pos": [pos], "N": rng.randint(20, 200), "nmax_choice": ["big"]}


def failing_big(c):
    """Nnearests on ~1000 particles against a float64 brute force of the definition (orthogonal periodic cell);
    a centre is judged only if the N-th and (N+1)-th distances differ by ≥ 1e-7"""
    tmp = tempfile.mkdtemp(prefix="c05b-")
    try:
        text, err = real_write(c, tmp)
    finally:
        shutil.rmtree(tmp, ignore_errors=True)
    if err is not None:
        return "C05:Nnearests:raised:" + err.split(":")[0], f"Nnearests raised {err} on {c['n']} particles, N={c['N']}"
    lines = text_lines(text)
    P = np.array([[float(x) for x in row] for row in c["pos"][0]])
    L = np.array([float(c["H"][k][k]) for k in range(3)])
    n, N = c["n"], c["N"]
    if len(lines) != n + 1:
        return "C05:Nnearests:file-shape", f"{len(lines)} lines for {n} particles"
    for i in range(n):
        D = P - P[i]
        D -= np.rint(D / L) * L
        r = np.sqrt((D ** 2).sum(1))
        order = np.argsort(r, kind="stable")
        if r[order[N + 1]] - r[order[N]] < 1e-7 if N + 1 < n else False:
            continue
        want = [int(j) for j in order[1:N + 1]]
        got = [int(x) - 1 for x in lines[i + 1][2:]]
        if sorted(got) != sorted(want):
            extra = sorted(set(got) - set(want))
            miss = sorted(set(want) - set(got))
            return "C05:Nnearests:membership", (f"{n} particles, N={N}, particle {i + 1}: listed id(s) {[j + 1 for j in extra]} at distance "
                                                f"{[round(float(r[j]), 6) for j in extra]} but closer id(s) {[j + 1 for j in miss]} at "
                                                f"{[round(float(r[j]), 6) for j in miss]} left out")
        if any(abs(r[a] - r[b]) > 1e-9 for a, b in zip(got, want)):
            return "C05:Nnearests:order", f"{n} particles, N={N}, particle {i + 1}: not ordered by increasing distance"
    return None


# ----------------------------------------------------------------------------- pipeline entry points

def sibling(rng, c):
    """same cell, mask, particle number, frame count, mode and parameters — every position moved a little"""
    if c.get("style") == "dyadic" or c.get("big") or "pos" not in c:
        return None
    return dict(c, pos=[common.jitter_positions(rng, fr, 0.2, 3) for fr in c["pos"]], style="random")


def correspond(run):
    n = 900 if run.tier == "quick" else 12000
    nf = 300 if run.tier == "quick" else 4000
    cases = common.load_corpus(PROP)
    cases += common.add_siblings(run.rng, [gen_case(run.rng) for _ in range(n)], sibling, every=5) + [gen_file_case(run.rng) for _ in range(nf)]
    dis, sf = run_cases(run, cases)
    run.coverage["traces_validated_against_impl"] = run.coverage["evaluations"]
    broken = []
    if dis:
        broken.append({"kind": "correspondence", "name": "Pms.Neigh.Impl~calculate_neighbors/read_neighbors",
                       "detail": f"{len(dis)} of {len(cases)} cases disagree; first: {dis[0][1][:300]}",
                       "cases": [c for c, _ in dis[:30]]})
    if sf:
        broken.append({"kind": "monitor", "name": "C05 property statement on real output",
                       "detail": f"{len(sf)} failures; first: {sf[0][2][:300]}",
                       "cases": [c for c, _, _ in sf[:30]]})
    return broken


def failing(run, c):
    """does the REAL code contradict the property statement on this input?  → (key, message) or None"""
    if c.get("big"):
        return failing_big(c)
    dis, sf = run_cases(run, [c], count=False)
    if sf:
        return "C05:" + sf[0][1], sf[0][2]
    return None


def shrink(run, c, key):
    def still(cand):
        try:
            f = failing(run, cand)
        except common.Infra:
            return False
        return f is not None and f[0] == key
    if c["mode"] == "file" or c.get("big"):
        return c
    best = c
    # fewer frames
    if best["T"] > 1:
        for t in range(best["T"]):
            cand = dict(best, T=1, pos=[best["pos"][t]], nmax_choice=[best["nmax_choice"][t]])
            if best["mode"] == "ctype":
                cand["types"] = [best["types"][t]]
            if still(cand):
                best = cand
                break
    # fewer particles
    changed = True
    while changed and best["n"] > 2:
        changed = False
        for p in range(best["n"] - 1, -1, -1):
            cand = dict(best, n=best["n"] - 1, pos=[[r for q, r in enumerate(f) if q != p] for f in best["pos"]])
            if best["mode"] == "ctype":
                cand["types"] = [[r for q, r in enumerate(f) if q != p] for f in best["types"]]
                if sorted(set(cand["types"][0])) != list(range(1, best["K"] + 1)):
                    continue
            if best["mode"] == "nn":
                if best["N"] == best["n"] - 1:
                    cand["N"] = cand["n"] - 1
                elif best["N"] > cand["n"] - 1:
                    continue
            if still(cand):
                best = cand
                changed = True
                break
    return best


def search(run, broken):
    unexplained = []
    tried = 0
    for b in broken:
        found = False
        pool = list(b.get("cases", []))
        if not pool:
            pool = [gen_case(run.rng) for _ in range(300)] + [gen_file_case(run.rng) for _ in range(100)]
        seen = set()
        for c in pool:
            tried += 1
            f = failing(run, c)
            if f:
                found = True
                if f[0] in seen:
                    continue
                seen.add(f[0])
                c2 = shrink(run, c, f[0])
                f2 = failing(run, c2) or f
                run.violation(f2[0], f2[1], {"case": c2, "broken": b["name"]})
        if not found and b["kind"] != "correspondence":
            # a broken theorem / translator with no small failing input: numpy's argpartition leaves small arrays
            # sorted, so contract violations only show on large arrays — float-oracle stream
            for _ in range(4 if run.tier == "quick" else 20):
                c = gen_big_case(run.rng)
                tried += 1
                f = failing(run, c)
                if f:
                    found = True
                    run.violation(f[0], f[1], {"case": c, "broken": b["name"]})
                    break
        if not found:
            unexplained.append(b)
    run.coverage["search_cases"] = tried
    return unexplained


def replay(run, rp):
    if "case" in rp:
        f = failing(run, rp["case"])
        if f:
            print(f"  {f[0]}: {f[1]}")
        return bool(f)
    # a "no longer checks" record: regenerate from the current tree, rebuild, and see whether the listed
    # theorems / translator / correspondence check again
    import sys
    st = common.proof_stage(run, sys.modules[__name__])
    names = {b["name"] for b in rp.get("broken", [])}
    still = [b for b in st["broken"] if b["name"] in names or b["kind"] in ("translator", "proof")]
    for b in still:
        print(f"  still broken: {b['kind']} {b['name']}")
    if still or not st["driver_ok"]:
        return True
    dis, sf = run_cases(run, rp.get("cases", []), count=False)
    for c, why in dis[:3]:
        print("  still disagrees: " + why[:200])
    return bool(dis or sf)
