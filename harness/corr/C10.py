"""C10 — 2D bond-orientational order (`static/boo.py::boo_2d`).

Tie = differential correspondence: the real `boo_2d` (lthorder, time_average, time_corr, spatial_corr) is run
in-process on seeded structured trajectories and compared with the Lean model `Pms.Boo2d` executed by the compiled
driver (geometry/decisions in exact ℚ, complex values in Float — a square root is needed for odd l).
Monitors evaluate the proved statements on the REAL output (|ψ| ≤ 1, |ψ| = 1 on perfect lattices, rotation
covariance on exactly rotated copies).  The failing-input search compares the real code with an independent
brute-force Spec written here in Python (exact Fractions for the minimum image and the bins)."""
import cmath
import math
import os
import shutil
import tempfile
import warnings
from decimal import Decimal, getcontext
from fractions import Fraction as F

import numpy as np

import common
from common import bits2float, dec, float2bits, fr

getcontext().prec = 60
import logging  # noqa: E402
logging.disable(logging.WARNING)   # pymattersim logs every call at INFO

PROP = "C10"
PROPS_FILES = ["Pms/Props/C10.lean"]
GENERATORS = []
RULE = ("seeded trajectories: kind {random, square, triangular, honeycomb lattice} × cell {orthogonal, triclinic, rotated (general "
        "h-matrix)} × mask {11,00,10,01} × neighbour table {random subsets, cutoff, lattice shells; Nmax truncation} × weights "
        "{none, positive, signed} × l=1..12 × 1..5 frames (linear/log dump) × windows; every case also as an exactly rotated "
        "copy (Pythagorean angle).  non-trivial = at least one bond crosses a periodic boundary or weights are signed or the "
        "cell is non-orthogonal; distinct = distinct literal inputs")
TRUSTED_BASE = [
    "Lean 4.33 kernel; axioms propext, Classical.choice, Quot.sound only",
    "np.arctan2(y,x) modelled by Complex.arg(x+iy) (contract; Mathlib has no atan2); np.exp/np.abs/np.angle/np.conj/mean/sum by "
    "Complex.exp/norm/arg/conj/Finset sums; np.rint and np.linalg.inv by the C02 contracts (IsRintHE, IsInv)",
    "read_neighbors output (neighbour / weight tables, Nmax truncation) is INPUT DATA of the model (C05 covers the reader); the "
    "harness writes real neighbour/weight files and the real reader parses them",
    "window length W=int(period/interval) and the middle-frame ids come from utils.coarse_graining.time_average (C16); C10 "
    "judges periods that are exact multiples of the frame interval or ≥1e-6 away from one, and compares ids only for even W",
    "np.histogram with range=(0,maxbin*rdelta): half-open uniform bins, last bin closed (contract; pair distances ≥1e-6 from an edge)",
    "float64 ≈ ℝ: validated by the correspondence under margin guards (rint ties, bin edges, int() truncations, branch cut of "
    "np.angle), tolerance 1e-9 (1e-7 for the separate modulus/phase average: Float atan2/cos/sin in the driver), not proved",
    "driver evaluates the SAME polymorphic model definitions at Float/Cx Float after exact-ℚ geometry; Float.sqrt is IEEE",
    "hand-written model Pms/Model/Boo2d.lean tied to boo.py by harness/corr/C10.py (no translator)",
]

PYTH = [(F(3, 5), F(4, 5)), (F(4, 5), F(3, 5)), (F(7, 25), F(24, 25)), (F(-3, 5), F(4, 5)), (F(0), F(1)),
        (F(-4, 5), F(-3, 5)), (F(24, 25), F(-7, 25))]
S3H = "0.866025403784"     # √3/2 truncated to 12 decimals
S36 = "0.288675134595"     # √3/6



def _traps():
    out = []
    for W in range(1, 10):
        for d in (1, 10, 50, 100, 500, 1000, 2000, 20, 250):
            for dt in ("0.002", "0.001", "0.005", "0.01", "0.004", "0.0025"):
                per = float(fdec(W * d * F(dt)))
                if int(per / (float(dt) * d)) != W:
                    out.append((W, d, dt))
    return out


def fdec(x):
    """exact decimal string of a Fraction whose denominator divides a power of 10 (else 18 decimals)"""
    x = F(x)
    d = Decimal(x.numerator) / Decimal(x.denominator)
    s = format(d, "f")
    if F(s) != x:
        s = format(d.quantize(Decimal(1).scaleb(-18)), "f")
    if "." in s:
        s = s.rstrip("0").rstrip(".")
    return s if s not in ("", "-0") else "0"


# ----------------------------------------------------------------------------- generators

def _neigh_random(rng, N, allow_self=False):
    rows = []
    for i in range(N):
        others = [j for j in range(N) if j != i]
        cn = rng.randint(1, min(len(others), 7))
        row = rng.sample(others, cn)
        if allow_self and rng.random() < 0.3:
            row[rng.randrange(cn)] = i
        rows.append(row)
    return rows


def _min_image(H, ppp, d):
    """exact minimum image of displacement d (Fractions) — row-vector convention, half-even rint; also tie margin"""
    det = H[0][0] * H[1][1] - H[0][1] * H[1][0]
    Hinv = [[H[1][1] / det, -H[0][1] / det], [-H[1][0] / det, H[0][0] / det]]
    f = [d[0] * Hinv[0][k] + d[1] * Hinv[1][k] for k in range(2)]
    g = []
    margin = F(1)
    for k in range(2):
        if ppp[k]:
            n = F(round(f[k]))          # Fraction.__round__ is half-even
            y = f[k] - F(1, 2)
            margin = min(margin, abs(y - round(y)))
            g.append(f[k] - n)
        else:
            g.append(f[k])
    out = [g[0] * H[0][k] + g[1] * H[1][k] for k in range(2)]
    return out, margin


def Hof(c, t):
    """the cell (flat list of four decimal strings) of frame t: `Hs` for a sheared trajectory, else the common `H`"""
    return c["Hs"][t] if c.get("Hs") else c["H"]


def _neigh_cutoff(c, pos, rc2, t=0):
    h = Hof(c, t)
    H = [[F(h[0]), F(h[1])], [F(h[2]), F(h[3])]]
    ppp = [int(x) for x in c["ppp"]]
    P = [[F(x), F(y)] for x, y in pos]
    rows = []
    for i in range(len(P)):
        cand = []
        for j in range(len(P)):
            if j == i:
                continue
            b, _ = _min_image(H, ppp, [P[j][0] - P[i][0], P[j][1] - P[i][1]])
            d2 = b[0] ** 2 + b[1] ** 2
            if d2 <= rc2:
                cand.append((d2, j))
        cand.sort()
        rows.append([j for _, j in cand])
    return rows


def gen_random(rng):
    N = rng.randint(3, 10)
    cell = rng.choice(["orth", "orth", "tri"])
    Lx, Ly = dec(rng, 4, 9, 2), dec(rng, 4, 9, 2)
    xy = dec(rng, -2, 2, 2) if cell == "tri" else "0"
    ppp = rng.choice([["1", "1"], ["1", "1"], ["0", "0"], ["1", "0"], ["0", "1"]])
    T = rng.choice([1, 1, 2, 3, 4, 5])
    c = {"kind": "random", "cell": cell, "H": [Lx, "0", xy, Ly], "box": [Lx, Ly], "ppp": ppp, "N": N, "T": T,
         "l": rng.randint(1, 12), "lat_l": 0}
    base = [[dec(rng, -1, 9, 3), dec(rng, -1, 9, 3)] for _ in range(N)]
    frames = [base]
    for _ in range(T - 1):
        frames.append([[fdec(F(x) + F(dec(rng, -0.4, 0.4, 3))), fdec(F(y) + F(dec(rng, -0.4, 0.4, 3)))] for x, y in frames[-1]])
    if rng.random() < 0.3:
        frames = [common.unfold_positions(rng, fr, [[Lx, "0"], [xy, Ly]], ppp) for fr in frames]      # unfolded (xu) coordinates
    c["pos"] = frames
    if cell == "tri" and T >= 2 and rng.random() < 0.7:
        # a sheared trajectory: same box lengths, another tilt in every frame
        c["Hs"] = [c["H"]] + [[Lx, "0", dec(rng, -2, 2, 2), Ly] for _ in range(T - 1)]
    mode = rng.choice(["subset", "subset", "cutoff"])
    c["nmode"] = mode
    nl = []
    for t in range(T):
        if mode == "subset":
            nl.append(_neigh_random(rng, N, allow_self=rng.random() < 0.03))
        else:
            rows = _neigh_cutoff(c, frames[t], F(dec(rng, 2, 4, 1)) ** 2, t)
            for i, r in enumerate(rows):      # nobody isolated (the empty mean is nan in numpy, 0 in the model)
                if not r:
                    rows[i] = [rng.choice([j for j in range(N) if j != i])]
            nl.append(rows)
    c["nl"] = nl
    return c


def gen_lattice(rng):
    kind = rng.choice(["square", "triangular", "honeycomb"])
    nx, ny = rng.choice([3, 3, 4, 5]), rng.choice([3, 3, 4, 5])   # 4 puts pair distances of spatial_corr on rint ties (skipped there)
    if kind == "honeycomb":
        nx, ny = rng.choice([3, 3, 3, 4]), rng.choice([3, 3, 3, 4])
    a = F(rng.choice(["1", "1.5", "1.12", "0.9"]))
    if kind == "square":
        a1, a2 = (a, F(0)), (F(0), a)
        basis = [(F(0), F(0))]
        shell = {0: [(0, 1, 0), (0, -1, 0), (0, 0, 1), (0, 0, -1)]}
        lat_l = 4
    elif kind == "triangular":
        a1, a2 = (a, F(0)), (a / 2, a * F(S3H))
        basis = [(F(0), F(0))]
        shell = {0: [(0, 1, 0), (0, -1, 0), (0, 0, 1), (0, 0, -1), (0, 1, -1), (0, -1, 1)]}
        lat_l = 6
    else:
        a1, a2 = (a, F(0)), (a / 2, a * F(S3H))
        basis = [(F(0), F(0)), (a / 2, a * F(S36))]
        # A → B at δ1, δ1−a1, δ1−a2 ; B → A at −δ1, a1−δ1, a2−δ1
        shell = {0: [(1, 0, 0), (1, -1, 0), (1, 0, -1)], 1: [(0, 0, 0), (0, 1, 0), (0, 0, 1)]}
        lat_l = 3
    ppp = rng.choice([["1", "1"], ["1", "1"], ["0", "0"]])
    H = [a1[0] * nx, a1[1] * nx, a2[0] * ny, a2[1] * ny]
    idx = {}
    P = []
    for ix in range(nx):
        for iy in range(ny):
            for b, (bx, by) in enumerate(basis):
                idx[(b, ix, iy)] = len(P)
                P.append((ix * a1[0] + iy * a2[0] + bx, ix * a1[1] + iy * a2[1] + by))
    rows = [None] * len(P)
    for (b, ix, iy), i in idx.items():
        r = []
        for (b2, dx, dy) in shell[b]:
            jx, jy = ix + dx, iy + dy
            if ppp[0] == "1":
                jx %= nx
                jy %= ny
            if (b2, jx, jy) in idx:
                r.append(idx[(b2, jx, jy)])
        rows[i] = r
    if any(not r for r in rows):
        return gen_lattice(rng)
    if rng.random() < 0.5:   # a neighbour definition may list only some of the bonds
        rows = [rng.sample(r, rng.randint(1, len(r))) for r in rows]
    off = (F(dec(rng, -2, 2, 2)), F(dec(rng, -2, 2, 2)))
    pos = [[fdec(x + off[0]), fdec(y + off[1])] for x, y in P]
    T = rng.choice([1, 1, 3])
    mult = rng.choice([1, 1, 1, 2, 3, 4])
    l = lat_l * mult if lat_l * mult <= 12 else lat_l
    if rng.random() < 0.15:
        l = rng.randint(1, 12)
    Lx, Ly = fdec(a * nx), fdec(abs(a2[1]) * ny)
    c = {"kind": kind, "cell": "orth" if kind == "square" else "tri", "H": [fdec(h) for h in H], "box": [Lx, Ly], "ppp": ppp,
         "N": len(P), "T": T, "l": l, "lat_l": lat_l, "pos": [pos] * T, "nl": [rows] * T, "nmode": "shell"}
    return c


def add_common(rng, c):
    N, T = c["N"], c["T"]
    wk = rng.choice(["none", "none", "pos", "signed", "signed"])
    c["wkind"] = wk
    if wk == "none":
        c["w"] = None
    else:
        lo = 0.05 if wk == "pos" else -3
        c["w"] = [[[dec(rng, lo, 3, 2) for _ in row] for row in c["nl"][t]] for t in range(T)]
        if wk == "signed":      # make sure a sign change is present and Σ|w| ≠ 0
            for t in range(T):
                for row in c["w"][t]:
                    if all(F(x) == 0 for x in row):
                        row[0] = "-0.5"
        if rng.random() < 0.3:
            # bond weights in another unit (× 10^k): only their ratios enter ψ
            k = rng.choice([-9, -6, 5])
            c["w"] = [[[x if F(x) == 0 else f"{x}e{k}" for x in row] for row in fr] for fr in c["w"]]
            c["wunit"] = k
    maxcn = max(len(r) for t in range(T) for r in c["nl"][t])
    c["Nmax"] = rng.choice([10, 10, maxcn, max(1, maxcn - 1), 30])
    d = rng.choice([100, 500, 2000])
    if T >= 3 and rng.random() < 0.25:
        c["steps"] = [0] + [d * 2 ** k for k in range(T - 1)]          # log dump
        if len(set(np.diff(c["steps"]))) == 1:
            c["steps"] = [0, d, 3 * d] + [d * 2 ** k for k in range(2, T - 1)]
    elif T >= 4 and rng.random() < 0.3:
        # an uneven dump whose first and last intervals coincide (a run continued after a gap, two bursts): still unevenly spaced,
        # so the first frame is the only time origin
        c["steps"] = [d * k for k in range(T - 2)] + [d * (T + 2), d * (T + 3)]
    else:
        s0 = rng.choice([0, 1000])
        c["steps"] = [s0 + d * k for k in range(T)]
    c["dt"] = rng.choice(["0.002", "0.005", "0.001"])
    if T >= 2:
        W = rng.randint(1, T - 1)
        dstep = c["steps"][1] - c["steps"][0]
        c["period"] = fdec((W + F(rng.choice(["0.5", "0.25", "0.75", "0.1", "0", "0"]))) * dstep * F(c["dt"]))
        traps = [x for x in _traps() if x[0] <= T - 1]
        if traps and len(set(np.diff(c["steps"]))) == 1 and rng.random() < 0.3:
            # an exact multiple whose float64 quotient period/(Δstep·dt) falls just below the integer (0.3/0.1 = 2.999…96)
            W, d, dt = rng.choice(traps)
            c["steps"] = [c["steps"][0] + d * k for k in range(T)]
            c["dt"] = dt
            c["period"] = fdec(W * d * F(dt))
    c["rdelta"] = rng.choice(["0.13", "0.31", "0.17"] if c["lat_l"] else ["0.07", "0.13", "0.2", "0.31", "0.053"])
    return c


def rotate(c, cs):
    """exactly rotated copy: r' = r·R, H' = H·R with R = [[c, s], [−s, c]] (rotation by +α)"""
    co, si = cs
    r = dict(c)

    def rot(x, y):
        x, y = F(x), F(y)
        return [fdec(x * co - y * si), fdec(x * si + y * co)]
    r["pos"] = [[rot(x, y) for x, y in fr_] for fr_ in c["pos"]]
    h = c["H"]
    r["H"] = rot(h[0], h[1]) + rot(h[2], h[3])
    if c.get("Hs"):
        r["Hs"] = [rot(g[0], g[1]) + rot(g[2], g[3]) for g in c["Hs"]]
    r["cell"] = "rot"
    r["rot"] = [str(co), str(si)]
    return r


def gen_case(rng):
    c = gen_lattice(rng) if rng.random() < 0.35 else gen_random(rng)
    return add_common(rng, c)


# ----------------------------------------------------------------------------- real code

def truncated(c, t):
    """neighbour / weight rows as read_neighbors returns them (first Nmax entries)"""
    nm = c["Nmax"]
    nl = [row[:nm] for row in c["nl"][t]]
    w = [row[:nm] for row in c["w"][t]] if c["w"] else None
    return nl, w


def write_files(c, tmp):
    nf = os.path.join(tmp, "n.neighbor.dat")
    with open(nf, "w") as f:
        for t in range(c["T"]):
            f.write("id     cn     neighborlist\n")
            for i in common.row_order(c["nl"][t], "n"):
                row = c["nl"][t][i]
                f.write(f"{i + 1}     {len(row)}     " + " ".join(str(j + 1) for j in row) + "\n")
    wf = ""
    if c["w"]:
        wf = os.path.join(tmp, "n.weights.dat")
        with open(wf, "w") as f:
            for t in range(c["T"]):
                f.write("id     cn     weights\n")
                for i in common.row_order(c["w"][t], "w"):
                    row = c["w"][t][i]
                    f.write(f"{i + 1}     {len(row)}     " + " ".join(row) + "\n")
    return nf, wf


def make_snapshots(c):
    from PyMatterSim.reader.reader_utils import SingleSnapshot, Snapshots
    snaps = []
    box = np.array([float(x) for x in c["box"]])
    for t in range(c["T"]):
        h = Hof(c, t)
        H = np.array([[float(h[0]), float(h[1])], [float(h[2]), float(h[3])]])
        pos = np.array([[float(x), float(y)] for x, y in c["pos"][t]])
        snaps.append(SingleSnapshot(timestep=c["steps"][t], nparticle=c["N"], particle_type=np.ones(c["N"], dtype=int),
                                    positions=pos, boxlength=box.copy(),
                                    boxbounds=np.array([[0, box[0]], [0, box[1]]]), realbounds=None, hmatrix=H.copy()))
    return Snapshots(nsnapshots=c["T"], snapshots=snaps)


def real_run(c, full=True):
    """run the real boo_2d; returns dict of observables (exceptions are returned as strings under 'error:<what>')"""
    from PyMatterSim.static.boo import boo_2d
    tmp = tempfile.mkdtemp(prefix="c10_")
    out = {}
    try:
        nf, wf = write_files(c, tmp)
        snaps = make_snapshots(c)
        with warnings.catch_warnings():
            warnings.simplefilter("ignore")
            b = boo_2d(snaps, l=c["l"], neighborfile=nf, weightsfile=wf, ppp=np.array([int(x) for x in c["ppp"]]), Nmax=c["Nmax"])
            out["phi"] = np.array(b.ParticlePhi)
            if not full:
                return out
            T = c["T"]
            if T >= 2 and "period" in c:
                for mode in (1, 0):
                    try:
                        q, ids = b.time_average(time_period=float(c["period"]), dt=float(c["dt"]), average_complex=bool(mode))
                        out[f"tavg{mode}"] = (np.array(q), np.array(ids))
                    except Exception as e:
                        out[f"error:tavg{mode}"] = f"{type(e).__name__}: {e}"
            if T >= 2:
                try:
                    df = b.time_corr(dt=float(c["dt"]))
                    out["tcorr"] = (df["t"].values.copy(), df["time_corr"].values.copy())
                except Exception as e:
                    out["error:tcorr"] = f"{type(e).__name__}: {e}"
            try:
                df = b.spatial_corr(rdelta=float(c["rdelta"]))
                out["scorr"] = (df["r"].values.copy(), df["gr"].values.copy(), df["gA"].values.copy())
            except Exception as e:
                out["error:scorr"] = f"{type(e).__name__}: {e}"
            if not np.array_equal(np.array(b.ParticlePhi), out["phi"]):
                out["error:mutated"] = "ParticlePhi changed by time_average/time_corr/spatial_corr"
            for t in range(T):
                if not np.array_equal(snaps.snapshots[t].positions, np.array([[float(x), float(y)] for x, y in c["pos"][t]])):
                    out["error:mutated-input"] = f"snapshot {t}: positions changed by boo_2d"
    except Exception as e:
        out["error:lthorder"] = f"{type(e).__name__}: {e}"
    finally:
        shutil.rmtree(tmp, ignore_errors=True)
    return out


# ----------------------------------------------------------------------------- driver ops

def cbits(z):
    return float2bits(z.real) + " " + float2bits(z.imag)


def op_phi(c, t):
    nl, w = truncated(c, t)
    rows = []
    for i in range(c["N"]):
        r = [str(len(nl[i]))] + [str(j) for j in nl[i]]
        if w:
            r += w[i]
        rows.append(" ".join(r))
    return "boo2d {} {} {} {} {} {} {}".format(c["l"], 1 if w else 0, c["N"], " ".join(Hof(c, t)), " ".join(c["ppp"]),
                                                " ".join(x for p in c["pos"][t] for x in p), " ".join(rows))


def op_tavg(c, mode, phi):
    dstep = c["steps"][1] - c["steps"][0]
    return "boo2d_tavg {} {} {} {} {} {} {}".format(mode, c["T"], c["N"], c["period"], c["dt"], dstep,
                                                    " ".join(cbits(z) for z in phi.reshape(-1)))


def op_tcorr(c, phi):
    return "boo2d_tcorr {} {} {} {}".format(c["T"], c["N"], " ".join(str(s) for s in c["steps"]),
                                            " ".join(cbits(z) for z in phi.reshape(-1)))


def op_scorr(c, phi):
    return "boo2d_scorr {} {} {} {} {} {} {} {}".format(
        c["T"], c["N"], c["rdelta"], " ".join(c["box"]), " ".join(c["H"]), " ".join(c["ppp"]),
        " ".join(x for t in range(c["T"]) for p in c["pos"][t] for x in p), " ".join(cbits(z) for z in phi.reshape(-1)))


def parse_c(toks):
    v = [bits2float(t) for t in toks]
    return np.array([complex(v[2 * k], v[2 * k + 1]) for k in range(len(v) // 2)])


MARGIN = F(1, 10 ** 6)


def cclose(a, b, tol=1e-9):
    a, b = complex(a), complex(b)
    if (a != a) and (b != b):
        return True
    return abs(a - b) <= tol * max(1.0, abs(a), abs(b))


def arr_close(a, b, tol=1e-9):
    a, b = np.asarray(a), np.asarray(b)
    if a.shape != b.shape:
        return False
    return all(cclose(x, y, tol) for x, y in zip(a.reshape(-1), b.reshape(-1)))


# ----------------------------------------------------------------------------- Spec oracle (independent brute force)

def spec_phi(c, t):
    """ψ_i = Σ_m (w_m/Σ|w|) (z_m/|z_m|)^l or mean_m (z_m/|z_m|)^l over the minimum-image bonds; exact geometry.
    returns (values, margin, crosses, zero_bond)"""
    h = Hof(c, t)
    H = [[F(h[0]), F(h[1])], [F(h[2]), F(h[3])]]
    ppp = [int(x) for x in c["ppp"]]
    P = [[F(x), F(y)] for x, y in c["pos"][t]]
    nl, w = truncated(c, t)
    vals = []
    margin = F(1)
    crosses = False
    zero = False
    for i in range(c["N"]):
        es = []
        for j in nl[i]:
            d = [P[j][0] - P[i][0], P[j][1] - P[i][1]]
            b, mg = _min_image(H, ppp, d)
            margin = min(margin, mg)
            if b != d:
                crosses = True
            if b[0] == 0 and b[1] == 0:
                zero = True
                es.append(1 + 0j)
                continue
            z = complex(float(b[0]), float(b[1]))
            u = z / abs(z)
            es.append(u ** c["l"])
        if not es:
            vals.append(complex("nan"))
            margin = F(0)
            continue
        if w:
            ws = [F(x) for x in w[i]]
            s = sum(abs(x) for x in ws)
            if s == 0:
                vals.append(complex("nan"))
                margin = F(0)
                continue
            vals.append(sum(float(x / s) * e for x, e in zip(ws, es)))
        else:
            vals.append(sum(es) / len(es))
    return np.array(vals), margin, crosses, zero


def spec_window(c):
    dstep = c["steps"][1] - c["steps"][0]
    q = F(c["period"]) / (dstep * F(c["dt"]))
    W = math.floor(q)
    if q == W:
        return W, F(1)       # exact multiple of the frame interval: decided
    return W, min(q - W, W + 1 - q)


def spec_tavg(c, mode, phi):
    W, mg = spec_window(c)
    T = c["T"]
    if W < 1 or W >= T:
        return None, F(0), W
    out = []
    for n in range(T - W):
        win = phi[n:n + W]
        if mode == 1:
            out.append(win.sum(axis=0) / W)
        else:
            out.append((np.abs(win).sum(axis=0) / W) * np.exp(1j * (np.angle(win).sum(axis=0) / W)))
    if mode == 0:
        neg = phi[(phi.real <= 0)]
        if neg.size:
            cut = float(np.abs(neg.imag).min())
            if cut < 1e-6:
                mg = F(0)
    return np.array(out), mg, W


def spec_tcorr(c, phi):
    T = c["T"]
    linear = len(set(np.diff(c["steps"]))) == 1
    if linear:
        raw = [np.mean([(phi[n] * np.conj(phi[n - k])).sum().real for n in range(k, T)]) for k in range(T)]
    else:
        raw = [(phi[k] * np.conj(phi[0])).sum().real for k in range(T)]
    return np.array(raw) / raw[0]


def spec_scorr(c, phi):
    """g_A(r) = 1/(N ρ) < Σ_{i≠j} δ(r − r_ij) Re(A_i conj A_j) > (docs/gr.md), bins [bδ,(b+1)δ), averaged over frames"""
    H = [[F(c["H"][0]), F(c["H"][1])], [F(c["H"][2]), F(c["H"][3])]]
    ppp = [int(x) for x in c["ppp"]]
    rd = F(c["rdelta"])
    Lx, Ly = F(c["box"][0]), F(c["box"][1])
    q = min(Lx, Ly) / 2 / rd
    maxbin = math.floor(q)
    margin = min(q - maxbin, maxbin + 1 - q)
    N, T = c["N"], c["T"]
    gr = np.zeros(maxbin)
    gA = np.zeros(maxbin)
    edges2 = [(b * rd) ** 2 for b in range(maxbin + 1)]
    for t in range(T):
        h = Hof(c, t)
        H = [[F(h[0]), F(h[1])], [F(h[2]), F(h[3])]]
        P = [[F(x), F(y)] for x, y in c["pos"][t]]
        for i in range(N):
            for j in range(N):
                if i == j:
                    continue
                b, mg = _min_image(H, ppp, [P[j][0] - P[i][0], P[j][1] - P[i][1]])
                margin = min(margin, mg)
                d2 = b[0] ** 2 + b[1] ** 2
                margin = min(margin, abs(d2 - edges2[-1]))
                if d2 > edges2[-1]:
                    continue
                k = next((k for k in range(maxbin) if edges2[k] <= d2 < edges2[k + 1]), maxbin - 1)
                margin = min(margin, abs(d2 - edges2[k]), abs(d2 - edges2[k + 1]))
                gr[k] += 1
                gA[k] += (phi[t][i] * np.conj(phi[t][j])).real
    rdf = float(rd)
    r = np.array([(b + 1) * rdf - 0.5 * rdf for b in range(maxbin)])
    shell = np.array([math.pi * (float(edges2[b + 1]) - float(edges2[b])) for b in range(maxbin)])
    rho = N / float(Lx * Ly)
    return r, gr / T / N / rho / shell, gA / T / N / rho / shell, margin


# ----------------------------------------------------------------------------- judging

def classify(c):
    return f"{c['kind']}:{c['cell']}:ppp{''.join(c['ppp'])}:{c['nmode']}:w={c['wkind']}:T{min(c['T'], 3)}"


def judge_real_vs_spec(c, real=None):
    """REAL code vs the property statement (Spec oracle + monitors).  Returns list of (observable, reason)."""
    fails = []
    if real is None:
        real = real_run(c)
    for k, v in real.items():
        if k.startswith("error:"):
            fails.append((k[6:], f"real code raised/failed: {v}"))
    if "phi" not in real:
        return fails
    phi = real["phi"]
    ok_phi = True
    zero_any = False
    for t in range(c["T"]):
        sp, mg, _, zero = spec_phi(c, t)
        zero_any |= zero
        if mg < MARGIN:
            ok_phi = False
            continue
        if not arr_close(phi[t], sp):
            k = next(i for i in range(c["N"]) if not cclose(phi[t][i], sp[i]))
            fails.append(("lthorder", f"frame {t} particle {k}: ParticlePhi={phi[t][k]!r} but the definition gives {sp[k]!r}"))
            break
        if np.any(np.abs(phi[t]) > 1 + 1e-9):
            fails.append(("modulus", f"frame {t}: |ψ| = {np.abs(phi[t]).max()!r} > 1"))
            break
        if c["lat_l"] and c["l"] % c["lat_l"] == 0 and c["wkind"] != "signed":
            if np.any(np.abs(np.abs(phi[t]) - 1) > 1e-9):
                k = int(np.argmax(np.abs(np.abs(phi[t]) - 1)))
                fails.append(("lattice", f"perfect {c['kind']} lattice, l={c['l']}: |ψ_{k}| = {abs(phi[t][k])!r} ≠ 1"))
                break
    if "tavg1" in real or "tavg0" in real:
        for mode in (1, 0):
            if f"tavg{mode}" not in real:
                continue
            sp, mg, W = spec_tavg(c, mode, phi)
            if sp is None or mg < MARGIN:
                continue
            q, ids = real[f"tavg{mode}"]
            if not arr_close(q, sp, 1e-9 if mode == 1 else 1e-7):
                fails.append((f"time_average:{'complex' if mode else 'separate'}",
                              f"window W={W}: returned {q.reshape(-1)[:3]!r}… but the documented average is {sp.reshape(-1)[:3]!r}…"))
            elif W % 2 == 0 and list(ids) != [n + W // 2 for n in range(c["T"] - W)]:
                fails.append(("time_average:ids", f"W={W}: middle ids {list(ids)}"))
    if "tcorr" in real:
        tt, cc = real["tcorr"]
        sp = spec_tcorr(c, phi)
        texp = (np.array(c["steps"]) - c["steps"][0]) * float(c["dt"])
        if float((np.abs(phi[0]) ** 2).sum()) < 1e-6:
            pass        # 0/0: not judged
        elif not arr_close(cc, sp):
            fails.append(("time_corr", f"time_corr={cc!r} but the definition gives {sp!r}"))
        elif not arr_close(tt, texp):
            fails.append(("time_corr:t", f"t={tt!r} expected {texp!r}"))
    if "scorr" in real:
        r, g, a = real["scorr"]
        sr, sg, sa, mg = spec_scorr(c, phi)
        if mg >= MARGIN:
            if len(r) != len(sr):
                fails.append(("spatial_corr:gr", f"rdelta={c['rdelta']}: {len(r)} bins returned, int(min(L)/2/rdelta) = {len(sr)}"))
            elif not (arr_close(r, sr) and arr_close(g, sg)):
                k = next(i for i in range(len(r)) if not (cclose(r[i], sr[i]) and cclose(g[i], sg[i])))
                fails.append(("spatial_corr:gr", f"rdelta={c['rdelta']} bin {k}: (r, gr)=({r[k]!r}, {g[k]!r}) but the definition gives ({sr[k]!r}, {sg[k]!r})"))
            elif not arr_close(a, sa):
                k = next(i for i in range(len(a)) if not cclose(a[i], sa[i]))
                fails.append(("spatial_corr:gA", f"rdelta={c['rdelta']} bin {k}: gA={a[k]!r} but the definition gives {sa[k]!r}"))
    if "rot" in c and "base" in c and ok_phi and not zero_any:
        base = real_run(c["base"], full=False)
        okb = all(spec_phi(c["base"], t)[1] >= MARGIN for t in range(c["T"]))
        if "phi" in base and okb:
            co, si = F(c["rot"][0]), F(c["rot"][1])
            fac = complex(float(co), float(si)) ** c["l"]
            if not arr_close(phi, fac * base["phi"]):
                fails.append(("rotation", f"rotating by cos={co}, sin={si}: ψ' ≠ e^(i l α) ψ; first {phi.reshape(-1)[0]!r} vs {(fac * base['phi']).reshape(-1)[0]!r}"))
    return fails


def run_cases(run, cases, count=True):
    """correspondence real ~ model (driver).  returns disagreements [(case, observable, reason)], monitor failures"""
    reals = []
    lines = []
    index = []   # (case idx, what, extra)
    for ci, c in enumerate(cases):
        real = real_run(c)
        reals.append(real)
        for t in range(c["T"]):
            lines.append(op_phi(c, t)); index.append((ci, "phi", t))
        if "phi" in real and not np.isnan(real["phi"]).any():
            phi = real["phi"]
            for mode in (1, 0):
                if f"tavg{mode}" in real:
                    lines.append(op_tavg(c, mode, phi)); index.append((ci, "tavg", mode))
            if "tcorr" in real:
                lines.append(op_tcorr(c, phi)); index.append((ci, "tcorr", None))
            if "scorr" in real and not c.get("Hs"):      # (the driver op takes one cell; sheared cases are judged by the Spec)
                lines.append(op_scorr(c, phi)); index.append((ci, "scorr", None))
    outs = common.drive(lines)
    dis, mon = [], []
    skipped = 0
    seen_bad = set()
    for (ci, what, extra), line, o in zip(index, lines, outs):
        c, real = cases[ci], reals[ci]
        if o == "bad-op":
            raise common.Infra("driver rejected op: " + line[:300])
        toks = o.split()
        if what == "phi":
            margin = fr(toks[0])
            if "phi" not in real:
                continue
            if margin < MARGIN:
                skipped += 1
                run.hist("skipped_inside_margin_by_op", f"phi:{c['kind']}")
                continue
            model = parse_c(toks[1:])
            if not arr_close(real["phi"][extra], model):
                k = next((i for i in range(c["N"]) if not cclose(real["phi"][extra][i], model[i])), 0)
                dis.append((c, "lthorder", f"frame {extra} particle {k}: real {real['phi'][extra][k]!r} vs model {model[k]!r}"))
        elif what == "tavg":
            margin = fr(toks[0]); cut = bits2float(toks[1]); W = int(toks[2])
            qx = F(c["period"]) / ((c["steps"][1] - c["steps"][0]) * F(c["dt"]))
            if qx == W and 1 <= W < c["T"]:
                margin = F(1)      # a period that IS a whole number of frame intervals: the window is exactly W frames (judged, as in C16)
            if margin < MARGIN or (extra == 0 and cut < 1e-6):
                skipped += 1
                run.hist("skipped_inside_margin_by_op", f"tavg{extra}:{c['kind']}")
                continue
            q, ids = real[f"tavg{extra}"]
            nav = c["T"] - W
            mids = [int(x) for x in toks[3:3 + nav]]
            model = parse_c(toks[3 + nav:]).reshape(nav, c["N"]) if nav > 0 else np.zeros((0, c["N"]))
            tol = 1e-9 if extra == 1 else 1e-7
            if q.shape != model.shape or not arr_close(q, model, tol):
                dis.append((c, "time_average", f"mode average_complex={bool(extra)} W={W}: real shape {q.shape} {q.reshape(-1)[:2]!r} vs model {model.reshape(-1)[:2]!r}"))
            elif W % 2 == 0 and list(ids) != mids:
                dis.append((c, "time_average", f"W={W}: middle ids {list(ids)} vs model {mids}"))
        elif what == "tcorr":
            if bits2float(toks[1]) < 1e-6:      # results /= results[0] with ψ ≈ 0 everywhere (e.g. l not matching a lattice): noise/noise
                skipped += 1
                run.hist("skipped_inside_margin_by_op", f"tcorr:{c['kind']}")
                continue
            model = np.array([bits2float(t) for t in toks[2:]])
            if not arr_close(real["tcorr"][1], model):
                dis.append((c, "time_corr", f"real {real['tcorr'][1]!r} vs model {model!r}"))
        elif what == "scorr":
            margin = fr(toks[0]); maxbin = int(toks[1])
            if margin < MARGIN:
                skipped += 1
                run.hist("skipped_inside_margin_by_op", f"scorr:{c['kind']}")
                continue
            v = np.array([bits2float(t) for t in toks[2:]]).reshape(-1, 3)
            r, g, a = real["scorr"]
            if len(r) != maxbin or not (arr_close(r, v[:, 0]) and arr_close(g, v[:, 1]) and arr_close(a, v[:, 2])):
                dis.append((c, "spatial_corr", f"rdelta={c['rdelta']} maxbin real {len(r)} model {maxbin}; gA real {a[:3]!r} model {v[:3, 2]!r}"))
    for ci, c in enumerate(cases):
        real = reals[ci]
        fails = judge_real_vs_spec(c, real)
        for obs, why in fails:
            mon.append((c, obs, why))
        if count:
            _, _, crosses, _ = spec_phi(c, 0) if "phi" in real else (None, None, False, None)
            nontrivial = bool(crosses or c["wkind"] == "signed" or c["cell"] != "orth")
            run.count(op_phi(c, 0), nontrivial,
                      sample={"class": classify(c), "l": c["l"], "N": c["N"], "T": c["T"],
                              "phi0": repr(real["phi"][0][0]) if "phi" in real else None})
            run.hist("kind", c["kind"]); run.hist("cell", c["cell"]); run.hist("mask", "".join(c["ppp"]))
            run.hist("weights", c["wkind"]); run.hist("l", c["l"]); run.hist("frames", c["T"]); run.hist("neighbours", c["nmode"])
            run.hist("dump", "linear" if len(set(np.diff(c["steps"]))) <= 1 else "log")
            run.hist("Nmax_truncates", any(len(r) > c["Nmax"] for t in range(c["T"]) for r in c["nl"][t]))
    run.coverage["skipped_inside_margin"] = run.coverage.get("skipped_inside_margin", 0) + skipped
    run.coverage["driver_ops"] = run.coverage.get("driver_ops", 0) + len(lines)
    return dis, mon


def trap_cases(rng, k):
    """k cases whose averaging window is an exact multiple W of the frame interval while the float64 quotient period / interval falls
    just below W — drawn on purpose: whether the random stream happens to contain one must not decide what the check can see"""
    out, tries = [], 0
    while len(out) < k and tries < 400:
        tries += 1
        c = gen_case(rng)
        traps = [x for x in _traps() if x[0] <= c["T"] - 1]
        if not traps or c["T"] < 2:
            continue
        W, d, dt = rng.choice(traps)
        c["steps"] = [c["steps"][0] + d * i for i in range(c["T"])]
        c["dt"] = dt
        c["period"] = fdec(W * d * F(dt))
        out.append(c)
    return out


def gen_cases(rng, n):
    cases = trap_cases(rng, 4)
    while len(cases) < n:
        c = gen_case(rng)
        cases.append(c)
        # exactly rotated twin: open boundaries rotate positions only; periodic ones rotate the cell as well
        r = rotate(c, rng.choice(PYTH))
        r["base"] = c
        cases.append(r)
    return cases[:n]


def strip(c):
    c = dict(c)
    if "base" in c:
        c["base"] = strip(c["base"])
    return c


def correspond(run):
    n = 120 if run.tier == "quick" else 2400
    cases = [c for c in common.load_corpus(PROP)] + gen_cases(run.rng, n)
    dis, mon = run_cases(run, cases)
    run.coverage["traces_validated_against_impl"] = run.coverage["evaluations"]
    broken = []
    if dis:
        by = {}
        for c, obs, why in dis:
            by.setdefault(obs, []).append((c, why))
        for obs, lst in by.items():
            broken.append({"kind": "correspondence", "name": f"Pms.Boo2d~boo_2d.{obs}",
                           "detail": f"{len(lst)} cases disagree; first: {lst[0][1][:300]}",
                           "cases": [strip(c) for c, _ in lst[:20]]})
    if mon:
        broken.append({"kind": "monitor", "name": "C10 property monitors on real output",
                       "detail": f"{len(mon)} failures; first: {mon[0][1]}: {mon[0][2][:300]}",
                       "cases": [strip(c) for c, _, _ in mon[:20]]})
    return broken


# ----------------------------------------------------------------------------- search / shrink / replay

def failing(c):
    fails = judge_real_vs_spec(c)
    return fails[0] if fails else None


def shrink(c):
    """fewer frames → fewer particles (neighbour rows re-indexed) while the same observable still fails"""
    first = failing(c)
    if not first:
        return c, None
    obs = first[0]

    def still(x):
        f = failing(x)
        return f if f and f[0] == obs else None
    best, why = c, first
    if "base" in best and obs != "rotation":
        x = dict(best); x.pop("base"); x.pop("rot", None)
        f = still(x)
        if f:
            best, why = x, f
    for T in (1, 2, 3):
        if T < best["T"]:
            x = dict(best, T=T, pos=best["pos"][:T], nl=best["nl"][:T], w=best["w"][:T] if best["w"] else None,
                     steps=best["steps"][:T])
            if "base" in x:
                b = x["base"]
                x["base"] = dict(b, T=T, pos=b["pos"][:T], nl=b["nl"][:T], w=b["w"][:T] if b["w"] else None, steps=b["steps"][:T])
            if T >= 2 and "period" in x:
                x["period"] = fdec(F(3, 2) * (x["steps"][1] - x["steps"][0]) * F(x["dt"])) if T >= 3 else x["period"]
            f = still(x)
            if f:
                best, why = x, f
                break
    changed = True
    while changed and best["N"] > 2:
        changed = False
        for drop in range(best["N"]):
            def cut(cc):
                keep = [i for i in range(cc["N"]) if i != drop]
                ren = {old: new for new, old in enumerate(keep)}
                nl, w = [], [] if cc["w"] else None
                for t in range(cc["T"]):
                    rows, wrows = [], []
                    for i in keep:
                        pairs = [(ren[j], (cc["w"][t][i][m] if cc["w"] else None)) for m, j in enumerate(cc["nl"][t][i]) if j != drop]
                        if not pairs:
                            return None
                        rows.append([p[0] for p in pairs]); wrows.append([p[1] for p in pairs])
                    nl.append(rows)
                    if cc["w"]:
                        w.append(wrows)
                return dict(cc, N=cc["N"] - 1, pos=[[cc["pos"][t][i] for i in keep] for t in range(cc["T"])], nl=nl, w=w)
            x = cut(best)
            if x is None:
                continue
            if "base" in best:
                xb = cut(best["base"])
                if xb is None:
                    continue
                x["base"] = xb
            f = still(x)
            if f:
                best, why, changed = x, f, True
                break
    return best, why


def search(run, broken):
    unexplained = []
    tried = 0
    budget = 400 if run.tier == "quick" else 3000
    for b in broken:
        found = False
        pool = [c for c in b.get("cases", [])]
        extra = gen_cases(run.rng, budget)
        for c in pool + extra:
            tried += 1
            f = failing(c)
            if f:
                c2, f2 = shrink(c)
                f2 = f2 or f
                run.violation(f"C10:{f2[0]}", f2[1], {"case": strip(c2), "broken": b["name"], "class": classify(c2)})
                found = True
                break
            if tried > budget:
                break
        if not found:
            unexplained.append(b)
    run.coverage["search_cases"] = tried
    return unexplained


def replay(run, rp):
    if "case" in rp:
        return bool(failing(rp["case"]))
    dis, mon = run_cases(run, rp.get("cases", []), count=False)
    return bool(dis or mon)


if __name__ == "__main__":
    import sys
    sys.exit(common.main(sys.modules[__name__], sys.argv[1:]))
