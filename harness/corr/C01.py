"""C01 — LAMMPS dump reading.

Tie: differential correspondence between the real reader (`DumpReader(..., LAMMPS).read_onefile()` /
`read_lammps_wrapper`) and `Pms.Lammps.Impl.readAll` (exact ℚ) on the SAME text.  The text is rendered from the token
lines produced by the Lean emitter `Spec.emit` (the emitter of theorem `C01_roundtrip`); on every case the text is
re-tokenised with Python's own `str.split/int/float` and checked token-for-token against the emitter output.
Failing-input search: real reader vs `Spec.expected` (never vs Impl)."""
import logging
import os
import random
import shutil
import tempfile
from fractions import Fraction

import numpy as np

import common
from common import dec

logging.disable(logging.INFO)      # the reader logs every file at INFO

PROP = "C01"
PROPS_FILES = ["Pms/Props/C01.lean"]
GENERATORS = []
RULE = ("seeded trajectories over ndim∈{2,3} × {orthogonal, triclinic with tilts of either sign} × style {x,xs,xu} × "
        "1..4 frames × 0..12 atoms with shuffled ids × 0..3 extra columns (numbers, integers, words; a z column in 2-D) × "
        "arbitrary origins × number rendering {plain, zero-padded, scientific; integer-looking or not} × whitespace "
        "variants; plus the repo's five sample dumps, re-derived as frame descriptions and required to be reproduced "
        "token-for-token by the Lean emitter.  A case is non-trivial when it has ≥ 2 atoms whose lines are not in id "
        "order, or ≥ 2 frames; distinct = distinct file texts")
TRUSTED_BASE = [
    "Lean 4.33 kernel; axioms propext, Classical.choice, Quot.sound only",
    "str.split(), int(), float() and decimal→double rounding are primitives: a file is modelled as lines of tokens "
    "classified int / float-only / word (harness tokeniser = Python's own int()/float()); inf/nan tokens are outside the model",
    "numpy array assignment/broadcasting/np.where/np.diag/np.vstack/min/max modelled by their documented contracts in "
    "Pms/Model/Lammps.lean (hand-written Impl), tied to lammps_reader_helper.py only by this differential correspondence",
    "float64 arithmetic ≈ ℝ: compared at 1e-9 relative; the only float-dependent decision (second np.where on x+L vs hi) "
    "is guarded by a margin computed in the model (lo − x ≥ 1e-6 for every coordinate that is moved up)",
    "Spec.emit/Spec.expected (hand-written from the LAMMPS dump/triclinic documentation) are the meaning of "
    "'what the file encodes'; ndim ∈ {2,3}; frames of one file share ndim; error behaviour on malformed files is "
    "modelled but only reported as coverage, never as a violation",
]

STYLES = ["x", "xs", "xu"]
CNAMES = {"x": ["x", "y", "z"], "xs": ["xs", "ys", "zs"], "xu": ["xu", "yu", "zu"]}
SAMPLES = [("tests/sample_test_data/dump_3D.atom", 3), ("tests/sample_test_data/dump_3D_wrapped.atom", 3),
           ("tests/sample_test_data/2d_triclinic.atom", 2), ("tests/sample_test_data/test_xu.dump", 3),
           ("tests/sample_test_data/dump_2D.atom", 2)]
FIELDS = ["timestep", "nparticle", "particle_type", "positions", "boxlength", "boxbounds", "realbounds", "hmatrix"]
GUARD = Fraction(1, 10 ** 6)


# ----------------------------------------------------------------------------- tokens

def classify(tok):
    """what Python itself accepts the token as"""
    try:
        return ("i", int(tok))
    except ValueError:
        pass
    try:
        x = float(tok)
    except ValueError:
        return ("w", tok)
    if x != x or x in (float("inf"), float("-inf")):
        return ("w", tok)
    try:
        return ("n", Fraction(tok.replace("_", "")))
    except ValueError:
        return ("w", tok)


def wire(tok):
    k, v = tok
    if k == "i":
        return f"i{v}"
    if k == "n":
        return f"n{v.numerator}/{v.denominator}"
    return "w" + v


def unwire(s):
    if s[0] == "i":
        return ("i", int(s[1:]))
    if s[0] == "n":
        return ("n", Fraction(s[1:]))
    return ("w", s[1:])


def tokenise(text):
    """lines of classified tokens, exactly as f.readline().split() sees them"""
    lines = text.split("\n")
    if lines and lines[-1] == "":
        lines.pop()
    return [[classify(t) for t in ln.split()] for ln in lines]


def wire_lines(lines):
    return " ".join(" ".join([wire(t) for t in ln] + ["|"]) for ln in lines)


def parse_wire_lines(s):
    out, cur = [], []
    for t in s.split():
        if t == "|":
            out.append(cur)
            cur = []
        else:
            cur.append(unwire(t))
    return out


def rat2dec(v, mode, rnd):
    """exact rendering of a decimal rational as a float()-only token"""
    v = Fraction(v)
    d = v.denominator
    k = 0
    while d % 10 == 0:
        d //= 10; k += 1
    a = b = 0
    while d % 2 == 0:
        d //= 2; a += 1
    while d % 5 == 0:
        d //= 5; b += 1
    if d != 1:
        raise common.Infra(f"emitter produced a non-decimal rational {v}")
    k += max(a, b)
    m = v.numerator * 10 ** k // v.denominator
    sign = "-" if m < 0 else ""
    digs = str(abs(m))
    if mode == "sci":
        e = len(digs) - 1 - k
        mant = digs[0] + "." + (digs[1:] if len(digs) > 1 else "0") + "0" * rnd
        return f"{sign}{mant}e{'+' if e >= 0 else '-'}{abs(e):02d}"
    if k == 0:
        return sign + digs + "." + "0" * (1 + rnd)
    digs = digs.rjust(k + 1, "0")
    s = sign + digs[:-k] + "." + digs[-k:]
    if mode == "pad":
        s += "0" * rnd
    return s


def render(lines, fmt):
    """token lines → file text; number format and whitespace chosen by the case's own seed"""
    r = random.Random(fmt)
    mode = r.choice(["plain", "plain", "pad", "sci"])
    trail = r.random() < 0.3
    wide = r.random() < 0.2
    out = []
    for ln in lines:
        toks = []
        for k, v in ln:
            if k == "i":
                toks.append(str(v))
            elif k == "n":
                toks.append(rat2dec(v, mode, r.randint(0, 3)))
            else:
                toks.append(v)
        sep = " " if not wide else r.choice([" ", "  ", "\t", "   "])
        out.append(sep.join(toks) + (" " if trail else "") + "\n")
    return "".join(out)


def tok_agree(em, ft, strict):
    """emitted token vs token of the text fed to the real reader"""
    if em[0] == "w" or ft[0] == "w":
        return em == ft
    if em[1] != ft[1]:
        return False
    if strict:
        return em[0] == ft[0]
    return not (em[0] == "i" and ft[0] != "i")     # an int() position must stay int()-acceptable


def lines_agree(em, ft, strict):
    if len(em) != len(ft):
        return f"{len(em)} emitted lines vs {len(ft)} text lines"
    for i, (a, b) in enumerate(zip(em, ft)):
        if len(a) != len(b) or not all(tok_agree(x, y, strict) for x, y in zip(a, b)):
            return f"line {i}: emitted {a[:8]} vs text {b[:8]}"
    return None


# ----------------------------------------------------------------------------- cases

def fsum(*xs):
    return str_frac(sum(Fraction(x) for x in xs))


def str_frac(v):
    return rat2dec(v, "plain", 0) if v.denominator != 1 else str(v.numerator)


def gen_frame(rng, nd, ts, big=False, force=None):
    tric = rng.random() < 0.5
    style = rng.choice(STYLES)
    if force:
        tric, style = force[0], force[1]
    lo = [dec(rng, -20, 20, rng.choice([1, 3])) for _ in range(3)]
    if rng.random() < 0.15:
        lo = ["0", "0", "0"] if rng.random() < .5 else [lo[0]] * 3
    L = [dec(rng, 2, 12, rng.choice([0, 2, 4])) for _ in range(3)]
    if nd == 2 and rng.random() < 0.7:
        lo[2], L[2] = "-0.5", "1"
    hi = [fsum(a, b) for a, b in zip(lo, L)]
    xy = xz = yz = "0"
    if tric:
        xy = dec(rng, -4, 4, 2)
        if nd == 3 or rng.random() < 0.1:
            xz, yz = dec(rng, -4, 4, 2), dec(rng, -3, 3, 2)
        if rng.random() < 0.1:
            xy = "0"
        if nd == 3 and rng.random() < 0.3:           # only some of the three tilt factors non-zero
            keep = rng.choice([[0], [1], [2], [0, 1], [0, 2], [1, 2]])
            xy, xz, yz = [v if n in keep else "0" for n, v in enumerate((xy, xz, yz))]
    n = rng.choice([0, 1, 1, 2, 2, 3, 3, 4, 5, 6, 8, 12]) if not big else rng.randint(20, 60)
    ids = list(range(1, n + 1))
    if rng.random() < 0.8:
        rng.shuffle(ids)
    nextra = rng.choice([0, 0, 1, 2, 3])
    names = rng.sample(["vx", "vy", "vz", "ix", "iy", "q", "c_order", "fx", "element", "mol", "xsu", "v_x", "X"], nextra)
    if nd == 2 and rng.random() < 0.4:
        names = [CNAMES[style][2]] + names
    if force:
        names = list(force[2])
    atoms = []
    for i in ids:
        c = []
        for k in range(nd):
            if style == "xs":
                c.append(rng.choice(["0", "1", "0.5"]) if rng.random() < 0.1 else dec(rng, -0.2, 1.2, 4))
            elif style == "xu":
                c.append(dec(rng, float(Fraction(lo[k]) - 3 * Fraction(L[k])), float(Fraction(hi[k]) + 3 * Fraction(L[k])), 4))
            else:
                u = rng.random()
                if u < 0.06:
                    c.append(lo[k])
                elif u < 0.12:
                    c.append(hi[k])
                elif u < 0.7 or tric:
                    c.append(dec(rng, float(Fraction(lo[k])), float(Fraction(hi[k])), 4))
                else:   # excursion of at most one box length
                    c.append(dec(rng, float(Fraction(lo[k]) - Fraction(L[k])) + 1e-3, float(Fraction(hi[k]) + Fraction(L[k])) - 1e-3, 4))
        ex = []
        for nm in names:
            u = rng.random()
            if nm == "element":
                ex.append("w" + rng.choice(["Cu", "Zr", "Al"]))
            elif u < 0.3:
                ex.append(f"i{rng.randint(-3, 3)}")
            else:
                ex.append("n" + dec(rng, -9, 9, 3))
        atoms.append({"id": i, "type": rng.randint(1, 4), "c": c, "extras": ex})
    flags = [rng.choice(["pp", "ff", "fs", "sm", "mm", "ps"]) for _ in range(3)] if rng.random() < 0.4 else ["pp", "pp", "pp"]
    if rng.random() < 0.05:
        flags = []
    return {"ts": ts, "tric": tric, "style": style, "lo": lo, "hi": hi, "xy": xy, "xz": xz, "yz": yz,
            "flags": flags, "names": names, "atoms": atoms}


def gen_case(rng, big=False):
    nd = rng.choice([2, 3])
    nf = rng.choice([1, 1, 2, 2, 3, 4])
    ts = rng.choice([0, 0, 100, 26000, 5451182])
    uniform = rng.random() < 0.5     # a realistic trajectory: same cell kind, style and columns in every frame
    frames = []
    for _ in range(nf):
        force = (frames[0]["tric"], frames[0]["style"], frames[0]["names"]) if (uniform and frames) else None
        frames.append(gen_frame(rng, nd, ts, big, force))
        ts += rng.choice([1, 10, 1000, 50000])
    return {"nd": nd, "pr": rng.choice([0, 0, 1]), "frames": frames, "fmt": rng.randint(0, 10 ** 9)}


def spec_op(c):
    nd = c["nd"]
    parts = ["lmpspec", str(nd), str(c["pr"]), str(len(c["frames"]))]
    for f in c["frames"]:
        parts += [str(f["ts"]), "1" if f["tric"] else "0", str(STYLES.index(f["style"]))] + f["lo"] + f["hi"]
        parts += [f["xy"], f["xz"], f["yz"], str(len(f["flags"]))] + f["flags"] + [str(len(f["names"]))] + f["names"]
        parts.append(str(len(f["atoms"])))
        for a in f["atoms"]:
            parts += [str(a["id"]), str(a["type"])] + a["c"][:nd] + [str(len(a["extras"]))] + a["extras"]
    return " ".join(parts)


# ----------------------------------------------------------------------------- results

def parse_result(s):
    t = s.split()
    if not t:
        raise common.Infra("empty driver result")
    if t[0] == "err":
        return ("err", {"value": "ValueError", "index": "IndexError"}[t[1]])
    pos = [2]

    def nxt():
        v = t[pos[0]]; pos[0] += 1
        return v

    def lst(conv):
        n = int(nxt())
        return [conv(nxt()) for _ in range(n)]

    def mat():
        n = int(nxt())
        return [lst(Fraction) for _ in range(n)]

    frames = []
    for _ in range(int(t[1])):
        assert nxt() == "F"
        fr = {"timestep": int(nxt()), "nparticle": int(nxt()), "particle_type": lst(int), "positions": mat(),
              "boxlength": lst(Fraction), "boxbounds": mat()}
        r = nxt()
        rb = mat()
        fr["realbounds"] = rb if r == "R1" else None
        fr["hmatrix"] = mat()
        frames.append(fr)
    return ("ok", frames)


_tmp = [None]


def tmpdir():
    if _tmp[0] is None:
        _tmp[0] = tempfile.mkdtemp(prefix="c01-")
    return _tmp[0]


def cleanup():
    if _tmp[0]:
        shutil.rmtree(_tmp[0], ignore_errors=True)
        _tmp[0] = None


def real_read(text, nd, via_wrapper=False, path=None):
    """the REAL reader on the text; ('ok', frames) or ('err', exception class name)"""
    from PyMatterSim.reader.dump_reader import DumpReader
    from PyMatterSim.reader.lammps_reader_helper import read_lammps_wrapper
    from PyMatterSim.reader.reader_utils import DumpFileType
    if path is None:
        path = os.path.join(tmpdir(), "case.dump")
        with open(path, "w") as f:
            f.write(text)
    try:
        if via_wrapper:
            snaps = read_lammps_wrapper(path, nd)
        else:
            rd = DumpReader(path, ndim=nd, filetype=DumpFileType.LAMMPS)
            rd.read_onefile()
            snaps = rd.snapshots
    except Exception as e:      # noqa: BLE001 — the class is the observation
        return ("err", type(e).__name__, str(e)[:120])
    frames = []
    for s in snaps.snapshots:
        frames.append({"timestep": s.timestep, "nparticle": s.nparticle,
                       "particle_type": np.asarray(s.particle_type).tolist(),
                       "positions": np.asarray(s.positions).tolist(),
                       "boxlength": np.asarray(s.boxlength).tolist(),
                       "boxbounds": np.asarray(s.boxbounds).tolist(),
                       "realbounds": None if s.realbounds is None else np.asarray(s.realbounds).tolist(),
                       "hmatrix": np.asarray(s.hmatrix).tolist()})
    if snaps.nsnapshots != len(frames):
        return ("ok", frames, f"nsnapshots={snaps.nsnapshots} but {len(frames)} snapshots")
    return ("ok", frames, None)


def num_eq(a, b, exact):
    if isinstance(a, list) or isinstance(b, list):
        if not (isinstance(a, list) and isinstance(b, list)) or len(a) != len(b):
            return False
        return all(num_eq(x, y, exact) for x, y in zip(a, b))
    if a is None or b is None:
        return a is None and b is None
    if exact:
        return a == b
    return common.close(float(a), float(b), 1e-9)


def diff(real, model):
    """first difference between a real result and a model result: (field, description) or None"""
    if real[0] != model[0]:
        if real[0] == "err":
            return ("raised:" + real[1], f"real reader raised {real[1]}: {real[2]} where a result was expected")
        return ("no-error", f"real reader returned {len(real[1])} snapshots where {model[1]} was expected")
    if real[0] == "err":
        return None if real[1] == model[1] else ("raised:" + real[1], f"real raised {real[1]}, expected {model[1]}")
    if len(real) > 2 and real[2]:
        return ("nsnapshots", real[2])
    rf, mf = real[1], model[1]
    if len(rf) != len(mf):
        return ("nsnapshots", f"{len(rf)} snapshots read, {len(mf)} frames in the file")
    for n, (a, b) in enumerate(zip(rf, mf)):
        for fld in FIELDS:
            exact = fld in ("timestep", "nparticle", "particle_type")
            if exact and fld != "particle_type" and not (isinstance(a[fld], int) and not isinstance(a[fld], bool)):
                return (fld, f"frame {n}: {fld} is {a[fld]!r} (not an int)")
            if not num_eq(a[fld], b[fld], exact):
                where = ""
                if isinstance(a[fld], list) and isinstance(b[fld], list) and len(a[fld]) == len(b[fld]):
                    for k, (x, y) in enumerate(zip(a[fld], b[fld])):
                        if not num_eq(x, y, exact):
                            where = f"[{k}] real {x} expected {tofloat(y)}"
                            break
                else:
                    where = f" real {a[fld]} expected {tofloat(b[fld])}"
                return (fld, f"frame {n}: {fld}{where}")
    return None


def tofloat(v):
    if isinstance(v, list):
        return [tofloat(x) for x in v]
    return float(v) if isinstance(v, Fraction) else v


# ----------------------------------------------------------------------------- one case through everything

class Out:
    __slots__ = ("case", "text", "margin", "emit", "impl", "expected", "real", "tok_err", "kind")


def evaluate(cases, texts=None):
    """driver (emit, Impl, expected) + text + real reader for every case"""
    outs = common.drive([spec_op(c) for c in cases])
    res = []
    for i, (c, o) in enumerate(zip(cases, outs)):
        if o == "bad-op":
            raise common.Infra("driver rejected op: " + spec_op(c)[:300])
        sec = o.split(" ;; ")
        if len(sec) != 4:
            sec = (o + " ").split(" ;;")
            sec = [s.strip() for s in sec]
        r = Out()
        r.case = c
        r.margin = Fraction(sec[0].strip())
        r.emit = parse_wire_lines(sec[1])
        r.impl = parse_result(sec[2])
        r.expected = parse_result(sec[3])
        r.kind = c.get("kind", "gen")
        if texts is not None and texts[i] is not None:
            r.text = texts[i]
            r.tok_err = lines_agree(r.emit, tokenise(r.text), strict=False)
        else:
            r.text = render(r.emit, c["fmt"])
            r.tok_err = lines_agree(r.emit, tokenise(r.text), strict=True)
        r.real = real_read(r.text, c["nd"], via_wrapper=(c.get("fmt", 0) % 4 == 0))
        res.append(r)
    return res


def features(c):
    f0 = c["frames"][0]
    neg = any(f["tric"] and any(Fraction(f[k]) < 0 for k in ("xy", "xz", "yz")) for f in c["frames"])
    shuffled = any([a["id"] for a in f["atoms"]] != sorted(a["id"] for a in f["atoms"]) for f in c["frames"])
    return {"nd": c["nd"], "frames": len(c["frames"]), "neg_tilt": neg, "shuffled": shuffled,
            "cell0": "tric" if f0["tric"] else "orth", "style0": f0["style"]}


def judge(run, r, dis, spec_dis, inst, tokfail):
    c = r.case
    ft = features(c)
    for f in c["frames"]:
        run.hist("cell:style", ("tric" if f["tric"] else "orth") + ":" + f["style"])
        run.hist("natoms", len(f["atoms"]))
        run.hist("extra_columns", len(f["names"]))
        if f["tric"]:
            run.hist("tilt_signs", "".join("-" if Fraction(f[k]) < 0 else ("0" if Fraction(f[k]) == 0 else "+") for k in ("xy", "xz", "yz")))
    run.hist("ndim", c["nd"]); run.hist("frames", len(c["frames"])); run.hist("int_looking_numbers", c["pr"])
    if r.tok_err:
        tokfail.append((c, r.tok_err))
        return
    if r.margin < GUARD:
        run.coverage["skipped_inside_margin"] = run.coverage.get("skipped_inside_margin", 0) + 1
        return
    nontrivial = ft["shuffled"] or ft["frames"] >= 2
    run.count(sha_text(r.text), nontrivial,
              sample={"text": r.text[:600], "real_first_positions": (r.real[1][0]["positions"][:2] if r.real[0] == "ok" and r.real[1] else r.real[1])})
    if r.impl != r.expected:
        inst.append((c, "Impl.readAll (Spec.emit fs) ≠ fs.map Spec.expected in the driver"))
    d = diff(r.real, r.impl)
    if d:
        dis.append((c, d))
    d2 = diff(r.real, r.expected)
    if d2:
        spec_dis.append((c, d2))


def sha_text(t):
    return common.sha(t)


# ----------------------------------------------------------------------------- sample dumps of the repo

def sample_case(path, nd):
    """derive the frame descriptions of a real dump file (independent Python reading of the LAMMPS conventions);
    the Lean emitter must then reproduce the file token for token"""
    with open(path) as f:
        text = f.read()
    L = [ln.split() for ln in text.split("\n")]
    if L and L[-1] == []:
        L.pop()
    frames, p = [], 0
    while p < len(L):
        ts = int(L[p + 1][0]); n = int(L[p + 3][0])
        hdr = L[p + 4]
        tric = "xy" in hdr
        flags = [w for w in hdr[3:] if w not in ("xy", "xz", "yz")] if tric else hdr[3:]
        b = [[Fraction(x) for x in L[p + 5 + i]] for i in range(3)]
        if tric:
            xy, xz, yz = b[0][2], b[1][2], b[2][2]
            lo = [b[0][0] - min(0, xy, xz, xy + xz), b[1][0] - min(0, yz), b[2][0]]
            hi = [b[0][1] - max(0, xy, xz, xy + xz), b[1][1] - max(0, yz), b[2][1]]
        else:
            xy = xz = yz = Fraction(0)
            lo, hi = [r[0] for r in b], [r[1] for r in b]
        names = L[p + 8][2:]
        style = "xs" if "xs" in names else ("xu" if "xu" in names else "x")
        extra = names[2 + nd:]
        atoms = []
        for ln in L[p + 9: p + 9 + n]:
            atoms.append({"id": int(ln[0]), "type": int(ln[1]),
                          "c": [rs(Fraction(x)) for x in ln[2:2 + nd]], "extras": [wire(classify(x)) for x in ln[2 + nd:]]})
        frames.append({"ts": ts, "tric": tric, "style": style, "lo": [rs(x) for x in lo], "hi": [rs(x) for x in hi],
                       "xy": rs(xy), "xz": rs(xz), "yz": rs(yz), "flags": flags, "names": extra, "atoms": atoms})
        p += 9 + n
    return {"nd": nd, "pr": 0, "frames": frames, "fmt": 1, "kind": "sample:" + os.path.basename(path)}, text


def rs(v):
    return f"{v.numerator}/{v.denominator}" if v.denominator != 1 else str(v.numerator)


# ----------------------------------------------------------------------------- malformed stream (coverage only)

def malform(rng, text):
    lines = text.split("\n")[:-1]
    kind = rng.choice(["truncate", "n+1", "n-1", "dropline", "dupid", "id0", "idbig", "badnum", "blank-tail"])
    if kind == "truncate":
        lines = lines[:rng.randint(0, max(0, len(lines) - 1))]
    elif kind in ("n+1", "n-1"):
        if len(lines) > 3:
            try:
                lines[3] = str(int(lines[3]) + (1 if kind == "n+1" else -1))
            except ValueError:
                pass
    elif kind == "dropline" and lines:
        del lines[rng.randrange(len(lines))]
    elif kind in ("dupid", "id0", "idbig", "badnum") and len(lines) > 9:
        k = rng.randrange(9, len(lines))
        t = lines[k].split()
        if len(t) >= 3 and t[0] != "ITEM:":
            if kind == "dupid":
                t[0] = "1"
            elif kind == "id0":
                t[0] = "0"
            elif kind == "idbig":
                t[0] = "9999"
            else:
                t[2] = "abc"
            lines[k] = " ".join(t)
    elif kind == "blank-tail":
        lines.append("")
    return kind, "".join(l + "\n" for l in lines)


def run_malformed(run, rng, texts_nd, n):
    ops, items = [], []
    for _ in range(n):
        text, nd = rng.choice(texts_nd)
        kind, bad = malform(rng, text)
        items.append((kind, bad, nd))
        ops.append(f"lmpread {nd} " + wire_lines(tokenise(bad)))
    outs = common.drive(ops) if ops else []
    agree = 0
    disagreements = []
    for (kind, bad, nd), o in zip(items, outs):
        if o == "bad-op":
            continue
        sec = o.split(" ;; ")
        model = parse_result(sec[1])
        real = real_read(bad, nd)
        run.hist("malformed", kind + ":" + (real[1] if real[0] == "err" else "ok"))
        if Fraction(sec[0]) < GUARD:
            continue
        if diff(real, model) is None:
            agree += 1
        else:
            disagreements.append({"kind": kind, "text": bad[:400], "real": str(real)[:200], "model": str(model)[:200]})
    run.coverage["malformed_stream"] = {"cases": len(items), "agree": agree, "disagree": len(disagreements),
                                        "first_disagreements": disagreements[:3],
                                        "note": "coverage of the model's error paths; outside the property, never a violation"}


# ----------------------------------------------------------------------------- pipeline entry points

def correspond(run):
    try:
        return _correspond(run)
    finally:
        cleanup()


def _correspond(run):
    quick = run.tier == "quick"
    n = 300 if quick else 12000
    cases = list(common.load_corpus(PROP)) + [gen_case(run.rng, big=(i % 25 == 24)) for i in range(n)]
    dis, spec_dis, inst, tokfail = [], [], [], []
    res = evaluate(cases)
    for r in res:
        judge(run, r, dis, spec_dis, inst, tokfail)
    # the repo's sample dumps
    samples = SAMPLES[:4] if quick else SAMPLES
    sample_info = {}
    for rel, nd in samples:
        path = os.path.join(common.REPO, rel)
        if not os.path.exists(path):
            sample_info[rel] = "missing"
            continue
        c, text = sample_case(path, nd)
        r = evaluate([c], [text])[0]
        before = len(dis), len(spec_dis), len(tokfail)
        judge(run, r, dis, spec_dis, inst, tokfail)
        sample_info[rel] = {"frames": len(c["frames"]), "atoms": len(c["frames"][0]["atoms"]), "margin": str(r.margin),
                            "emitter_reproduces_file": r.tok_err is None,
                            "agrees": (len(dis), len(spec_dis), len(tokfail)) == before}
    run.coverage["sample_dumps"] = sample_info
    run.coverage["traces_validated_against_impl"] = run.coverage["evaluations"]
    # malformed stream: coverage only
    pool = [(r.text, r.case["nd"]) for r in res[:200] if r.real[0] == "ok"]
    if pool:
        run_malformed(run, run.rng, pool, 150 if quick else 1500)
    broken = []
    if tokfail:
        broken.append({"kind": "correspondence", "name": "Spec.emit~text fed to the reader",
                       "detail": f"{len(tokfail)} cases: {tokfail[0][1][:200]}", "cases": [c for c, _ in tokfail[:10]]})
    if inst:
        broken.append({"kind": "correspondence", "name": "C01_roundtrip instance in the driver",
                       "detail": f"{len(inst)} cases: {inst[0][1]}", "cases": [c for c, _ in inst[:10]]})
    if dis:
        broken.append({"kind": "correspondence", "name": "Pms.Lammps.Impl.readAll~read_lammps_wrapper",
                       "detail": f"{len(dis)} of {len(res)} cases disagree; first: {dis[0][1][1][:200]}",
                       "cases": [c for c, _ in dis[:40]]})
    if spec_dis and not dis:
        broken.append({"kind": "monitor", "name": "real reader vs Spec.expected",
                       "detail": f"{len(spec_dis)} cases; first: {spec_dis[0][1][1][:200]}", "cases": [c for c, _ in spec_dis[:40]]})
    return broken


def failing(c):
    """does the REAL reader contradict Spec.expected on this trajectory?  → (key, what) or None"""
    text = None
    if str(c.get("kind", "")).startswith("sample:"):
        rel = [s for s, _ in SAMPLES if os.path.basename(s) == c["kind"][7:]]
        if not rel:
            return None
        c, text = sample_case(os.path.join(common.REPO, rel[0]), c["nd"])
    r = evaluate([c], [text] if text is not None else None)[0]
    if r.tok_err or r.margin < GUARD:
        return None
    d = diff(r.real, r.expected)
    if not d:
        return None
    # the frame that went wrong decides the signature (cell kind : style : observed field)
    n = 0
    if "frame " in d[1]:
        try:
            n = int(d[1].split("frame ")[1].split(":")[0])
        except ValueError:
            n = 0
    elif d[0].startswith("raised") or d[0] == "nsnapshots":
        n = 0
    f = c["frames"][min(n, len(c["frames"]) - 1)]
    key = f"C01:{'tric' if f['tric'] else 'orth'}:{f['style']}:{d[0]}"
    return key, d[1] + f"  [ndim={c['nd']}, {len(c['frames'])} frame(s)]", r.text


def shrink(c):
    """fewer frames → fewer atoms (ids stay 1..m) → no extra columns, while the real reader still contradicts the Spec"""
    if str(c.get("kind", "")).startswith("sample:") or not failing(c):
        return c

    def still(x):
        return failing(x) is not None
    best = c
    for width in (1, 2):
        hit = None
        for i in range(len(best["frames"]) - width + 1):
            cand = dict(best, frames=best["frames"][i:i + width])
            if len(cand["frames"]) < len(best["frames"]) and still(cand):
                hit = cand
                break
        if hit:
            best = hit
            break
    changed = True
    while changed:
        changed = False
        for fi, f in enumerate(best["frames"]):
            m = len(f["atoms"])
            for keep in (1, 2, m // 2, m - 1):
                if 0 < keep < m:
                    nf = dict(f, atoms=[a for a in f["atoms"] if a["id"] <= keep])
                    cand = dict(best, frames=best["frames"][:fi] + [nf] + best["frames"][fi + 1:])
                    if still(cand):
                        best, changed = cand, True
                        break
            if changed:
                break
    cand = dict(best, frames=[dict(f, names=[], atoms=[dict(a, extras=[]) for a in f["atoms"]]) for f in best["frames"]])
    if still(cand):
        best = cand
    return best


def search(run, broken):
    try:
        return _search(run, broken)
    finally:
        cleanup()


def _search(run, broken):
    pool = []
    for b in broken:
        pool += b.get("cases", [])
    extra = 1500 if run.tier == "quick" else 6000
    pool += [gen_case(run.rng) for _ in range(extra)]
    for rel, nd in SAMPLES[:4]:
        pool.append({"nd": nd, "kind": "sample:" + os.path.basename(rel), "frames": [], "pr": 0, "fmt": 1})
    # first pass: which cases fail, grouped by their (unshrunk) signature
    groups = {}
    for c in pool:
        f = failing(c)
        if f:
            groups.setdefault(f[0], []).append(c)
    found = set()
    for key in sorted(groups):
        for c in groups[key][:3]:
            c2 = shrink(c)
            f2 = failing(c2)
            if f2 and f2[0] not in found:
                found.add(f2[0])
                run.violation(f2[0], f2[1], {"case": c2, "text": f2[2], "broken": [b["name"] for b in broken]})
    run.coverage["search_cases"] = len(pool)
    run.coverage["search_failing"] = sum(len(v) for v in groups.values())
    return [] if found else list(broken)


def replay(run, rp):
    """every case of a run is written to the SAME path and read in the same process, so a failure may depend on the history
    (state kept by the reader between calls); the replay therefore reads two other generated files at that path first"""
    import random as _random
    try:
        pre = _random.Random("c01-replay-history")
        seen = set()
        for _ in range(60):          # at least two other files of each dimension, read through the same path first
            h = gen_case(pre)
            if sum(1 for x in seen if x[0] == h["nd"]) < 2:
                seen.add((h["nd"], len(seen)))
                failing(h)
        if "case" in rp:
            return failing(rp["case"]) is not None
        return any(failing(c) is not None for c in rp.get("cases", []))
    finally:
        cleanup()
