"""C16 — coarse-graining (`utils/coarse_graining.py`: spatial_average, gaussian_blurring, time_average).

Tie = translator (Pms/Gen/Coarse.lean regenerated from the source: loop nests, `indice`, slices, divisor, window
length, middle index, Gaussian weight, cut-off comparison) + differential correspondence of the model assembled from
those terms (driver mode `impl`, exact ℚ, Float only for exp) with the REAL routines.  The failing-input search
compares the real routines with the hand-written Spec (driver mode `spec`), never with the regenerated terms."""
import logging
import os
import shutil
import tempfile
from fractions import Fraction

import numpy as np

import common
from common import bits2float, dec, fr

PROP = "C16"
PROPS_FILES = ["Pms/Props/C16.lean"]
GENERATORS = ["coarse"]
RULE = ("seeded cases of three kinds.  spatial: 1–3 frames × 2–7 particles × rank 0..2 × per-frame neighbour files "
        "(cn 0..N-1, shuffled rows, Nmax below/above max cn); non-trivial = some particle has ≥1 neighbour.  "
        "blur: 2-D/3-D grids with equal and unequal point numbers (incl. 2×3, 5×2, 3×3×3, 2×3×4, single-point axes) × "
        "1–2 frames with different boxes (orthogonal / tilted) × masks × σ × cut × rank 0..2; judged per grid point when "
        "every rint argument and cut-off comparison is ≥1e-6 from its flip point (+ an exact dyadic stream with a "
        "particle exactly AT the cut-off); non-trivial = some particle inside and some outside the cut-off or n_x≠n_y.  "
        "time: 3–10 frames × window 1..T × real/complex input; period an exact multiple of the frame interval "
        "(judged: named by the property) or ≥1e-6 away from one; non-trivial = window ≥ 2.  distinct = distinct literal inputs")
TRUSTED_BASE = [
    "Lean 4.33 kernel; axioms propext, Classical.choice, Quot.sound only",
    "translator/gens/coarse.py (AST walker + integer/field expression printers) — every regenerated term is executed in the driver "
    "against the real routine on each run",
    "np.linspace modelled by its contract lo + i(hi−lo)/(n−1); np.linalg.inv / np.rint / np.dot as in C02 (remove_pbc is C02's model); "
    "np.linalg.norm as √ of the sum of squares with the cut-off decided on squared lengths; np.exp/np.sqrt/np.pi are parameters of the "
    "theorems (evaluated in Float by the driver, compared at 1e-7); numpy slicing/mean/broadcast-sum as index-function sums; "
    "Python int() = truncation, round() = half-even; read_neighbors' parsed table is input data (modelled by C05)",
    "float64 arithmetic ≈ ℝ: validated by the correspondence under a margin guard, not proved; periods that are exact decimal "
    "multiples of the frame interval are judged against exact arithmetic (the property names them)",
    "the repaired window length int(round(q, 8)) equals ⌊q⌋ except for quotients within 5e-9 below an integer (theorem hypothesis)",
]

TOL = Fraction(1, 10 ** 6)
STATS = {"grid_points_judged": 0, "grid_points_skipped_inside_margin": 0, "time_cases_exact_multiple_judged": 0}
logging.disable(logging.INFO)


def fstr(q):
    """exact decimal string of a Fraction with a power-of-ten denominator"""
    q = Fraction(q)
    s = "-" if q < 0 else ""
    q = abs(q)
    for nd in range(0, 13):
        if (q * 10 ** nd).denominator == 1:
            v = int(q * 10 ** nd)
            return f"{s}{v // 10 ** nd}" + (f".{v % 10 ** nd:0{nd}d}" if nd else "")
    raise ValueError(q)


# ----------------------------------------------------------------------------- generators

def rank_shape(rng, dims=(2, 3)):
    r = rng.choice([0, 0, 1, 1, 2])
    if r == 0:
        return []
    if r == 1:
        return [rng.choice(dims)]
    return [rng.choice([2, 3]), rng.choice([2, 3])]


def prod(xs):
    p = 1
    for x in xs:
        p *= x
    return p


def gen_spatial(rng):
    T = rng.randint(1, 3)
    N = rng.randint(2, 7)
    shape = rank_shape(rng)
    C = prod(shape)
    frames = []
    maxcn = 0
    for _ in range(T):
        rows = []
        for i in range(N):
            cn = rng.randint(0, min(N - 1, 5)) if rng.random() < 0.85 else 0
            nb = rng.sample([j for j in range(N) if j != i], cn)
            rows.append(nb)
            maxcn = max(maxcn, cn)
        order = list(range(N))
        if rng.random() < 0.3:
            rng.shuffle(order)
        frames.append({"rows": rows, "order": order})
    nmax = 30
    if rng.random() < 0.3:
        nmax = rng.randint(1, max(1, maxcn + 1))
    x = [[[dec(rng, -5, 5) for _ in range(C)] for _ in range(N)] for _ in range(T)]
    return {"kind": "spatial", "T": T, "N": N, "shape": shape, "frames": frames, "Nmax": nmax, "x": x, "save": rng.random() < 0.2}


GRIDS2 = [(2, 3), (5, 2), (3, 3), (4, 4), (2, 2), (3, 5), (6, 3), (1, 3), (3, 1), (4, 2), (2, 5)]
GRIDS3 = [(3, 3, 3), (2, 3, 4), (2, 2, 2), (4, 2, 3), (3, 2, 2), (2, 2, 3), (1, 2, 3), (3, 1, 2), (2, 3, 1), (4, 3, 2)]


def gen_blur(rng, tie=False):
    d = rng.choice([2, 3])
    ng = list(rng.choice(GRIDS2 if d == 2 else GRIDS3))
    T = rng.choice([1, 1, 2])
    N = rng.randint(1, 6)
    shape = rank_shape(rng, dims=(2, 3))
    C = prod(shape)
    frames = []
    if tie:
        # exact dyadic stream: box [0,8]^d, grid points at multiples of 8/(n-1), a particle exactly AT the cut-off (3-4-5)
        ng = [3] * d
        T = 1
        N = max(N, 2)
        pos = [["3", "4"] + (["0"] if d == 3 else [])]
        for _ in range(N - 1):
            pos.append([str(Fraction(rng.randint(0, 64), 8).__float__()) for _ in range(d)])
        frames.append({"lo": ["0"] * d, "L": ["8"] * d, "H": [["8" if i == j else "0" for j in range(d)] for i in range(d)], "pos": pos})
        ppp = ["0"] * d
        sigma, cut = rng.choice(["2", "1.5", "4"]), "5"
    else:
        for _ in range(T):
            lo = [dec(rng, -3, 3, 2) for _ in range(d)]
            L = [dec(rng, 3, 9, 2) for _ in range(d)]
            H = [[L[i] if i == j else "0" for j in range(d)] for i in range(d)]
            if rng.random() < 0.25:
                for i in range(d):
                    for j in range(i):
                        H[i][j] = dec(rng, -1.5, 1.5, 2)
                common.sparse_tilt(rng, H)
            pos = [[fstr(Fraction(lo[k]) + Fraction(rng.randint(0, 1000), 1000) * Fraction(L[k])) for k in range(d)] for _ in range(N)]
            pos = [[fstr(round(Fraction(v), 3)) for v in row] for row in pos]
            if rng.random() < 0.4:
                # unfolded coordinates (an `xu` trajectory): some particles whole box lengths outside the box bounds
                pos = [[fstr(Fraction(v) + (rng.randint(-3, 3) * Fraction(L[k]) if rng.random() < 0.5 else 0)) for k, v in enumerate(row)] for row in pos]
            fr_ = {"lo": lo, "L": L, "H": H, "pos": pos}
            if any(Fraction(H[i][j]) != 0 for i in range(d) for j in range(i)) and rng.random() < 0.7:
                # box bounds as the LAMMPS reader stores them for a tilted cell: the bounding box (xlo_bound = xlo + min(0, xy, xz, xy+xz), …),
                # wider than the edge lengths — the grid spans the BOUNDS, so `boxbounds` and `boxlength` are not interchangeable here
                blo, bhi = [], []
                for k in range(d):
                    t = [Fraction(H[i][k]) for i in range(k + 1, d)]
                    sums = [Fraction(0)] + t + ([t[0] + t[1]] if len(t) == 2 else [])
                    blo.append(fstr(Fraction(lo[k]) + min(sums)))
                    bhi.append(fstr(Fraction(lo[k]) + Fraction(L[k]) + max(sums)))
                fr_["blo"], fr_["bhi"] = blo, bhi
            frames.append(fr_)
        ppp = [rng.choice(["0", "1"]) for _ in range(d)]
        if rng.random() < 0.5:
            ppp = ["1"] * d
        sigma = dec(rng, 0.5, 3, 2)
        cut = dec(rng, 1, 8, 2)
    cond = [[[dec(rng, -3, 3, 2) for _ in range(C)] for _ in range(N)] for _ in range(T)]
    return {"kind": "blur", "d": d, "ng": ng, "T": T, "N": N, "shape": shape, "frames": frames, "ppp": ppp,
            "ppp3": d == 2 and rng.random() < 0.5, "sigma": sigma, "cut": cut, "cond": cond, "tie": tie, "save": rng.random() < 0.2}


def gen_time(rng, exact=None):
    T = rng.randint(3, 10)
    N = rng.randint(1, 4)
    dts = rng.choice([1, 10, 50, 100, 500, 1000, 20, 250])
    dt = rng.choice(["0.002", "0.001", "0.005", "0.01", "0.004", "0.0025"])
    t0 = rng.choice([0, 0, 1000, 12345])
    interval = Fraction(dts) * Fraction(dt)
    k = rng.randint(1, T)
    if exact is None:
        exact = rng.random() < 0.6
    if exact:
        period = fstr(k * interval)
    else:
        k = rng.randint(1, T - 1) if rng.random() < 0.8 else rng.randint(1, T)
        fracs = ["0.25", "0.5", "0.75", "0.1", "0.9", "0.37", "0.999", "0.001", "0.9999999", "0.0000001"]
        period = fstr(round((k + Fraction(rng.choice(fracs))) * interval, 12))
        if int(Fraction(period) / interval) > T:
            period = fstr(k * interval)
    cplx = rng.random() < 0.4
    M = 2 * N if cplx else N
    x = [[dec(rng, -5, 5) for _ in range(M)] for _ in range(T)]
    return {"kind": "time", "T": T, "N": N, "dts": dts, "dt": dt, "t0": t0, "period": period, "complex": cplx, "x": x}


def gen_case(rng, i=0):
    r = i % 10
    if r in (0, 1, 2):
        return gen_spatial(rng)
    if r in (3, 4, 5):
        return gen_blur(rng)
    if r == 6:
        return gen_blur(rng, tie=True)
    return gen_time(rng)


# ----------------------------------------------------------------------------- driver lines

def table_of(c, n):
    """the parsed neighbour table of frame n as read_neighbors' contract gives it: cn truncated to Nmax, ids 0-based"""
    rows = [r[: c["Nmax"]] for r in c["frames"][n]["rows"]]
    K = 1 + max(len(r) for r in rows)
    return K, [[len(r)] + r + [0] * (K - 1 - len(r)) for r in rows]


def op_lines(c, mode):
    if c["kind"] == "spatial":
        C = prod(c["shape"])
        tabs = [table_of(c, n) for n in range(c["T"])]
        K = max(k for k, _ in tabs)
        flat = []
        for k, rows in tabs:
            for r in rows:
                flat += [str(v) for v in r] + ["0"] * (K - k)
        xs = [v for fr_ in c["x"] for p in fr_ for v in p]
        return ["cgspatial {} {} {} {} {} {} {}".format(mode, c["T"], c["N"], C, K, " ".join(flat), " ".join(xs))]
    if c["kind"] == "blur":
        d, C = c["d"], prod(c["shape"])
        ng = c["ng"] + ([1] if d == 2 else [])
        out = []
        for n, f in enumerate(c["frames"]):
            bb = []
            for k in range(d):
                bb += [f.get("blo", f["lo"])[k], f["bhi"][k] if "bhi" in f else fstr(Fraction(f["lo"][k]) + Fraction(f["L"][k]))]
            toks = [mode, d, ng[0], ng[1], ng[2], c["N"], C] + bb + [v for row in f["H"] for v in row] + c["ppp"] + [c["sigma"], c["cut"]] \
                + [v for row in f["pos"] for v in row] + [v for p in c["cond"][n] for v in p]
            out.append("cgblur " + " ".join(str(t) for t in toks))
        return out
    t1 = c["t0"] + c["dts"]
    M = len(c["x"][0])
    return ["cgtime {} {} {} {} {} {} {} {}".format(mode, c["T"], M, c["period"], c["dt"], c["t0"], t1, " ".join(v for row in c["x"] for v in row))]


# ----------------------------------------------------------------------------- the real routines

def _snap(ts, pos, L, bb, H):
    from PyMatterSim.reader.reader_utils import SingleSnapshot
    n = len(pos)
    return SingleSnapshot(timestep=ts, nparticle=n, particle_type=np.ones(n, dtype=int), positions=np.array(pos, dtype=float),
                          boxlength=np.array(L, dtype=float), boxbounds=np.array(bb, dtype=float), realbounds=None,
                          hmatrix=np.array(H, dtype=float))


def real_call(c):
    from PyMatterSim.reader.reader_utils import Snapshots
    from PyMatterSim.utils import coarse_graining as cg
    if c["kind"] == "spatial":
        x = np.array([[[float(v) for v in p] for p in f] for f in c["x"]], dtype=float).reshape([c["T"], c["N"]] + c["shape"])
        x = common.guise(x, "spatial")          # the same numbers in another memory layout (Fortran order, reversed axes, strided view)
        tmp = tempfile.mkdtemp(prefix="c16-")
        try:
            path = os.path.join(tmp, "nb.dat")
            with open(path, "w") as fh:
                for f in c["frames"]:
                    fh.write("id     cn     neighborlist\n")
                    for i in f["order"]:
                        nb = f["rows"][i]
                        fh.write("{}     {}     {}\n".format(i + 1, len(nb), " ".join(str(j + 1) for j in nb)))
            x0 = x.copy()
            of = os.path.join(tmp, "out.npy") if c.get("save") else ""
            out = cg.spatial_average(x, path, Nmax=c["Nmax"], outputfile=of)
            if not np.array_equal(x, x0):
                raise AssertionError("input_property was modified in place")
            if of and not np.array_equal(np.load(of), out):
                raise AssertionError("saved file differs from the returned array")
            return {"out": np.asarray(out)}
        finally:
            shutil.rmtree(tmp, ignore_errors=True)
    if c["kind"] == "blur":
        d = c["d"]
        snaps = []
        for n, f in enumerate(c["frames"]):
            bb = [[float(f.get("blo", f["lo"])[k]), float(Fraction(f["bhi"][k]) if "bhi" in f else Fraction(f["lo"][k]) + Fraction(f["L"][k]))]
                  for k in range(d)]
            snaps.append(_snap(n * 10, [[float(v) for v in row] for row in f["pos"]], [float(v) for v in f["L"]], bb,
                               [[float(v) for v in row] for row in f["H"]]))
        cond = np.array([[[float(v) for v in p] for p in f] for f in c["cond"]], dtype=float).reshape([c["T"], c["N"]] + c["shape"])
        cond = common.guise(cond, "blur")
        ppp = [int(v) for v in c["ppp"]] + ([1] if c.get("ppp3") else [])
        tmp = tempfile.mkdtemp(prefix="c16-") if c.get("save") else None
        try:
            of = os.path.join(tmp, "blur") if tmp else ""
            gp, gv = cg.gaussian_blurring(Snapshots(c["T"], snaps), cond, np.array(c["ng"]), sigma=float(c["sigma"]),
                                          ppp=np.array(ppp), gaussian_cut=float(c["cut"]), outputfile=of)
            if of and not (np.array_equal(np.load(of + "_positions.npy"), gp) and np.array_equal(np.load(of + "_properties.npy"), gv)):
                raise AssertionError("saved files differ from the returned arrays")
        finally:
            if tmp:
                shutil.rmtree(tmp, ignore_errors=True)
        return {"pos": np.asarray(gp), "val": np.asarray(gv)}
    T = c["T"]
    snaps = [_snap(c["t0"] + n * c["dts"], [[0.0, 0.0]] * c["N"], [1.0, 1.0], [[0, 1.0], [0, 1.0]], [[1.0, 0], [0, 1.0]]) for n in range(T)]
    x = np.array([[float(v) for v in row] for row in c["x"]], dtype=float)
    if c["complex"]:
        x = x[:, 0::2] + 1j * x[:, 1::2]          # complex128, the dtype the routine computes in
    x = common.guise(x, "time")
    x0 = x.copy()
    if c.get("again", True):
        # call history: the same array object has already been averaged once in this process (with another window)
        cg.time_average(Snapshots(T, snaps), x, time_period=float(c["period"]) * 0.5 + float(c["dt"]) * c["dts"], dt=float(c["dt"]))
    res, mid = cg.time_average(Snapshots(T, snaps), x, time_period=float(c["period"]), dt=float(c["dt"]))
    if not np.array_equal(x, x0):
        raise AssertionError("input_property was modified in place")
    return {"res": np.asarray(res), "mid": np.asarray(mid)}


real_call = common.with_history(real_call)


# ----------------------------------------------------------------------------- comparison (real vs a driver answer)

def func_of(c):
    return {"spatial": "spatial_average", "blur": "gaussian_blurring", "time": "time_average"}[c["kind"]]


def compare(c, real, rerr, outs):
    """returns (status, key, why): status 'ok' | 'skip' | 'bad'.  `outs` = the driver lines of this case."""
    fn = func_of(c)
    if c["kind"] == "spatial":
        if rerr:
            return "bad", f"C16:{fn}:raised:{rerr.split(':')[0]}", f"{fn} raised {rerr}"
        model = [float(fr(t)) for t in outs[0].split()[1:]]
        out = real["out"]
        if list(out.shape) != [c["T"], c["N"]] + c["shape"]:
            return "bad", f"C16:{fn}:shape", f"{fn} returned shape {out.shape}"
        flat = out.reshape(-1)
        for a, (m, r) in enumerate(zip(model, flat)):
            if not common.close(m, r, 1e-9):
                C = prod(c["shape"])
                n, i = a // (c["N"] * C), a // C % c["N"]
                return "bad", f"C16:{fn}:value", (f"{fn}: frame {n} particle {i}: returned {float(r)!r}, mean over the particle and "
                                                  f"its listed neighbours {c['frames'][n]['rows'][i][:c['Nmax']]} is {m!r}")
        return "ok", None, None
    if c["kind"] == "blur":
        d, C = c["d"], prod(c["shape"])
        G = prod(c["ng"])
        if rerr:
            exc = rerr.split(":")[0]
            key = f"C16:{fn}:grid:{d}D:IndexError" if exc == "IndexError" else f"C16:{fn}:raised:{exc}:{d}D:rank{len(c['shape'])}"
            return "bad", key, f"{fn} raised {rerr} for ngrids={c['ng']}, property rank {len(c['shape'])}"
        if list(real["pos"].shape) != [c["T"], G, d] or list(real["val"].shape) != [c["T"], G] + c["shape"]:
            return "bad", f"C16:{fn}:shape", f"{fn} returned shapes {real['pos'].shape}, {real['val'].shape}"
        judged = 0
        for n in range(c["T"]):
            ms, ps, vs = [s.split() for s in (outs[n] + " ").split("|")]
            mpos = np.array([float(fr(t)) for t in ps]).reshape(G, d)
            rpos = real["pos"][n]
            for g in range(G):
                if any(not common.close(a, b, 1e-9) for a, b in zip(mpos[g], rpos[g])):
                    distinct = len({tuple(np.round(p, 9)) for p in rpos})
                    return "bad", f"C16:{fn}:grid:{d}D", (f"{fn}: ngrids={c['ng']} frame {n}: grid point {g} is {rpos[g].tolist()}, expected "
                                                          f"{mpos[g].tolist()} (x slowest); {distinct} distinct points of {G}")
            mval = np.array([bits2float(t) for t in vs]).reshape(G, C)
            rval = real["val"][n].reshape(G, C)
            for g in range(G):
                if not c["tie"] and fr(ms[g]) < TOL:
                    STATS["grid_points_skipped_inside_margin"] += 1
                    continue
                judged += 1
                STATS["grid_points_judged"] += 1
                for k in range(C):
                    if not common.close(mval[g, k], rval[g, k], 1e-7):
                        return "bad", f"C16:{fn}:value:rank{len(c['shape'])}", (
                            f"{fn}: frame {n} grid point {g} {rpos[g].tolist()} component {k}: returned {float(rval[g, k])!r}, "
                            f"Σ_(d<cut) gauss(d)·property = {float(mval[g, k])!r}")
        return ("ok" if judged else "skip"), None, None
    # time
    head, mids, vals = [s.split() for s in (outs[0] + " ").split("|")]
    exact, margin, w, nres = head[0] == "1", fr(head[1]), int(head[2]), int(head[3])
    if not exact and margin < TOL:
        return "skip", None, None
    if w < 1 or nres < 0:
        return "skip", None, None           # outside the property's domain (empty or over-long window)
    if rerr:
        return "bad", f"C16:{fn}:raised:{rerr.split(':')[0]}", f"{fn} raised {rerr}"
    if exact:
        STATS["time_cases_exact_multiple_judged"] += 1
    res, mid = real["res"], real["mid"]
    tag = "exact-multiple" if exact else "generic"
    if res.shape[0] != nres:
        return "bad", f"C16:{fn}:window-length:{tag}", (f"{fn}: period {c['period']} / (Δstep {c['dts']} × dt {c['dt']}) has floor {w}, but "
                                                         f"{c['T'] - res.shape[0]} frames were averaged ({res.shape[0]} results instead of {nres})")
    mm = [int(t) for t in mids]
    if [int(v) for v in mid.reshape(-1)] != mm:
        return "bad", f"C16:{fn}:middle-index", (f"{fn}: window {w}: reported middle snapshots {[int(v) for v in mid.reshape(-1)]}, "
                                                 f"central frames are {mm}")
    model = [float(fr(t)) for t in vals]
    if c["complex"]:
        flat = np.stack([res.real, res.imag], axis=-1).reshape(-1)
    else:
        if np.abs(res.imag).max(initial=0) > 0:
            return "bad", f"C16:{fn}:mean", f"{fn}: real input gave a non-real average"
        flat = res.real.reshape(-1)
    if len(flat) != len(model):
        return "bad", f"C16:{fn}:shape", f"{fn} returned shape {res.shape}"
    for a, (m, r) in enumerate(zip(model, flat)):
        if not common.close(m, r, 1e-9):
            return "bad", f"C16:{fn}:mean", f"{fn}: window {w}: flat entry {a} returned {float(r)!r}, mean over frames n..n+{w - 1} is {m!r}"
    return "ok", None, None


def run_real(c):
    try:
        with np.errstate(all="ignore"):
            return real_call(c), None
    except Exception as e:  # noqa: BLE001 — the real code raising on a well-formed input is an observation
        return None, f"{type(e).__name__}: {e}"


def evaluate(cases, mode):
    """[(status, key, why)] of the real routine against the driver in `mode`"""
    lines, spans = [], []
    for c in cases:
        ls = op_lines(c, mode)
        spans.append((len(lines), len(ls)))
        lines += ls
    outs = common.drive(lines)
    res = []
    for c, (a, n) in zip(cases, spans):
        o = outs[a:a + n]
        if any(x == "bad-op" for x in o):
            raise common.Infra("driver rejected op: " + op_lines(c, mode)[0][:200])
        real, rerr = run_real(c)
        res.append(compare(c, real, rerr, o))
    return res


def nontrivial(c):
    if c["kind"] == "spatial":
        return any(len(r) for f in c["frames"] for r in f["rows"])
    if c["kind"] == "blur":
        return len(set(c["ng"])) > 1 or c["N"] > 1
    return True


def classify(run, c):
    run.hist("kind", c["kind"])
    if c["kind"] == "spatial":
        run.hist("rank", len(c["shape"])); run.hist("frames", c["T"])
        run.hist("Nmax<maxcn", c["Nmax"] < max(len(r) for f in c["frames"] for r in f["rows"]))
    elif c["kind"] == "blur":
        run.hist("grid", "x".join(map(str, c["ng"]))); run.hist("rank", len(c["shape"])); run.hist("mask", "".join(c["ppp"]))
        run.hist("cell", "tilted" if any(f["H"][i][j] != "0" for f in c["frames"] for i in range(c["d"]) for j in range(i)) else "orthogonal")
        run.hist("stream", "tie" if c["tie"] else "margin")
    else:
        q = Fraction(c["period"]) / (Fraction(c["dts"]) * Fraction(c["dt"]))
        run.hist("window", int(q)); run.hist("period", "exact-multiple" if q.denominator == 1 else "generic")
        run.hist("dtype", "complex" if c["complex"] else "real")


# ----------------------------------------------------------------------------- correspondence

def correspond(run):
    n = 500 if run.tier == "quick" else 10000
    def sibling(rng, c):
        # same tables / grid / box / window — other property values (and, for the blur, positions moved a little)
        if c.get("tie"):
            return None
        if c["kind"] == "spatial":
            return dict(c, x=[[[dec(rng, -5, 5) for _ in p] for p in f] for f in c["x"]])
        if c["kind"] == "time":
            return dict(c, x=[[dec(rng, -5, 5) for _ in row] for row in c["x"]])
        if c["kind"] == "blur":
            return dict(c, cond=[[[dec(rng, -3, 3, 2) for _ in p] for p in f] for f in c["cond"]],
                        frames=[dict(f, pos=common.jitter_positions(rng, f["pos"], 0.2, 3)) for f in c["frames"]])
        return None
    cases = common.load_corpus(PROP) + common.add_siblings(run.rng, [gen_case(run.rng, i) for i in range(n)], sibling, every=5)
    for k in STATS:
        STATS[k] = 0
    res = evaluate(cases, "impl")
    run.coverage.update(STATS)
    bad = {}
    skipped = 0
    for c, (st, key, why) in zip(cases, res):
        classify(run, c)
        if st == "skip":
            skipped += 1
            continue
        run.count(op_lines(c, "impl"), nontrivial(c), sample={"op": op_lines(c, "impl")[0][:300], "status": st})
        if st == "bad":
            bad.setdefault(func_of(c), []).append((c, why))
    run.coverage["skipped_inside_margin"] = skipped
    run.coverage["traces_validated_against_impl"] = run.coverage["evaluations"]
    broken = []
    for fn, items in bad.items():
        broken.append({"kind": "correspondence", "name": f"Pms.Coarse impl~{fn}", "func": fn,
                       "detail": f"{len(items)} cases disagree; first: {items[0][1][:300]}", "cases": [c for c, _ in items[:20]]})
    return broken


# ----------------------------------------------------------------------------- search / replay

def failing(c):
    """does the REAL routine contradict the Spec (the property statement) on this input?  -> (key, why) or None"""
    st, key, why = evaluate([c], "spec")[0]
    return (key, why) if st == "bad" else None


def shrink(c):
    best = c

    def still(cand, key):
        f = failing(cand)
        return f is not None and f[0] == key
    f0 = failing(c)
    if f0 is None:          # the failure does not reproduce on re-evaluation (the real result differs between identical calls)
        return c
    key = f0[0]
    if c["kind"] == "blur":
        for n in range(c["T"]):
            cand = dict(best, T=1, frames=[c["frames"][n]], cond=[c["cond"][n]])
            if c["T"] > 1 and still(cand, key):
                best = cand
                break
        if best["N"] > 1:
            cand = dict(best, N=1, frames=[dict(f, pos=f["pos"][:1]) for f in best["frames"]], cond=[f[:1] for f in best["cond"]])
            if still(cand, key):
                best = cand
        if best["shape"]:
            cand = dict(best, shape=[], cond=[[p[:1] for p in f] for f in best["cond"]])
            if still(cand, key):
                best = cand
    elif c["kind"] == "time":
        if c["N"] > 1 and not c["complex"]:
            cand = dict(best, N=1, x=[row[:1] for row in c["x"]])
            if still(cand, key):
                best = cand
    elif c["kind"] == "spatial":
        if c["T"] > 1:
            for n in range(c["T"]):
                cand = dict(best, T=1, frames=[c["frames"][n]], x=[c["x"][n]])
                if still(cand, key):
                    best = cand
                    break
    return best


FUNC_HINTS = [("spatial", "spatial_average"), ("nb", "spatial_average"), ("divisor", "spatial_average"),
              ("grid", "gaussian_blurring"), ("blur", "gaussian_blurring"), ("indice", "gaussian_blurring"), ("select", "gaussian_blurring"),
              ("rank", "gaussian_blurring"), ("gauss", "gaussian_blurring"), ("cut", "gaussian_blurring"),
              ("time", "time_average"), ("window", "time_average"), ("middle", "time_average"), ("slice", "time_average")]


def func_hint(b):
    if b.get("func"):
        return b["func"]
    text = (b.get("name", "") + " " + b.get("detail", "")).lower()
    for k, fn in FUNC_HINTS:
        if k.lower() in text:
            return fn
    return None


def search(run, broken):
    n = 400 if run.tier == "quick" else 3000
    pool = [c for b in broken for c in b.get("cases", [])]
    pool += [gen_case(run.rng, i) for i in range(n)] + [gen_time(run.rng, exact=True) for _ in range(n // 4)]
    res = evaluate(pool, "spec")
    found = {}
    for c, (st, key, why) in zip(pool, res):
        if st == "bad" and key not in found:
            found[key] = (c, why)
    funcs_found = set()
    for key, (c, why) in found.items():
        c2 = shrink(c)
        f = failing(c2) or failing(c) or (key, why + "  [evaluating the same input again did not reproduce this value: the real routine's "
                                          "result differs between identical calls]")
        run.violation(f[0], f[1], {"case": c2})
        funcs_found.add(func_of(c))
    run.coverage["search_cases"] = len(pool)
    unexplained = []
    for b in broken:
        h = func_hint(b)
        if (h is None and not funcs_found) or (h is not None and h not in funcs_found):
            unexplained.append(b)
    return unexplained


def replay(run, rp):
    if "case" in rp:
        return failing(rp["case"]) is not None
    return any(failing(c) is not None for c in rp.get("cases", []))
