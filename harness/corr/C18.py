"""C18 — purity.  Tie = translator (effect IR of every public analysis routine, regenerated every run; theorems
C18_all_routines / C18_registry / C18_hidden_state are decided on it) + runtime monitors on the REAL code:
SHA-256 of every shared array before/after every call, repeated calls compared bit-for-bit across seeded random
interleavings on SHARED snapshot / analysis objects, output files re-read and compared with the returned values at the
written precision.  The verdict of the Lean analysis (asked from the compiled driver, per routine) and the runtime
verdict must agree."""
import json
import logging
import os
import sys
import shutil
import tempfile
import time

import numpy as np

import common
from gen import purity as P

PROP = "C18"
PROPS_FILES = ["Pms/Props/C18.lean"]
GENERATORS = ["purity"]
RULE = ("every public routine of the 20 anchored analysis modules (functions, constructors, public methods: the regenerated IR "
        "registry) × seeded worlds of SHARED objects (2-D/3-D, box at / centred on the origin, 1–5 species, neighbour + weight "
        "files, bool/scalar/complex/vector/tensor conditions) × call histories (immediate repeat, registry order, seeded random "
        "interleavings).  A case = one call; non-trivial = the call returned normally (calls that raise are listed under "
        "not_exercised and still have their inputs hashed); distinct = distinct (world, routine, variant, history position)")
TRUSTED_BASE = [
    "Lean 4.33 kernel; axioms propext, Quot.sound (Classical.choice only through simp in C18_written_is_returned); decide +kernel over the regenerated IR",
    "PROVED for the IR semantics (Pms/Model/Purity.lean: variables denote sets of reachable buffers; executions = arbitrary finite "
    "sequences of the routine's statements; arbitrary aliasing choices and written values): check ⇒ entry-time buffers unchanged in every "
    "reachable state (C18_sound), across arbitrary sessions of accepted routines (C18_interleaving, C18_repeatable), and the object "
    "handed to a file writer is the object returned (C18_written_is_returned)",
    "translator/gens/purity.py (Python ast → IR) is TRUSTED: its tables say which numpy/pandas/freud/scipy calls allocate, return "
    "views, or write in place (arithmetic / reductions / np.* not listed as view-returning allocate; x[...] = v and df[c] = v copy values; "
    "parameters annotated int/float/str/bool are immutable scalars; freud and scipy only read their inputs); an unknown callee or "
    "method is a broken tie, not a guess.  Validated on every run by the SHA-256 monitors: IR verdict and runtime verdict must agree per routine",
    "containers are modelled by reachability; `store` targets must be local containers (side condition checked in `check`)",
    "determinism of numpy/pandas/freud given bit-identical inputs is a CONTRACT (hypothesis hdet of C18_repeatable); the translator "
    "rejects RNG use, global statements and module-level state; attribute rebinding in methods, process-global settings and callable "
    "arguments are limited to the reviewed lists of Pms/Model/PurityExpected.lean (C18_hidden_state)",
    "file-vs-returned at run time: CSV re-read with pandas, npy with np.load, text with np.loadtxt, compared at the written format's precision",
    "readers/writers (C01/C19), the spherical-harmonics table (C08) and the voro++ wrappers (external binary, absent here) are outside this registry",
]

logging.disable(logging.CRITICAL)
WORLD_SPECS = [
    {"seed": 0, "centred3": True, "centred2": False},
    {"seed": 1, "centred3": False, "centred2": True, "n2": 9, "n3": 10, "tperm": True},
    {"seed": 2, "centred3": True, "centred2": True, "n2": 11, "n3": 8, "nframes": 4},
    {"seed": 3, "centred3": False, "centred2": False, "n2": 8, "n3": 11},
]


# ----------------------------------------------------------------------------- IR side

def ir_verdicts():
    """per routine: verdict of the Lean analysis on the regenerated IR, from the compiled driver"""
    names = common.drive(["purity *"])[0].split()
    if not names or names == ["bad-op"]:
        raise common.Infra("driver has no purity op")
    outs = common.drive([f"purity {n}" for n in names])
    side = {}
    try:
        with open(os.path.join(common.LEAN, "Pms", "Gen", "Purity.json")) as f:
            side = json.load(f)
    except OSError:
        pass
    res = {}
    for n, o in zip(names, outs):
        t = o.split()
        if len(t) < 6:
            raise common.Infra(f"driver: bad purity line {o!r}")
        offs = [x for x in t[5][2:].split(",") if x]
        vs = side.get("routines", {}).get(n, {}).get("vars", [])
        where = side.get("routines", {}).get(n, {}).get("where", {})
        desc = []
        for of in offs:
            k, x = of.split(":")
            nm = vs[int(x)] if int(x) < len(vs) else x
            loc = [v for kk, v in where.items() if kk.startswith(f"{k} {x} ")]
            desc.append(f"{k} {nm} @ {', '.join(loc[0]) if loc else '?'}")
        res[n] = {"ok": t[0] == "ok", "wok": t[1] == "wok", "nstmts": int(t[2]), "offenders": desc,
                  "written_returned": len([x for x in t[4][2:].split(",") if x])}
    return res, side


# ----------------------------------------------------------------------------- runtime side

def state(W):
    """path -> (buffer address, sha, array) for everything the session shares (arrays are kept alive, so addresses are unique)"""
    out = {}
    for p, a in P.walk(W.shared()):
        out[p] = (a.__array_interface__["data"][0], P.arr_sha(a), a)
    return out


def diff_state(before, after):
    mutated, rebound, new_attr = [], [], []
    for p, (addr, h, _) in before.items():
        if p not in after:
            continue
        addr2, h2, _ = after[p]
        if h2 != h:
            if addr2 == addr:
                mutated.append(p)
            else:
                rebound.append(p)
    known_objs = {p.split("]")[1] for p in before if p.startswith("['objs']")}
    for p in after:
        if p not in before and p.startswith("['objs']") and p.split("]")[1] in known_objs:
            new_attr.append(p)
    return mutated, rebound, new_attr


def attr_of(path):
    # ['objs']['dynxu'].q_const  -> q_const
    tail = path.split("]", 2)[-1]
    return tail.lstrip(".").split(".")[0].split("[")[0]


def file_sha(path):
    try:
        with open(path, "rb") as f:
            return common.sha(f.read())
    except OSError:
        return None


def check_file(path, kind, want, decimals):
    """the file must hold the returned value at the written precision; returns None or a description"""
    import pandas as pd
    if not os.path.exists(path):
        return f"requested output file {os.path.basename(path)} was not written"
    tol = 0.5 * 10.0 ** (-decimals) * (1 + 1e-9) + 1e-12 if decimals is not None else 0.0
    try:
        if kind == "npy":
            got = np.load(path, allow_pickle=False)
            w = np.asarray(want)
            if got.shape != w.shape or not np.array_equal(got, w, equal_nan=True):
                return f"{os.path.basename(path)}: npy content differs from the returned array (shape {got.shape} vs {w.shape})"
            return None
        if kind in ("txt", "txt1"):
            got = np.loadtxt(path, skiprows=1 if kind == "txt1" else 0, ndmin=2)
            w = np.asarray(want, dtype=float)
            w = w.reshape(got.shape) if w.size == got.size else w
            if got.shape != w.shape:
                return f"{os.path.basename(path)}: text file has shape {got.shape}, returned {w.shape}"
            with np.errstate(invalid="ignore"):
                bad = np.abs(got - w) > tol + 1e-15 * np.abs(w)
            bad |= np.isnan(got) != np.isnan(w)          # an undefined value must be written as undefined, not as a number
            if bad.any():
                i = tuple(int(x) for x in np.argwhere(bad)[0])
                return f"{os.path.basename(path)}: entry {i} is {got[i]!r} in the file but {w[i]!r} was returned"
            return None
        if kind == "csv":
            got = pd.read_csv(path)
            if list(map(str, got.columns)) != list(map(str, want.columns)) or len(got) != len(want):
                return f"{os.path.basename(path)}: csv columns/rows {list(got.columns)}×{len(got)} differ from the returned frame {list(want.columns)}×{len(want)}"
            for c in want.columns:
                w = want[c].to_numpy()
                if not np.issubdtype(w.dtype, np.number) or np.iscomplexobj(w):
                    continue
                g = got[str(c)].to_numpy(dtype=float)
                w = w.astype(float)
                both_nan = np.isnan(g) & np.isnan(w)
                t = tol if decimals is not None else 1e-15 * np.maximum(1.0, np.abs(w))
                bad = ~both_nan & ~(np.abs(g - w) <= t + 1e-15 * np.abs(w))
                bad &= ~(np.isinf(g) & np.isinf(w) & (np.sign(g) == np.sign(w)))
                if bad.any():
                    i = int(np.argwhere(bad)[0][0])
                    return f"{os.path.basename(path)}: column {c} row {i} is {g[i]!r} in the file but {w[i]!r} was returned"
            return None
    except Exception as e:      # unreadable file = does not hold the returned values
        return f"{os.path.basename(path)}: cannot be re-read ({type(e).__name__}: {e})"
    return None


class Monitor:
    """runs calls on shared worlds and accumulates the runtime verdicts"""

    def __init__(self, run, side):
        self.run = run
        self.E = P.entries()
        self.allowed_state = set(side.get("stateWrites", []))
        self.tmp = tempfile.mkdtemp(prefix="c18-")
        self.worlds = {}
        self.ref = {}
        self.failing = []          # (key, what, case)
        self.kept = []             # (routine, variant, returned object, canonical form at return) of this session
        self.mutated = {}          # routine -> [case]
        self.raises = {}           # routine/variant -> message
        self.exercised = {}        # routine -> number of normal returns
        self.calls = 0
        self.files_checked = 0
        self.repeats_compared = 0
        self.state_rebinds = set()
        self.nout = 0

    def close(self):
        shutil.rmtree(self.tmp, ignore_errors=True)

    def world(self, wi):
        if wi not in self.worlds:
            d = os.path.join(self.tmp, f"w{wi}")
            os.makedirs(d, exist_ok=True)
            W = P.World(WORLD_SPECS[wi] if isinstance(wi, int) else wi, d)
            W.freeze()
            self.worlds[wi] = W
        return self.worlds[wi]

    def fail(self, key, what, case):
        if not any(k == key for k, _, _ in self.failing):
            self.failing.append((key, what, case))

    def call(self, wi, name, idx, history):
        """one monitored call; `history` = the calls made before it in this session (for the replay)"""
        W = self.world(wi)
        spec = W.spec
        self.nout += 1
        o = os.path.join(W.tmp, f"out{self.nout}")
        before = state(W)
        status, res, call = "ok", None, None
        if getattr(self, "hostile", False):
            # process-global numpy print options (a user's own, or left behind by another routine): nothing returned or written may
            # depend on them — in a hostile session every call starts under settings that abbreviate arrays of more than 4 elements
            np.set_printoptions(threshold=4, edgeitems=1, linewidth=30, precision=3)
        try:
            with np.errstate(all="ignore"):
                import warnings
                with warnings.catch_warnings():
                    warnings.simplefilter("ignore")
                    call = self.E[name][idx](W, o)
                    # a file of that name may be left over from an earlier run: what the call writes must replace it, not follow it
                    for f in [x[0] for x in call.files] + list(call.aux):
                        if not f.endswith(".npy") and not os.path.exists(f):
                            try:
                                with open(f, "w") as fh:
                                    # (different left-overs from call to call: a routine that appends writes different bytes each time)
                                    fh.write("id     cn     neighborlist\n1 2 2 3\n2 1 1\n3 1 1\n" * (2 + self.nout % 3))
                            except OSError:
                                pass
                    res = call.thunk()
        except Exception as e:
            status = f"raises {type(e).__name__}: {str(e)[:120]}"
        after = state(W)
        self.calls += 1
        case = {"world": spec, "entry": name, "idx": idx}
        if getattr(self, "hostile", False):
            case["hostile"] = True
        mutated, rebound, new_attr = diff_state(before, after)
        # --- inputs bit-for-bit unchanged
        for pth in rebound + new_attr:
            if pth.startswith("['objs']"):
                sw = f"{name}:{attr_of(pth)}"
                self.state_rebinds.add(sw)
                if sw not in self.allowed_state:
                    self.fail(f"C18:hidden-state:{name}:{attr_of(pth)}",
                              f"{name} rebinds attribute {attr_of(pth)} of its object to different contents (not in the reviewed stateWrites list)",
                              dict(case, kind="state"))
            else:
                mutated.append(pth)
        if mutated:
            pth = mutated[0]
            a_before = W.pristine.get(pth)
            a_after = after[pth][2]
            detail = ""
            if a_before is not None and a_before.shape == a_after.shape and np.issubdtype(a_after.dtype, np.number):
                dmax = float(np.max(np.abs(a_after.astype(complex) - a_before.astype(complex))))
                detail = f" (max |Δ| = {dmax:.3g})"
            self.mutated.setdefault(name, []).append(case)
            self.fail(f"C18:mutates-input:{name}",
                      f"{name} modified its input in place: {pth} changed{detail}; {len(mutated)} array(s) affected"
                      + (f"; call {status}" if status != "ok" else ""), dict(case, kind="mutate", paths=mutated[:6]))
            W.restore()
        W.pristine.update({p: v[2].copy() for p, v in after.items() if p not in W.pristine})
        # --- repeated calls agree, whatever was computed in between
        nontrivial = status == "ok"
        if nontrivial:
            self.exercised[name] = self.exercised.get(name, 0) + 1
        else:
            self.raises[f"{name}[{idx}]"] = status
        files = []
        if call is not None:
            files = [(os.path.relpath(f, W.tmp).replace(f"out{self.nout}", "out"), file_sha(f)) for f, _, _, _ in call.files] + \
                    [(os.path.relpath(f, W.tmp).replace(f"out{self.nout}", "out"), file_sha(f)) for f in call.aux]
        sig = (status.split(":")[0] if status != "ok" else "ok", P.canon(res), tuple(files))
        # --- values handed out earlier in this session are still what they were when they were returned
        for (pn, pi, pres, pcanon) in self.kept:
            if P.canon(pres) != pcanon:
                self.fail(f"C18:result-rewritten:{pn}",
                          f"the value returned earlier by {pn} was changed behind the caller's back by a later call of {name} "
                          f"(a returned array aliases state that is rewritten)",
                          dict(case, kind="kept", producer=[pn, pi], history=[list(h) for h in history]))
        self.kept = [k for k in self.kept if P.canon(k[2]) == k[3]]
        if status == "ok" and res is not None:
            self.kept.append((name, idx, res, sig[1]))
            self.kept = self.kept[-40:]
        key = (json.dumps(spec, sort_keys=True), name, idx)
        if key in self.ref:
            self.repeats_compared += 1
            ref_sig, ref_hist = self.ref[key]
            if ref_sig != sig and not mutated:
                what_part = "status" if ref_sig[0] != sig[0] else ("returned value" if ref_sig[1] != sig[1] else "output file bytes")
                self.fail(f"C18:repeat-differs:{name}",
                          f"{name} called again with the same inputs on the same shared objects returned a different {what_part} "
                          f"(first call after {len(ref_hist)} earlier calls of its session, this call after {len(history)})",
                          dict(case, kind="repeat", history=[list(h) for h in history], ref_history=[list(h) for h in ref_hist]))
        else:
            self.ref[key] = (sig, list(history))
        # --- file holds what was returned
        if status == "ok" and call is not None and not mutated:     # (after a detected mutation the world was restored under the result)
            for f, kind, pick, dec in call.files:
                self.files_checked += 1
                try:
                    want = pick(res)
                except Exception as e:
                    want = None
                why = check_file(f, kind, want, dec) if want is not None else f"{os.path.basename(f)}: nothing returned to compare with"
                if why:
                    self.fail(f"C18:file-differs:{name}", f"{name}: " + why.replace(f"out{self.nout}", "out"), dict(case, kind="file"))
        self.run.count((spec["seed"], name, idx, len(history)), nontrivial,
                       sample={"world": spec, "routine": name, "variant": idx, "status": status.split(":")[0]})
        self.run.hist("routine_module", name.rsplit(".", 1)[0] if name.count(".") < 3 else ".".join(name.split(".")[:2]))
        self.run.hist("status", "ok" if status == "ok" else "raises")
        # keep the scratch directory small
        if call is not None:
            for f in [x[0] for x in call.files] + list(call.aux):
                try:
                    os.remove(f)
                except OSError:
                    pass
        return status, bool(mutated)

    def all_calls(self):
        return [(n, i) for n, bs in self.E.items() for i in range(len(bs))]

    def session(self, wi, order, hostile=False):
        """one session on the shared world `wi`; analysis objects are rebuilt lazily inside the session, so object state
        left by one session cannot hide a history dependence in the next"""
        self.world(wi).objs.clear()
        self.kept = []
        # module-level state must not outlive a session either: the package is imported afresh (module bodies re-executed), so
        # a value memoised at module level in one order of calls cannot make another order look consistent
        for name in [n for n in sys.modules if n == "PyMatterSim" or n.startswith("PyMatterSim.")]:
            del sys.modules[name]
        hist = []
        self.hostile = hostile
        np.set_printoptions(edgeitems=3, infstr="inf", linewidth=75, nanstr="nan", precision=8, suppress=False, threshold=1000, formatter=None)
        for (n, i) in order:
            self.call(wi, n, i, hist)
            hist.append((n, i))
        self.hostile = False


def correspond(run):
    t0 = time.time()
    try:
        verdicts, side = ir_verdicts()
    except common.Infra:
        raise
    M = Monitor(run, side)
    broken = []
    try:
        calls = M.all_calls()
        nworlds = 2 if run.tier == "quick" else 4
        for wi in range(nworlds):
            # every routine twice in a row, then again inside shuffled interleavings on the same shared objects
            M.session(wi, [c for c in calls for _ in (0, 1)])
            for k in range(2 if run.tier == "quick" else 3):
                order = list(calls)
                run.rng.shuffle(order)
                M.session(wi, order, hostile=(k == 1))       # one interleaving per world under hostile numpy print options
        if run.tier == "thorough":
            for k in range(200):
                wi = k % nworlds
                order = [run.rng.choice(calls) for _ in range(24)]
                M.session(wi, order)
        cov = run.coverage
        ir_names = set(verdicts)
        reg_names = set(M.E)
        cov["programs"] = len(ir_names)
        cov["ir_statements"] = sum(v["nstmts"] for v in verdicts.values())
        cov["ir_rejected"] = sorted(n for n, v in verdicts.items() if not (v["ok"] and v["wok"]))
        cov["calls"] = M.calls
        cov["repeats_compared"] = M.repeats_compared
        cov["files_compared_with_returned"] = M.files_checked
        cov["written_and_returned_in_ir"] = sum(v["written_returned"] for v in verdicts.values())
        cov["routines_exercised"] = len([n for n in ir_names if M.exercised.get(n)])
        cov["not_exercised"] = {k: v for k, v in sorted(M.raises.items()) if not M.exercised.get(k.split("[")[0])}
        cov["raising_variants"] = dict(sorted(M.raises.items()))
        cov["no_builder"] = sorted(ir_names - reg_names)
        cov["state_rebinds_observed"] = sorted(M.state_rebinds)
        cov["traces_validated_against_impl"] = len(ir_names & reg_names)
        cov["correspond_seconds"] = round(time.time() - t0, 1)
        # registry vs IR
        if reg_names - ir_names:
            broken.append({"kind": "registry", "name": "harness entries without IR routine", "detail": ", ".join(sorted(reg_names - ir_names))[:400], "cases": []})
        if ir_names - reg_names:
            broken.append({"kind": "registry", "name": "IR routines without a harness entry", "detail": ", ".join(sorted(ir_names - reg_names))[:400], "cases": []})
        # IR verdict vs runtime verdict
        for n in sorted(ir_names):
            v = verdicts[n]
            if v["ok"] and n in M.mutated:
                broken.append({"kind": "correspondence", "name": f"translator-unsound:{n}",
                               "detail": f"the Lean analysis accepts the regenerated IR of {n} but the real routine modified an input", "cases": M.mutated[n][:3]})
        if M.failing:
            broken.append({"kind": "monitor", "name": "runtime purity monitors", "detail": f"{len(M.failing)} failing: {M.failing[0][1]}",
                           "cases": [c for _, _, c in M.failing[:6]], "failing": list(M.failing)})
        run._c18 = {"verdicts": verdicts, "mutated": dict(M.mutated)}
    finally:
        M.close()
    return broken


# ----------------------------------------------------------------------------- search / replay

def search(run, broken):
    """register every failing input found on the REAL code; a broken proof obligation is explained when every routine
    the analysis rejects has been seen modifying an input (or writing a file that differs) at run time"""
    info = getattr(run, "_c18", None)
    for b in broken:
        for key, why, c in b.get("failing", []):
            run.violation(key, why, {"case": c})
    unexplained = []
    verdicts = info["verdicts"] if info else {}
    mutated = info["mutated"] if info else {}
    found_any = any(b.get("failing") for b in broken)
    rejected = [n for n, v in verdicts.items() if not v["ok"]]
    wrejected = [n for n, v in verdicts.items() if v["ok"] and not v["wok"]]
    file_fail = {k.split(":", 2)[2] for b in broken for k, _, _ in b.get("failing", []) if k.startswith("C18:file-differs:")}
    missing = [n for n in rejected if n not in mutated] + [n for n in wrejected if n not in file_fail]
    # a rejected routine that INLINES a routine with a concrete failing input is explained by that input
    try:
        with open(os.path.join(common.LEAN, "Pms", "Gen", "Purity.json")) as f:
            sidevars = {n: r.get("vars", []) for n, r in json.load(f).get("routines", {}).items()}
    except OSError:
        sidevars = {}
    explained = set(mutated) | file_fail

    def inlines_failing(n):
        return any(any(v.startswith(m.rsplit(".", 1)[1] + "#") for v in sidevars.get(n, [])) for m in explained)
    missing = [n for n in missing if not inlines_failing(n)]
    if missing:
        # directed search: more worlds / histories for the routines the analysis rejects but the sweep did not catch
        side = {}
        M = Monitor(run, {"stateWrites": []})
        M.allowed_state = None
        try:
            with open(os.path.join(common.LEAN, "Pms", "Gen", "Purity.json")) as f:
                M.allowed_state = set(json.load(f).get("stateWrites", []))
        except OSError:
            M.allowed_state = set()
        try:
            t0 = time.time()
            budget = 30 if run.tier == "quick" else 300
            k = 0
            while missing and time.time() - t0 < budget and k < 40:
                spec = {"seed": 100 + k, "centred3": k % 2 == 0, "centred2": k % 3 == 0, "n2": 8 + k % 5, "n3": 8 + k % 4, "nframes": 3 + k % 2}
                wi = json.dumps(spec, sort_keys=True)
                M.worlds[wi] = None
                d = os.path.join(M.tmp, f"s{k}")
                os.makedirs(d, exist_ok=True)
                W = P.World(spec, d)
                W.freeze()
                M.worlds[wi] = W
                for n in list(missing):
                    for i in range(len(M.E.get(n, []))):
                        M.session(wi, [(n, i), (n, i)])
                        M.session(wi, [(n, i)], hostile=True)
                for key, why, c in M.failing:
                    run.violation(key, why, {"case": c})
                    found_any = True
                missing = [n for n in missing if n not in M.mutated and not any(kk == f"C18:file-differs:{n}" for kk, _, _ in M.failing)]
                k += 1
            run.coverage["search_worlds"] = k
        finally:
            M.close()
    for b in broken:
        if b.get("failing"):
            continue
        if b["kind"] == "correspondence" and b["name"].split(":", 1)[1] in mutated:
            continue        # explained by the registered mutates-input violation
        if b["kind"] == "translator" and any(k.split(":", 2)[2].split(":")[0] in b.get("detail", "") for bb in broken for k, _, _ in bb.get("failing", [])):
            continue        # the routine the translator no longer recognises has a concrete failing input
        if b["kind"] in ("proof", "audit", "axioms") and "C18_all_routines" in (b.get("name", "") + b.get("detail", "")) and not missing and (rejected or wrejected):
            continue        # every rejected routine has a concrete failing input
        unexplained.append(b)
    if missing:
        for b in unexplained:
            b["detail"] = (b.get("detail", "") + f" | rejected by the analysis, no failing input found: {', '.join(missing)}")[:900]
    return unexplained


def replay(run, rp):
    c = rp.get("case")
    if not c:
        # no-failing-input-found replays name the broken obligation: re-run the whole check
        st = common.proof_stage(run, __import__("sys").modules[__name__])
        return bool(st["broken"]) or bool(correspond(run))
    side = {}
    try:
        with open(os.path.join(common.LEAN, "Pms", "Gen", "Purity.json")) as f:
            side = json.load(f)
    except OSError:
        pass
    M = Monitor(run, side)
    try:
        wi = json.dumps(c["world"], sort_keys=True)
        d = os.path.join(M.tmp, "r")
        os.makedirs(d, exist_ok=True)
        W = P.World(c["world"], d)
        W.freeze()
        M.worlds[wi] = W
        if c["entry"] not in M.E or c["idx"] >= len(M.E[c["entry"]]):
            return False
        if c.get("kind") == "repeat":
            M.session(wi, [tuple(h) for h in c.get("ref_history", [])] + [(c["entry"], c["idx"])])
            M.session(wi, [tuple(h) for h in c.get("history", [])] + [(c["entry"], c["idx"])], hostile=bool(c.get("hostile")))
        else:
            M.session(wi, [(c["entry"], c["idx"]), (c["entry"], c["idx"])])
        return any(k == rp.get("key") for k, _, _ in M.failing)
    finally:
        M.close()
