"""C18 — seeded worlds of SHARED snapshot objects and the registry of public analysis entry points.

A world is a set of Snapshots objects (2-D and 3-D, box at the origin or centred on it, 1..5 species), neighbour /
weight files written for them, per-particle condition arrays, and lazily constructed analysis objects that are
shared by all calls of a session.  Every entry of `ENTRIES` names the routine as the translator names it
(`<module>.<function>` / `<module>.<Class>.<method>`) and builds one call: (thunk, output-file specs).
All numbers are decimal-grid values; all randomness comes from the seed in the world spec, so a replay file only
needs the spec."""
import dataclasses
import hashlib
import os
import random

import numpy as np


def _imp():
    from PyMatterSim.reader.reader_utils import SingleSnapshot, Snapshots
    return SingleSnapshot, Snapshots


# ----------------------------------------------------------------------------- hashing / canonical forms

def walk(obj, path="", seen=None, depth=0):
    """yield (path, ndarray) for every array reachable from obj (dataclasses, containers, analysis objects, frames)"""
    import pandas as pd
    if seen is None:
        seen = set()
    if depth > 8 or obj is None or isinstance(obj, (str, bytes, int, float, complex, bool, np.generic)):
        return
    if id(obj) in seen:
        return
    seen.add(id(obj))
    if isinstance(obj, np.ndarray):
        yield path, obj
    elif isinstance(obj, pd.DataFrame):
        for c in obj.columns:
            yield f"{path}[{c!r}]", obj[c].to_numpy()
    elif isinstance(obj, pd.Series):
        yield path, obj.to_numpy()
    elif isinstance(obj, dict):
        for k in obj:
            yield from walk(obj[k], f"{path}[{k!r}]", seen, depth + 1)
    elif isinstance(obj, (list, tuple)):
        for i, v in enumerate(obj):
            yield from walk(v, f"{path}[{i}]", seen, depth + 1)
    elif dataclasses.is_dataclass(obj) and not isinstance(obj, type):
        for f in dataclasses.fields(obj):
            yield from walk(getattr(obj, f.name), f"{path}.{f.name}", seen, depth + 1)
    elif type(obj).__module__.startswith("PyMatterSim") and hasattr(obj, "__dict__"):
        for k, v in vars(obj).items():
            yield from walk(v, f"{path}.{k}", seen, depth + 1)


def arr_sha(a):
    a = np.asarray(a)
    h = hashlib.sha256()
    h.update(str(a.dtype).encode())
    h.update(str(a.shape).encode())
    if a.dtype == object:
        h.update(repr(a.tolist()).encode())
    else:
        h.update(np.ascontiguousarray(a).tobytes())
    return h.hexdigest()


def fingerprint(obj):
    return {p: arr_sha(a) for p, a in walk(obj)}


def canon(res):
    """bit-exact canonical form of a returned value"""
    import pandas as pd
    if isinstance(res, np.ndarray):
        return ("nd", arr_sha(res))
    if isinstance(res, pd.DataFrame):
        return ("df", tuple(map(str, res.columns)), tuple(arr_sha(res[c].to_numpy()) for c in res.columns), arr_sha(np.asarray(res.index)))
    if isinstance(res, pd.Series):
        return ("ser", arr_sha(res.to_numpy()))
    if isinstance(res, (list, tuple)):
        return (type(res).__name__,) + tuple(canon(x) for x in res)
    if isinstance(res, dict):
        return ("dict",) + tuple((repr(k), canon(res[k])) for k in res)
    if isinstance(res, (float, np.floating)):
        return ("f", float(res).hex())
    if isinstance(res, (complex, np.complexfloating)):
        return ("c", float(res.real).hex(), float(res.imag).hex())
    if isinstance(res, (int, np.integer, bool, np.bool_, str, type(None))):
        return ("v", repr(res))
    return ("obj", type(res).__name__)


# ----------------------------------------------------------------------------- worlds

def grid(rng, lo, hi, nd=3):
    q = 10 ** nd
    return rng.randint(int(round(lo * q)), int(round(hi * q))) / q


def make_snapshots(rng, ndim, n, nframes, centred, ntypes, L, steps=None):
    SingleSnapshot, Snapshots = _imp()
    lo = -L / 2 if centred else 0.0
    base = np.array([[grid(rng, lo + 0.05, lo + L - 0.05) for _ in range(ndim)] for _ in range(n)])
    snaps = []
    types = np.array([(i % ntypes) + 1 for i in range(n)], dtype=np.int64)
    for f in range(nframes):
        pos = base + np.array([[grid(rng, -0.08, 0.08) for _ in range(ndim)] for _ in range(n)]) * f
        pos = lo + np.mod(pos - lo, L)
        bounds = np.array([[lo, lo + L]] * ndim)
        snaps.append(SingleSnapshot(timestep=(steps[f] if steps else 10 * f), nparticle=n, particle_type=types.copy(), positions=pos,
                                    boxlength=np.array([L] * ndim), boxbounds=bounds, realbounds=bounds.copy(),
                                    hmatrix=np.diag([L] * ndim).astype(float)))
    return Snapshots(nsnapshots=nframes, snapshots=snaps)


def neighbour_rows(snap, k):
    L = snap.boxlength
    rows = []
    for i in range(snap.nparticle):
        d = snap.positions - snap.positions[i]
        d -= np.rint(d / L) * L
        r = np.sqrt((d * d).sum(axis=1))
        order = [j for j in np.argsort(r, kind="stable") if j != i][:k]
        rows.append((i, order, [float(r[j]) for j in order]))
    return rows


def write_neighbour_files(snaps, k, base):
    with open(base + ".neighbor.dat", "w") as fn, open(base + ".weights.dat", "w") as fw:
        for s in snaps.snapshots:
            fn.write("id   cn   neighborlist\n")
            fw.write("id   cn   edgelengthlist\n")
            for i, order, dist in neighbour_rows(s, k):
                fn.write(f"{i + 1} {len(order)} " + " ".join(str(j + 1) for j in order) + "\n")
                fw.write(f"{i + 1} {len(order)} " + " ".join(f"{1.0 / (0.2 + x):.6f}" for x in dist) + "\n")
    return base + ".neighbor.dat", base + ".weights.dat"


class World:
    """shared objects of one session"""

    def __init__(self, spec, tmp):
        self.spec, self.tmp = dict(spec), tmp
        rng = random.Random(f"C18-world-{spec['seed']}")
        self.rng = rng
        n2, n3, nf = spec.get("n2", 10), spec.get("n3", 9), spec.get("nframes", 3)
        c3 = spec.get("centred3", True)
        c2 = spec.get("centred2", False)
        # "tperm": frames that are NOT in increasing timestep order (two runs concatenated): a routine that sorts the caller's frame list
        # in place changes which frame every other routine sees at index k
        steps = ([0, 20, 10] + [10 * f for f in range(3, nf)]) if spec.get("tperm") and nf >= 3 else None
        self.s2 = make_snapshots(rng, 2, n2, nf, c2, 2, 4.0, steps)
        self.s3 = make_snapshots(rng, 3, n3, nf, c3, 2, 3.0, steps)
        self.sk = {k: make_snapshots(rng, 3, 10, 2, False, k, 3.0) for k in (1, 2, 3, 4, 5)}
        self.sk2 = {k: make_snapshots(rng, 2, 10, 2, False, k, 4.0) for k in (1, 2)}
        self.orient = make_snapshots(rng, 2, n2, nf, False, 1, 4.0)     # "positions" hold unit orientation vectors
        for s in self.orient.snapshots:
            ang = np.array([grid(rng, -3.1, 3.1) for _ in range(n2)])
            s.positions[:, 0] = np.cos(ang)
            s.positions[:, 1] = np.sin(ang)
        self.nb2, self.w2 = write_neighbour_files(self.s2, 5, os.path.join(tmp, "w2d"))
        self.nb3, self.w3 = write_neighbour_files(self.s3, 4, os.path.join(tmp, "w3d"))
        # the same list with one isolated particle (coordination number 0: its order parameters are undefined — nan)
        self.nb3iso = os.path.join(tmp, "w3d.iso.neighbor.dat")
        with open(self.nb3) as fi, open(self.nb3iso, "w") as fo:
            for line in fi:
                it = line.split()
                fo.write("2 0 \n" if it and it[0] == "2" else line)
        N2, N3 = n2, n3
        g = lambda *shape: np.array([grid(rng, -1.5, 1.5) for _ in range(int(np.prod(shape)))]).reshape(shape)
        self.scal2 = g(nf, N2) + 2.0
        self.scal3 = g(nf, N3) + 2.0
        self.bool3 = (g(nf, N3) > -0.5)
        self.bool3[:, :3] = True
        self.cplx2 = g(nf, N2) + 1j * g(nf, N2)
        self.vec2 = g(nf, N2, 2)
        self.vec3 = g(nf, N3, 3)
        self.ten2 = g(nf, N2, 2, 2)
        self.cvec3 = g(nf, N3, 3) + 1j * g(nf, N3, 3)
        self.qv2 = np.array([[1, 0], [0, 1], [1, 1], [2, 0], [0, 2]], dtype=np.int64)
        self.qv3 = np.array([[1, 0, 0], [0, 1, 0], [0, 0, 1], [1, 1, 0]], dtype=np.int64)
        # the same tables in the dtype the routines compute in (e.g. read with np.loadtxt): `astype(copy=False)` /
        # `np.asarray(x, dtype)` alias the caller's array exactly when the dtype already matches
        self.qv2f = self.qv2.astype(np.float64)
        self.qv3f = self.qv3.astype(np.float64)
        self.sigmas2 = np.array([[1.0, 1.2], [1.2, 1.4]])
        self.sig_s2 = np.array([[0.3, 0.35], [0.35, 0.4]])
        self.rcut = np.array([[1.4, 1.5], [1.5, 1.6]])
        self.ppp2 = np.array([1, 1])
        self.ppp3 = np.array([1, 1, 1])
        self.ppp0 = np.array([0, 0, 0])
        self.cluster3 = g(7, 3) * 2
        self.cluster2 = g(6, 2) * 2
        self.tri = g(3, 2) + 2.0
        self.hm2 = np.diag([4.0, 4.0])
        self.C = np.exp(-np.arange(11) * 0.3)
        self.t = np.arange(11) * 0.1
        self.gr = np.abs(g(12)) + 0.5
        self.grbins = np.arange(12) * 0.1 + 0.05
        self.evals = np.abs(g(6)) + 0.5
        self.evecs = g(6, 6)
        self.P = [np.array([0.0, 0.0]), np.array([2.0, 0.0]), np.array([2.0, 2.0]), np.array([0.0, 2.0])]
        self.R0 = np.array([1.0, 1.0])
        self.vdir = np.array([0.3, -0.7])
        self.xfit = np.linspace(0.1, 2.0, 12)
        self.yfit = 2.0 * np.exp(-1.3 * self.xfit)
        self.eps = np.array([[1.0, 1.5], [1.5, 0.5]])
        self.sig = np.array([[1.0, 0.8], [0.8, 0.88]])
        self.rc = np.array([[2.5, 2.0], [2.0, 2.2]])
        self.masses = {1: 1.0, 2: 1.0}
        self.objs = {}
        self.pristine = None

    # the arrays that every call of the session shares
    def shared(self):
        return {k: v for k, v in vars(self).items() if k not in ("spec", "tmp", "rng", "pristine")}

    def freeze(self):
        self.pristine = {p: a.copy() for p, a in walk(self.shared())}

    def restore(self):
        """put the pristine bytes back IN PLACE (sharing structure is kept)"""
        for p, a in walk(self.shared()):
            src = self.pristine.get(p)
            if src is not None and src.shape == a.shape and a.flags.writeable:
                np.copyto(a, src)

    def obj(self, key, make):
        if key not in self.objs:
            self.objs[key] = make()
        return self.objs[key]


def ffit(x, a, b):
    return a * np.exp(-b * x)


# ----------------------------------------------------------------------------- output-file specifications
# (path, kind, pick, decimals): kind ∈ csv | npy | txt ; pick(result) -> the returned object the file must hold;
# decimals = digits of the written float format (None: shortest repr, must round-trip)

class Call:
    def __init__(self, thunk, files=(), aux=()):
        self.thunk, self.files, self.aux = thunk, list(files), list(aux)


def _m(path):
    import importlib
    return importlib.import_module("PyMatterSim." + path)


def entries():
    """name -> builder(world, outbase) -> Call.  `outbase` is a fresh file-name prefix inside the scratch directory."""
    E = {}

    def reg(name):
        def deco(f):
            E.setdefault(name, []).append(f)
            return f
        return deco

    ident = lambda r: r

    # ---- shape
    @reg("static.shape.gyration_tensor")
    def _(W, o):
        return Call(lambda: _m("static.shape").gyration_tensor(W.cluster3))

    @reg("static.shape.gyration_tensor")
    def _(W, o):
        return Call(lambda: _m("static.shape").gyration_tensor(W.cluster2))

    # ---- g(r)
    for cname, (arr, ct, pp, sn) in {"bool": ("bool3", None, "ppp3", "s3"), "scalar": ("scal3", None, "ppp3", "s3"),
                                     "complex": ("cplx2", None, "ppp2", "s2"), "vector": ("vec3", "vector", "ppp3", "s3"),
                                     "cvector": ("cvec3", "vector", "ppp3", "s3"), "tensor": ("ten2", "tensor", "ppp2", "s2")}.items():
        def mk(arr=arr, ct=ct, pp=pp, sn=sn):
            def b(W, o):
                S = getattr(W, sn)
                return Call(lambda: _m("static.gr").conditional_gr(S.snapshots[1], getattr(W, arr)[1], ct, getattr(W, pp), 0.1))
            return b
        reg("static.gr.conditional_gr")(mk())

    @reg("static.gr.gr.__init__")
    def _(W, o):
        return Call(lambda: (W.objs.__setitem__("gr2", _m("static.gr").gr(W.sk[2], W.ppp3, 0.1, None)), None)[1])

    for k, meth in {1: "unary", 2: "binary", 3: "ternary", 4: "quarternary", 5: "quinary"}.items():
        def mk(k=k, meth=meth):
            def b(W, o):
                f = o + ".csv"
                return Call(lambda: getattr(_m("static.gr").gr(W.sk[k], W.ppp3, 0.1, f), meth)(), files=[(f, "csv", ident, 6)])
            return b
        reg(f"static.gr.gr.{meth}")(mk())

    @reg("static.gr.gr.getresults")
    def _(W, o):
        f = o + ".csv"
        return Call(lambda: _m("static.gr").gr(W.sk[3], W.ppp3, 0.1, f).getresults(), files=[(f, "csv", ident, 6)])

    @reg("static.gr.gr.getresults")
    def _(W, o):
        f = o + ".csv"
        return Call(lambda: _m("static.gr").gr(W.sk[1], W.ppp3, 0.1, f).getresults(), files=[(f, "csv", ident, 6)])

    @reg("static.gr.gr.getresults")
    def _(W, o):
        return Call(lambda: W.obj("gr2d", lambda: _m("static.gr").gr(W.sk2[2], W.ppp2, 0.1, None)).getresults())

    # ---- S(q)
    for cname, (arr, sn, qv) in {"bool": ("bool3", "s3", "qv3"), "scalar": ("scal3", "s3", "qv3"), "vector": ("vec2", "s2", "qv2"),
                                 "bool-f": ("bool3", "s3", "qv3f"), "scalar-f": ("scal3", "s3", "qv3f"), "vector-f": ("vec2", "s2", "qv2f")}.items():
        def mk(arr=arr, sn=sn, qv=qv):
            def b(W, o):
                return Call(lambda: _m("static.sq").conditional_sq(getattr(W, sn).snapshots[0], getattr(W, qv), getattr(W, arr)[0]))
            return b
        reg("static.sq.conditional_sq")(mk())

    @reg("static.sq.sq.__init__")
    def _(W, o):
        return Call(lambda: (W.objs.__setitem__("sq2", _m("static.sq").sq(W.sk[2], qvector=W.qv3)), None)[1])

    @reg("static.sq.sq.__init__")
    def _(W, o):
        return Call(lambda: (_m("static.sq").sq(W.sk2[1], qrange=4.0, onlypositive=True), None)[1])

    for k, meth in {1: "unary", 2: "binary", 3: "ternary", 4: "quarternary", 5: "quinary"}.items():
        def mk(k=k, meth=meth):
            def b(W, o):
                f = o + ".csv"
                return Call(lambda: getattr(_m("static.sq").sq(W.sk[k], qvector=W.qv3, saveqvectors=True, outputfile=f), meth)(),
                            files=[(f, "csv", ident, 6)], aux=[o + "_qvectors.csv"])
            return b
        reg(f"static.sq.sq.{meth}")(mk())

    @reg("static.sq.sq.getresults")
    def _(W, o):
        f = o + ".csv"
        return Call(lambda: _m("static.sq").sq(W.sk[2], qvector=W.qv3, outputfile=f).getresults(), files=[(f, "csv", ident, 6)])

    @reg("static.sq.sq.getresults")
    def _(W, o):
        f = o + ".csv"
        return Call(lambda: _m("static.sq").sq(W.sk[2], qvector=W.qv3f, outputfile=f).getresults(), files=[(f, "csv", ident, 6)])

    # the default wave-vector set, the same system and range with each `onlypositive` option: results of one option must not
    # depend on which of the others was computed before it (state shared between calls / objects)
    for op in (False, True, "x"):
        def mk(op=op):
            def b(W, o):
                f = o + ".csv"
                return Call(lambda: _m("static.sq").sq(W.sk[2], qrange=4.5, onlypositive=op, outputfile=f).getresults(), files=[(f, "csv", ident, 6)])
            return b
        reg("static.sq.sq.getresults")(mk())
        def mk2(op=op):
            def b(W, o):
                f = o + ".csv"
                return Call(lambda: _m("static.sq").sq(W.sk2[2], qrange=5.0, onlypositive=op, outputfile=f).getresults(), files=[(f, "csv", ident, 6)])
            return b
        reg("static.sq.sq.getresults")(mk2())

    # ---- BOO 3D
    def boo3(W, weights=False):
        return W.obj("boo3w" if weights else "boo3", lambda: _m("static.boo").boo_3d(W.s3, 4, W.nb3, W.w3 if weights else None, W.ppp3, 10))

    @reg("static.boo.boo_3d.__init__")
    def _(W, o):
        return Call(lambda: (_m("static.boo").boo_3d(W.s3, 6, W.nb3, None, W.ppp3, 10), None)[1])

    @reg("static.boo.boo_3d.__init__")
    def _(W, o):
        return Call(lambda: (_m("static.boo").boo_3d(W.s3, 2, W.nb3, W.w3, W.ppp3, 10), None)[1])

    @reg("static.boo.boo_3d.qlm_Qlm")
    def _(W, o):
        return Call(lambda: boo3(W).qlm_Qlm())

    @reg("static.boo.boo_3d.qlm_Qlm")
    def _(W, o):
        return Call(lambda: boo3(W, True).qlm_Qlm())

    @reg("static.boo.boo_3d.ql_Ql")
    def _(W, o):
        f = o + ".npy"
        return Call(lambda: boo3(W).ql_Ql(False, f), files=[(f, "npy", ident, None)])

    @reg("static.boo.boo_3d.ql_Ql")
    def _(W, o):
        f = o + ".dat"
        return Call(lambda: boo3(W).ql_Ql(True, f), files=[(f + ".npy", "npy", ident, None), (f, "txt", ident, 6)])

    @reg("static.boo.boo_3d.sij_ql_Ql")
    def _(W, o):
        f, g = o + ".sij.dat", o + ".qlql.csv"
        return Call(lambda: boo3(W).sij_ql_Ql(False, 0.7, g, f), files=[(f, "txt1", ident, 6)], aux=[g])

    @reg("static.boo.boo_3d.w_W_cap")
    def _(W, o):
        f, g = o + ".w.npy", o + ".wcap.npy"
        return Call(lambda: boo3(W).w_W_cap(False, f, g), files=[(f, "npy", lambda r: r[0], None), (g, "npy", lambda r: r[1], None)])

    @reg("static.boo.boo_3d.spatial_corr")
    def _(W, o):
        f = o + ".csv"
        return Call(lambda: boo3(W).spatial_corr(False, 0.1, f), files=[(f, "csv", ident, 8)])

    @reg("static.boo.boo_3d.time_corr")
    def _(W, o):
        f = o + ".csv"
        return Call(lambda: boo3(W).time_corr(True, 0.002, f), files=[(f, "csv", ident, 8)])

    def boo3iso(W):
        return W.obj("boo3iso", lambda: _m("static.boo").boo_3d(W.s3, 4, W.nb3iso, None, W.ppp3, 10))

    @reg("static.boo.boo_3d.ql_Ql")
    def _(W, o):       # a particle without neighbours: undefined (nan) entries must reach the text file as such
        f = o + ".dat"
        return Call(lambda: boo3iso(W).ql_Ql(False, f), files=[(f + ".npy", "npy", ident, None), (f, "txt", ident, 6)])

    @reg("static.boo.boo_3d.w_W_cap")
    def _(W, o):
        f, g = o + ".w.dat", o + ".wcap.dat"
        return Call(lambda: boo3iso(W).w_W_cap(False, f, g), files=[(f, "txt", lambda r: r[0], 6), (g, "txt", lambda r: r[1], 6)])

    # the other value of every boolean option (a branch that keeps or rewrites state may sit behind either one)
    @reg("static.boo.boo_3d.time_corr")
    def _(W, o):
        f = o + ".csv"
        return Call(lambda: boo3(W).time_corr(False, 0.002, f), files=[(f, "csv", ident, 8)])

    @reg("static.boo.boo_3d.spatial_corr")
    def _(W, o):
        f = o + ".csv"
        return Call(lambda: boo3(W).spatial_corr(True, 0.1, f), files=[(f, "csv", ident, 8)])

    @reg("static.boo.boo_3d.sij_ql_Ql")
    def _(W, o):
        f, g = o + ".sij.dat", o + ".qlql.csv"
        return Call(lambda: boo3(W).sij_ql_Ql(True, 0.6, g, f), files=[(f, "txt1", ident, 6)], aux=[g])

    @reg("static.boo.boo_3d.w_W_cap")
    def _(W, o):
        f, g = o + ".w.npy", o + ".wcap.npy"
        return Call(lambda: boo3(W).w_W_cap(True, f, g), files=[(f, "npy", lambda r: r[0], None), (g, "npy", lambda r: r[1], None)])

    # ---- BOO 2D
    def boo2(W, weights=False):
        return W.obj("boo2w" if weights else "boo2", lambda: _m("static.boo").boo_2d(W.s2, 6, W.nb2, W.w2 if weights else "", W.ppp2, 10))

    @reg("static.boo.boo_2d.__init__")
    def _(W, o):
        f = o + ".phi.npy"
        return Call(lambda: (_m("static.boo").boo_2d(W.s2, 6, W.nb2, W.w2, W.ppp2, 10, f), None)[1], aux=[f])

    @reg("static.boo.boo_2d.lthorder")
    def _(W, o):
        f = o + ".npy"
        return Call(lambda: boo2(W).lthorder(f), files=[(f, "npy", ident, None)])

    @reg("static.boo.boo_2d.lthorder")
    def _(W, o):
        return Call(lambda: boo2(W, True).lthorder())

    @reg("static.boo.boo_2d.time_average")
    def _(W, o):
        f = o + ".npy"
        return Call(lambda: boo2(W).time_average(0.02, 0.002, True, f),
                    files=[(f, "npy", lambda r: r[0], None), (f + ".snapshot_id.dat", "txt1", lambda r: r[1], 0)])

    @reg("static.boo.boo_2d.time_average")
    def _(W, o):
        return Call(lambda: boo2(W).time_average(0.02, 0.002, False))

    # the two options together: the file must hold what is returned for either way of averaging
    @reg("static.boo.boo_2d.time_average")
    def _(W, o):
        f = o + ".npy"
        return Call(lambda: boo2(W).time_average(0.02, 0.002, False, f),
                    files=[(f, "npy", lambda r: r[0], None), (f + ".snapshot_id.dat", "txt1", lambda r: r[1], 0)])

    @reg("static.boo.boo_2d.spatial_corr")
    def _(W, o):
        f = o + ".csv"
        return Call(lambda: boo2(W).spatial_corr(0.1, f), files=[(f, "csv", ident, 8)])

    @reg("static.boo.boo_2d.time_corr")
    def _(W, o):
        f = o + ".csv"
        return Call(lambda: boo2(W).time_corr(0.002, f), files=[(f, "csv", ident, 8)])

    # ---- vector
    V = lambda: _m("static.vector")

    @reg("static.vector.participation_ratio")
    def _(W, o):
        return Call(lambda: V().participation_ratio(W.vec3[0]))

    @reg("static.vector.local_vector_alignment")
    def _(W, o):
        return Call(lambda: V().local_vector_alignment(W.vec3[0], W.nb3))

    @reg("static.vector.phase_quotient")
    def _(W, o):
        return Call(lambda: V().phase_quotient(W.vec2[0], W.nb2))

    @reg("static.vector.divergence_curl")
    def _(W, o):
        return Call(lambda: V().divergence_curl(W.s3.snapshots[0], W.vec3[0], W.ppp3, W.nb3))

    @reg("static.vector.divergence_curl")
    def _(W, o):
        return Call(lambda: V().divergence_curl(W.s2.snapshots[0], W.vec2[0], W.ppp2, W.nb2))

    @reg("static.vector.vibrability")
    def _(W, o):
        f = o + ".npy"
        return Call(lambda: V().vibrability(W.evals, W.evecs, 3, f), files=[(f, "npy", ident, None)])

    @reg("static.vector.vector_decomposition_sq")
    def _(W, o):
        f = o + ".csv"
        return Call(lambda: V().vector_decomposition_sq(W.s2.snapshots[0], W.qv2, W.vec2[0], f), files=[(f, "csv", lambda r: r[1], 8)])

    @reg("static.vector.vector_fft_corr")
    def _(W, o):
        return Call(lambda: V().vector_fft_corr(W.s2, W.qv2, W.vec2, 0.002, o), aux=[o + ".spectra.csv"])

    @reg("static.vector.vector_decomposition_sq")
    def _(W, o):
        f = o + ".csv"
        return Call(lambda: V().vector_decomposition_sq(W.s2.snapshots[0], W.qv2f, W.vec2[0], f), files=[(f, "csv", lambda r: r[1], 8)])

    @reg("static.vector.vector_fft_corr")
    def _(W, o):
        return Call(lambda: V().vector_fft_corr(W.s2, W.qv2f, W.vec2, 0.002, o), aux=[o + ".spectra.csv"])

    # ---- geometric
    @reg("static.geometric.packing_capability_2d")
    def _(W, o):
        f = o + ".npy"
        return Call(lambda: _m("static.geometric").packing_capability_2d(W.s2, W.sigmas2, W.nb2, W.ppp2, f), files=[(f, "npy", ident, None)])

    @reg("static.geometric.q8_tetrahedral")
    def _(W, o):
        f = o + ".npy"
        return Call(lambda: _m("static.geometric").q8_tetrahedral(W.s3, W.ppp3, f), files=[(f, "npy", ident, None)])

    # ---- nematic
    def nem(W):
        def make():
            x = _m("static.nematic").NematicOrder(W.orient, W.s2)
            x.tensor(2, "", 30, False, os.path.join(W.tmp, "nem-init"))
            return x
        return W.obj("nem", make)

    @reg("static.nematic.NematicOrder.__init__")
    def _(W, o):
        return Call(lambda: (_m("static.nematic").NematicOrder(W.orient, W.s2), None)[1])

    @reg("static.nematic.NematicOrder.tensor")
    def _(W, o):
        return Call(lambda: nem(W).tensor(2, "", 30, False, o), files=[(o + ".Qtrace.npy", "npy", ident, None)], aux=[o + ".QIJ_raw.npy"])

    @reg("static.nematic.NematicOrder.tensor")
    def _(W, o):
        return Call(lambda: _m("static.nematic").NematicOrder(W.orient, W.s2).tensor(2, W.nb2, 10, True, o),
                    files=[(o + ".eigval.npy", "npy", ident, None)], aux=[o + ".QIJ_cg.npy"])

    @reg("static.nematic.NematicOrder.spatial_corr")
    def _(W, o):
        f = o + ".csv"
        return Call(lambda: nem(W).spatial_corr(0.1, W.ppp2, f), files=[(f, "csv", ident, 8)])

    @reg("static.nematic.NematicOrder.time_corr")
    def _(W, o):
        f = o + ".csv"
        return Call(lambda: nem(W).time_corr(0.002, f), files=[(f, "csv", ident, 8)])

    # ---- pair entropy
    PE = lambda: _m("static.pairentropy")

    @reg("static.pairentropy.s2_integral")
    def _(W, o):
        return Call(lambda: PE().s2_integral(W.gr, W.grbins, 3))

    def s2obj(W):
        def make():
            x = PE().S2(W.s3, W.sig_s2, W.ppp3, 0.05, 30)
            x.particle_s2()
            return x
        return W.obj("s2", make)

    @reg("static.pairentropy.S2.__init__")
    def _(W, o):
        return Call(lambda: (PE().S2(W.s3, W.sig_s2, W.ppp3, 0.05, 30), None)[1])

    @reg("static.pairentropy.S2.particle_s2")
    def _(W, o):
        f = o + ".npy"
        return Call(lambda: s2obj(W).particle_s2(False, f), files=[(f, "npy", ident, None)])

    @reg("static.pairentropy.S2.spatial_corr")
    def _(W, o):
        f = o + ".csv"
        return Call(lambda: s2obj(W).spatial_corr(False, f), files=[(f, "csv", ident, 8)])

    @reg("static.pairentropy.S2.spatial_corr")
    def _(W, o):       # the other value of the option
        f = o + ".csv"
        return Call(lambda: s2obj(W).spatial_corr(True, f), files=[(f, "csv", ident, 8)])

    @reg("static.pairentropy.S2.particle_s2")
    def _(W, o):       # the other value of the option
        f = o + ".npy"
        return Call(lambda: s2obj(W).particle_s2(True, f), files=[(f, "npy", ident, None)])

    @reg("static.pairentropy.S2.time_corr")
    def _(W, o):
        f = o + ".csv"
        return Call(lambda: s2obj(W).time_corr(0.002, f), files=[(f, "csv", ident, 6)])

    # ---- hessians
    H = lambda: _m("static.hessians")

    @reg("static.hessians.PairInteractions.__init__")
    def _(W, o):
        return Call(lambda: (H().PairInteractions(1.1, 1.0, 1.0, 2.5, True), None)[1])

    for mname, args in {"lennard_jones": (), "inverse_power_law": (12.0, 1.0), "harmonic_hertz": (2.5,)}.items():
        def mk(mname=mname, args=args):
            def b(W, o):
                return Call(lambda: getattr(H().PairInteractions(0.9, 1.0, 1.0, 2.5, True), mname)(*args))
            return b
        reg(f"static.hessians.PairInteractions.{mname}")(mk())

    @reg("static.hessians.PairInteractions.caller")
    def _(W, o):
        return Call(lambda: H().PairInteractions(0.9, 1.0, 1.0, 2.5, True).caller(H().InteractionParams(H().ModelName.inverse_power_law, 10, 1.0)))

    def hes(W):
        return W.obj("hes", lambda: H().HessianMatrix(W.s3.snapshots[0], W.masses, W.eps, W.sig, W.rc, W.ppp3, True))

    @reg("static.hessians.HessianMatrix.__init__")
    def _(W, o):
        return Call(lambda: (H().HessianMatrix(W.s3.snapshots[0], W.masses, W.eps, W.sig, W.rc, W.ppp3, True), None)[1])

    @reg("static.hessians.HessianMatrix.pair_matrix")
    def _(W, o):
        return Call(lambda: hes(W).pair_matrix(W.cluster3[0], [0.5, 0.1, 2.0]))

    @reg("static.hessians.HessianMatrix.diagonalize_hessian")
    def _(W, o):
        return Call(lambda: hes(W).diagonalize_hessian(H().InteractionParams(H().ModelName.lennard_jones), True, True, o),
                    aux=[o + ".hessianmatrix.npy", o + ".omega_PR.csv"])

    # ---- dynamics
    D = lambda: _m("dynamic.dynamics")

    @reg("dynamic.dynamics.cage_relative")
    def _(W, o):
        def run():
            from PyMatterSim.neighbors.read_neighbors import read_neighbors
            with open(W.nb3) as f:
                cn = read_neighbors(f, W.s3.snapshots[0].nparticle, 10)
            return D().cage_relative(W.vec3[0], cn)
        return Call(run)

    def dyn(W, kind):
        mk = {"xu": lambda: D().Dynamics(xu_snapshots=W.s3, dt=0.002, ppp=W.ppp0, a=0.3, cal_type="slow"),
              "x": lambda: D().Dynamics(x_snapshots=W.s3, dt=0.002, ppp=W.ppp3, a=0.3, cal_type="slow", neighborfile=W.nb3, max_neighbors=10),
              "xf": lambda: D().Dynamics(x_snapshots=W.s3, dt=0.002, ppp=W.ppp3, a=0.05, cal_type="fast"),
              "logx": lambda: D().LogDynamics(x_snapshots=W.s3, dt=0.002, ppp=W.ppp3, a=0.3, cal_type="slow"),
              "logn": lambda: D().LogDynamics(xu_snapshots=W.s3, dt=0.002, ppp=W.ppp0, a=0.3, cal_type="fast", neighborfile=W.nb3, max_neighbors=10)}[kind]
        return W.obj("dyn" + kind, mk)

    @reg("dynamic.dynamics.Dynamics.__init__")
    def _(W, o):
        return Call(lambda: (D().Dynamics(x_snapshots=W.s3, dt=0.002, ppp=W.ppp3, neighborfile=W.nb3, max_neighbors=10), None)[1])

    @reg("dynamic.dynamics.Dynamics.__init__")
    def _(W, o):
        return Call(lambda: (D().Dynamics(xu_snapshots=W.s3, x_snapshots=W.s3, dt=0.002, ppp=W.ppp0), None)[1])

    for kind in ("xu", "x", "xf"):
        def mk(kind=kind):
            def b(W, o):
                f = o + ".csv"
                return Call(lambda: dyn(W, kind).relaxation(2 * np.pi, None, f), files=[(f, "csv", ident, None)])
            return b
        reg("dynamic.dynamics.Dynamics.relaxation")(mk())

    @reg("dynamic.dynamics.Dynamics.relaxation")
    def _(W, o):
        return Call(lambda: dyn(W, "xu").relaxation(6.0, W.bool3))

    @reg("dynamic.dynamics.Dynamics.sq4")
    def _(W, o):
        f = o + ".csv"
        return Call(lambda: dyn(W, "x").sq4(0.02, 5.0, None, f), files=[(f, "csv", ident, None)])

    @reg("dynamic.dynamics.Dynamics.sq4")
    def _(W, o):
        return Call(lambda: dyn(W, "xu").sq4(0.02, 5.0, W.bool3))

    @reg("dynamic.dynamics.LogDynamics.__init__")
    def _(W, o):
        return Call(lambda: (D().LogDynamics(x_snapshots=W.s3, dt=0.002, ppp=W.ppp3, neighborfile=W.nb3, max_neighbors=10), None)[1])

    for kind in ("logx", "logn"):
        def mk(kind=kind):
            def b(W, o):
                f = o + ".csv"
                return Call(lambda: dyn(W, kind).relaxation(2 * np.pi, None, f), files=[(f, "csv", ident, None)])
            return b
        reg("dynamic.dynamics.LogDynamics.relaxation")(mk())

    @reg("dynamic.dynamics.LogDynamics.relaxation")
    def _(W, o):
        return Call(lambda: dyn(W, "logx").relaxation(6.0, W.bool3[0]))

    for arr, sn in (("cplx2", "s2"), ("vec3", "s3"), ("ten2", "s2")):
        def mk(arr=arr, sn=sn):
            def b(W, o):
                f = o + ".csv"
                return Call(lambda: _m("dynamic.time_corr").time_correlation(getattr(W, sn), getattr(W, arr), 0.002, f), files=[(f, "csv", ident, 8)])
            return b
        reg("dynamic.time_corr.time_correlation")(mk())

    # ---- coarse graining
    CG = lambda: _m("utils.coarse_graining")

    @reg("utils.coarse_graining.time_average")
    def _(W, o):
        return Call(lambda: CG().time_average(W.s2, W.cplx2, 0.04, 0.002))

    @reg("utils.coarse_graining.spatial_average")
    def _(W, o):
        f = o + ".npy"
        return Call(lambda: CG().spatial_average(W.scal2, W.nb2, 10, f), files=[(f, "npy", ident, None)])

    @reg("utils.coarse_graining.spatial_average")
    def _(W, o):
        return Call(lambda: CG().spatial_average(W.ten2, W.nb2, 10))

    for arr, sn, ng, pp in (("scal2", "s2", [3, 3], "ppp2"), ("vec3", "s3", [2, 2, 2], "ppp3"), ("ten2", "s2", [2, 2], "ppp2")):
        def mk(arr=arr, sn=sn, ng=ng, pp=pp):
            def b(W, o):
                ngr = W.obj("ng" + arr, lambda: np.array(ng))
                return Call(lambda: CG().gaussian_blurring(getattr(W, sn), getattr(W, arr), ngr, 1.0, getattr(W, pp), 3.0, o),
                            files=[(o + "_positions.npy", "npy", lambda r: r[0], None), (o + "_properties.npy", "npy", lambda r: r[1], None)])
            return b
        reg("utils.coarse_graining.gaussian_blurring")(mk())

    # a short cutoff on a fine grid: most grid points have no particle within range (their value is the initial 0 — an entry the
    # loop never assigns must not depend on what the allocation returned)
    @reg("utils.coarse_graining.gaussian_blurring")
    def _(W, o):
        ngr = W.obj("ngdilute", lambda: np.array([5, 5]))
        return Call(lambda: CG().gaussian_blurring(W.s2, W.scal2, ngr, 0.2, W.ppp2, 0.3, o),
                    files=[(o + "_positions.npy", "npy", lambda r: r[0], None), (o + "_properties.npy", "npy", lambda r: r[1], None)])

    # ---- small utilities
    F = lambda: _m("utils.funcs")
    for nm, args in {"kronecker": (1, 1), "nidealfac": (2,), "areafac": (3,), "alpha2factor": (2,), "Wignerindex": (2,), "Legendre_polynomials": (0.3, 3)}.items():
        def mk(nm=nm, args=args):
            def b(W, o):
                return Call(lambda: getattr(F(), nm)(*args))
            return b
        reg(f"utils.funcs.{nm}")(mk())

    @reg("utils.funcs.moment_of_inertia")
    def _(W, o):
        return Call(lambda: F().moment_of_inertia(W.cluster3, 1, False))

    @reg("utils.funcs.moment_of_inertia")
    def _(W, o):
        return Call(lambda: F().moment_of_inertia(W.cluster3, 2, True))

    @reg("utils.funcs.grid_gaussian")
    def _(W, o):
        return Call(lambda: F().grid_gaussian(W.scal2[0], 0.7))

    @reg("utils.fft.Filon_COS")
    def _(W, o):
        f = o + ".csv"
        return Call(lambda: _m("utils.fft").Filon_COS(W.C, W.t, 0, f), files=[(f, "csv", ident, 6)])

    @reg("utils.fft.Filon_COS")
    def _(W, o):
        return Call(lambda: _m("utils.fft").Filon_COS(W.C[:10], W.t[:10], 0.5))

    G = lambda: _m("utils.geometry")

    @reg("utils.geometry.triangle_area")
    def _(W, o):
        return Call(lambda: G().triangle_area(W.tri, W.hm2, W.ppp2))

    @reg("utils.geometry.triangle_angle")
    def _(W, o):
        return Call(lambda: G().triangle_angle(1.0, 1.2, 0.9))

    @reg("utils.geometry.lines_intersection")
    def _(W, o):
        return Call(lambda: G().lines_intersection(W.P[0], W.P[2], W.P[1], W.P[3]))

    @reg("utils.geometry.LineWithinSquare")
    def _(W, o):
        return Call(lambda: G().LineWithinSquare(W.P[0], W.P[1], W.P[2], W.P[3], W.R0, W.vdir))

    @reg("utils.pbc.remove_pbc")
    def _(W, o):
        return Call(lambda: _m("utils.pbc").remove_pbc(W.vec3[0] * 2, W.s3.snapshots[0].hmatrix, W.ppp3))

    @reg("utils.pbc.remove_pbc")
    def _(W, o):
        return Call(lambda: _m("utils.pbc").remove_pbc(W.vec3[0][0] * 3, W.s3.snapshots[0].hmatrix))     # default ppp (shared default object)

    WV = lambda: _m("utils.wavevector")
    for nm, args in {"wavevector3d": (12,), "wavevector2d": (12,), "choosewavevector": (3, 6, False), "continuousvector": (2, 8, True)}.items():
        def mk(nm=nm, args=args):
            def b(W, o):
                return Call(lambda: getattr(WV(), nm)(*args))
            return b
        reg(f"utils.wavevector.{nm}")(mk())

    @reg("utils.wavevector.choosewavevector")
    def _(W, o):
        return Call(lambda: WV().choosewavevector(2, 8, "x"))

    @reg("utils.fitting.fits")
    def _(W, o):
        return Call(lambda: _m("utils.fitting").fits(ffit, W.xfit, W.yfit, 0, 0, [1.0, 1.0]))

    # ---- neighbours
    CN = lambda: _m("neighbors.calculate_neighbors")

    @reg("neighbors.calculate_neighbors.Nnearests")
    def _(W, o):
        f = o + ".nn.dat"
        return Call(lambda: CN().Nnearests(W.s3, 4, W.ppp3, f), aux=[f])

    @reg("neighbors.calculate_neighbors.Nnearests")
    def _(W, o):
        f = o + ".nn.dat"
        return Call(lambda: CN().Nnearests(W.s2, 3, W.ppp2, f), aux=[f])

    @reg("neighbors.calculate_neighbors.cutoffneighbors")
    def _(W, o):
        f = o + ".cut.dat"
        return Call(lambda: CN().cutoffneighbors(W.s3, 1.3, W.ppp3, f), aux=[f])

    @reg("neighbors.calculate_neighbors.cutoffneighbors_particletype")
    def _(W, o):
        f = o + ".cutt.dat"
        return Call(lambda: CN().cutoffneighbors_particletype(W.s3, W.rcut, W.ppp3, f), aux=[f])

    FN = lambda: _m("neighbors.freud_neighbors")

    @reg("neighbors.freud_neighbors.convert_configuration")
    def _(W, o):
        return Call(lambda: FN().convert_configuration(W.s3))

    @reg("neighbors.freud_neighbors.convert_configuration")
    def _(W, o):
        return Call(lambda: FN().convert_configuration(W.s2))

    @reg("neighbors.freud_neighbors.cal_neighbors")
    def _(W, o):
        return Call(lambda: FN().cal_neighbors(W.s3, o), aux=[o + ".neighbor.dat", o + ".facearea.dat", o + ".overall.dat"])

    @reg("neighbors.freud_neighbors.cal_neighbors")
    def _(W, o):
        return Call(lambda: FN().cal_neighbors(W.s2, o), aux=[o + ".neighbor.dat", o + ".edgelength.dat", o + ".overall.dat"])

    @reg("neighbors.freud_neighbors.VolumeMatrix")
    def _(W, o):
        f = o + ".npy"
        return Call(lambda: FN().VolumeMatrix(W.s3, 3, 0, 0.01, True, f), files=[(f, "npy", ident, None)])

    @reg("neighbors.freud_neighbors.VolumeMatrix")
    def _(W, o):
        return Call(lambda: FN().VolumeMatrix(W.s2, 2, 0, 0.01, False, ""))

    return E
