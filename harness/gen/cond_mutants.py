"""Self-made mutants for C13 (builder of the check).  For each: apply to the repo worktree ($PMS_REPO), save the diff, run
the demo and the check, replay on the mutant, revert, replay on the clean tree, write seeded/C13-<id>/{patch.diff,demo.py,
meta.json,<replays>}.  The repository's own conditional tests are run on a scratch copy (slow) with --tests.
usage: PMS_REPO=/root/work/repo-C13 /venv/bin/python harness/gen/cond_mutants.py [--tests] [ids…]"""
import json
import os
import shutil
import subprocess
import sys
import tempfile

VERIF = os.path.dirname(os.path.dirname(os.path.dirname(os.path.abspath(__file__))))
REPO = os.environ["PMS_REPO"]
GR, SQ = "PyMatterSim/static/gr.py", "PyMatterSim/static/sq.py"
MUTANTS = [
    ("a", GR, "complex branch copies instead of conjugating: conj_condition = condition.copy() under np.iscomplexobj (no test passes a complex field)",
     '            "Calculate spatial correlation gA of complex-number physical quantity \'A\'")\n        conj_condition = np.conj(condition)',
     '            "Calculate spatial correlation gA of complex-number physical quantity \'A\'")\n        conj_condition = condition.copy()'),
    ("b", GR, "tensor weight uses the element-wise product: np.trace(condition[i] * conj_condition[j+i+1]) instead of np.matmul (tensor branch is unexecuted by the tests)",
     "np.matmul(condition[i], conj_condition[j + i + 1]))", "condition[i] * conj_condition[j + i + 1])"),
    ("c", GR, "normalised variant: mean_square and square_mean swapped (gA_norm is asserted by no test)",
     "        mean_square = np.square(condition.mean())\n        square_mean = np.square(condition).mean()",
     "        mean_square = np.square(condition).mean()\n        square_mean = np.square(condition.mean())"),
    ("d", GR, "scalar loop multiplies the real parts only: (condition[i+1:].real * conj_condition[i].real) — identical for real fields, drops Im·Im for complex ones",
     "            SIJ = (condition[i + 1:] * conj_condition[i]).real\n", "            SIJ = condition[i + 1:].real * conj_condition[i].real\n"),
    ("e", GR, "vector branch copies instead of conjugating (identical for the real vector field of the golden test, wrong for a complex64/int… no: for complex vectors of dtype other than complex128)",
     '                "Calculate spatial correlation gA of vector-type physical quantity \'A\'")\n            conj_condition = np.conj(condition)',
     '                "Calculate spatial correlation gA of vector-type physical quantity \'A\'")\n            conj_condition = condition.copy()'),
    ("f", SQ, "conditional_sq scalar branch divides the amplitude by N instead of sqrt(N) (only the boolean branch is tested)",
     "            exp_thetas += np.exp(-1j * thetas) * condition[i]\n        exp_thetas /= sqrt(snapshot.nparticle)",
     "            exp_thetas += np.exp(-1j * thetas) * condition[i]\n        exp_thetas /= snapshot.nparticle"),
    ("g", SQ, "conditional_sq vector branch squares without conjugating: (exp_thetas * exp_thetas).sum(axis=1).real (vector branch is unexecuted by the tests)",
     "(exp_thetas * np.conj(exp_thetas)).sum(axis=1).real", "(exp_thetas * exp_thetas).sum(axis=1).real"),
    ("h", SQ, "conditional_sq scalar branch uses exp(+i q·r): same |·|² for a real field, different for a complex one",
     "exp_thetas += np.exp(-1j * thetas) * condition[i]", "exp_thetas += np.exp(1j * thetas) * condition[i]"),
    ("i", GR, "HARMLESS rewrite: vector SIJ takes .real before .sum(axis=1) (same numbers; the translator no longer recognises the shape)",
     "[np.newaxis, :]).sum(axis=1).real", "[np.newaxis, :]).real.sum(axis=1)"),
    ("j", GR, "gA normalised with the total density: second `rhototal = Natom / …` uses snapshot.nparticle (only matters for a boolean selection; NOT test-neutral: the gr22 comparison of gr_test fails)",
     "    rhototal = Natom / np.prod(snapshot.boxlength)", "    rhototal = snapshot.nparticle / np.prod(snapshot.boxlength)"),
    ("k", GR, "original defect re-introduced: complex test on dtype == 'complex128' only",
     "    elif np.iscomplexobj(condition):", '    elif condition.dtype == "complex128":'),
]


def sh(cmd, cwd=None, env=None, timeout=3000):
    e = dict(os.environ)
    e.update(env or {})
    p = subprocess.run(cmd, cwd=cwd, env=e, capture_output=True, text=True, timeout=timeout, shell=isinstance(cmd, str))
    return p.returncode, (p.stdout + p.stderr)


def clean():
    rc, out = sh(["git", "-C", REPO, "status", "--porcelain", "--untracked-files=no"])
    return out.strip() == ""


def run_tests(tree):
    rc, out = sh(["/venv/bin/python", "-m", "pytest", "-q", "-p", "no:cacheprovider", "tests/static/gr_test.py", "tests/static/sq_test.py",
                  "-k", "condition"], cwd=tree)
    return [l for l in out.strip().splitlines() if l.startswith("FAILED") or " passed" in l or " failed" in l][-4:]


def main():
    args = [a for a in sys.argv[1:] if not a.startswith("--")]
    with_tests = "--tests" in sys.argv
    assert clean(), "repo worktree not clean"
    base_tests = None
    if with_tests:
        base_tests = run_tests(REPO)
    for mid, rel, change, old, new in MUTANTS:
        if args and mid not in args:
            continue
        sid = f"C13-{mid}"
        out = os.path.join(VERIF, "seeded", sid)
        os.makedirs(out, exist_ok=True)
        path = os.path.join(REPO, rel)
        src = open(path).read()
        assert src.count(old) == 1, (mid, src.count(old))
        meta = {"seed_id": sid, "property": "C13", "change": change, "file": rel, "ran": []}
        rc, o = sh(["/venv/bin/python", os.path.join(VERIF, "harness/gen/cond_demo.py")], env={"PYTHONPATH": REPO})
        meta["ran"].append({"cmd": "demo on clean tree", "rc": rc, "tail": o.strip().splitlines()[-1][:300]})
        if base_tests is not None:
            meta["ran"].append({"cmd": "tests on clean tree: tests/static/gr_test.py tests/static/sq_test.py -k condition", "tail": base_tests})
        try:
            open(path, "w").write(src.replace(old, new))
            _, diff = sh(["git", "-C", REPO, "diff"])
            open(os.path.join(out, "patch.diff"), "w").write(diff)
            shutil.copy(os.path.join(VERIF, "harness/gen/cond_demo.py"), os.path.join(out, "demo.py"))
            rc, o = sh(["/venv/bin/python", os.path.join(VERIF, "harness/gen/cond_demo.py")], env={"PYTHONPATH": REPO})
            meta["ran"].append({"cmd": "demo with patch", "rc": rc, "tail": o.strip().splitlines()[-1][:400]})
            meta["confirmed"] = rc == 1
            if with_tests:
                t = run_tests(REPO)
                meta["ran"].append({"cmd": "tests with patch", "tail": t})
                meta["tests_same"] = t == base_tests
            shutil.rmtree(os.path.join(VERIF, "replays"), ignore_errors=True)
            rc, o = sh(["./check", "C13", "--tier", "quick"], cwd=VERIF)
            lines = [l for l in o.splitlines() if l.startswith("VIOLATION") or l.startswith("  ->") or l.startswith("KNOWN") or l.startswith("INFRA")]
            meta["check"] = {"cmd": f"PMS_REPO={REPO} ./check C13 --tier quick", "rc": rc, "lines": [l[:400] for l in lines]}
            reps = sorted(os.listdir(os.path.join(VERIF, "replays"))) if os.path.isdir(os.path.join(VERIF, "replays")) else []
            meta["replay_on_mutant"] = []
            for r in reps:
                shutil.copy(os.path.join(VERIF, "replays", r), os.path.join(out, r))
                _, o2 = sh(["./check", "C13", "--replay", os.path.join("seeded", sid, r)], cwd=VERIF)
                meta["replay_on_mutant"].append(o2.strip().splitlines()[-1][:200])
        finally:
            open(path, "w").write(src)
        assert clean()
        meta["replay_on_clean"] = []
        for r in reps:
            _, o2 = sh(["./check", "C13", "--replay", os.path.join("seeded", sid, r)], cwd=VERIF)
            meta["replay_on_clean"].append(o2.strip().splitlines()[-1][:200])
        meta["caught"] = meta["check"]["rc"] == 1
        meta["with_failing_input"] = meta["caught"] and not any("no-failing-input-found" in l for l in lines) \
            and all(x.startswith("REPRODUCED") for x in meta["replay_on_mutant"]) and all(x.startswith("NOT-REPRODUCED") for x in meta["replay_on_clean"])
        meta["author"] = "builder of the check (self-made mutant)"
        json.dump(meta, open(os.path.join(out, "meta.json"), "w"), indent=1)
        print(sid, "caught" if meta["caught"] else "MISSED", "failing-input" if meta["with_failing_input"] else "-", meta["check"]["lines"][:3])
    shutil.rmtree(os.path.join(VERIF, "replays"), ignore_errors=True)
    # leave the generated file in its clean-tree state
    sh(["./check", "C13", "--tier", "quick"], cwd=VERIF)


if __name__ == "__main__":
    main()
