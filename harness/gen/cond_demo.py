"""Demo for C13: conditional_gr / conditional_sq against a brute-force evaluation of the property statement on small
fixed inputs (all condition kinds and dtypes, 2-D triclinic and 3-D orthogonal cells, explicit wave vectors).
Run with PYTHONPATH=<pymattersim tree>.  Exit 0 if the property holds on all of them, 1 otherwise."""
import logging
import sys

import numpy as np

from PyMatterSim.reader.reader_utils import SingleSnapshot, Snapshots
from PyMatterSim.static.gr import conditional_gr, gr
from PyMatterSim.static.sq import conditional_sq, sq
from PyMatterSim.utils.pbc import remove_pbc

logging.disable(logging.CRITICAL)
rng = np.random.default_rng(13)
bad = []


def snap(N, ndim, tri, K=2):
    L = np.array([6.0, 7.0, 8.0][:ndim])
    H = np.diag(L).copy()
    if tri:
        H[1, 0] = -1.5
        if ndim == 3:
            H[2, 0], H[2, 1] = 0.7, -0.9
    types = np.array([(i % K) + 1 for i in range(N)])
    return SingleSnapshot(0, N, types, rng.random((N, ndim)) @ H, L.copy(), np.column_stack((np.zeros(ndim), L)), None, H)


def brute_gr(sn, ppp, delta, weight, n):
    N, ndim = sn.positions.shape
    maxbin = int(sn.boxlength.min() / 2 / delta)
    w = np.zeros(maxbin)
    for i in range(N):
        for j in range(N):
            if i != j:
                d = np.linalg.norm(remove_pbc((sn.positions[j] - sn.positions[i])[None], sn.hmatrix, ppp))
                k = int(d / delta)
                if k < maxbin:
                    w[k] += weight(i, j)
    e = np.arange(maxbin + 1) * delta
    shell = {3: 4 / 3, 2: 1.0}[ndim] * np.pi * (e[1:] ** ndim - e[:-1] ** ndim)
    return np.prod(sn.boxlength) / n / n * w / shell


def check(name, ok):
    if not ok:
        bad.append(name)


for ndim, tri in ((2, True), (3, False)):
    N = 12
    sn = snap(N, ndim, tri)
    ppp = np.ones(ndim, dtype=int)
    delta = 0.25
    tag = f"{ndim}D"
    try:
        full = gr(Snapshots(1, [sn]), ppp, delta).getresults()
        sel = sn.particle_type == 2
        c = conditional_gr(sn, sel, None, ppp, delta)
        check(f"gr bool = gr22 {tag}", np.allclose(c["gA"], full["gr22"]) and np.allclose(c["gr"], full["gr"]) and list(c.columns) == ["r", "gr", "gA"])
        c = conditional_gr(sn, np.ones(N), None, ppp, delta)
        check(f"gr ones = total {tag}", np.allclose(c["gA"], full["gr"]))
        for dt in (np.float64, np.float32):
            A = (rng.integers(-16, 16, N) / 8).astype(dt)
            c = conditional_gr(sn, A, None, ppp, delta)
            ref = brute_gr(sn, ppp, delta, lambda i, j: float(A[i]) * float(A[j]), N)
            Af = A.astype(float)
            m, m2 = Af.mean(), (Af ** 2).mean()
            check(f"gr real {dt.__name__} {tag}", np.allclose(c["gA"], ref) and list(c.columns) == ["r", "gr", "gA", "gA_norm"]
                  and np.allclose(c["gA_norm"], (ref - m * m) / (m2 - m * m), rtol=1e-4, atol=1e-4))
        for dt in (np.complex128, np.complex64):
            Z = ((rng.integers(-16, 16, N) + 1j * rng.integers(-16, 16, N)) / 8).astype(dt)
            c = conditional_gr(sn, Z, None, ppp, delta)
            ref = brute_gr(sn, ppp, delta, lambda i, j: (complex(Z[i]) * np.conj(complex(Z[j]))).real, N)
            check(f"gr complex {dt.__name__} {tag}", list(c.columns) == ["r", "gr", "gA"] and np.allclose(np.asarray(c["gA"], dtype=complex), ref))
        for dt in (np.float64, np.complex128):
            V = (rng.integers(-16, 16, (N, ndim)) / 8).astype(dt)
            if dt is np.complex128:
                V = V + 1j * rng.integers(-16, 16, (N, ndim)) / 8
            c = conditional_gr(sn, V, "vector", ppp, delta)
            ref = brute_gr(sn, ppp, delta, lambda i, j: np.sum(V[i] * np.conj(V[j])).real, N)
            comps = sum(conditional_gr(sn, V[:, a].copy(), None, ppp, delta)["gA"] for a in range(ndim))
            check(f"gr vector {dt.__name__} {tag}", np.allclose(np.asarray(c["gA"], dtype=complex), ref) and np.allclose(c["gA"], comps))
        T = rng.integers(-16, 16, (N, ndim, ndim)) / 8
        T = T + np.transpose(T, (0, 2, 1))
        c = conditional_gr(sn, T, "tensor", ppp, delta)
        ref = brute_gr(sn, ppp, delta, lambda i, j: np.trace(T[i] @ T[j]), N)
        check(f"gr tensor {tag}", np.allclose(c["gA"], ref))
    except Exception as e:  # noqa: BLE001
        bad.append(f"gr {tag} raised {type(e).__name__}: {e}")
    # S(q)
    try:
        sn = snap(N, ndim, False)
        qv = np.array([[1, 1, 0], [1, 0, 1], [0, 1, 1], [2, 0, 0], [0, -2, 1]])[:, :ndim]
        qv = qv[np.abs(qv).sum(axis=1) > 0]
        q = qv * (2 * np.pi / sn.boxlength)[None, :]
        ph = np.exp(-1j * (q @ sn.positions.T))

        def brute(A, n):
            A = np.asarray(A, dtype=complex).reshape(N, -1)
            return (np.abs(ph @ A) ** 2).sum(axis=1) / n
        full = sq(Snapshots(1, [sn]), qvector=qv).getresults()
        sel = sn.particle_type == 2
        a, b = conditional_sq(sn, qv, sel)
        check(f"sq bool {tag}", np.allclose(a["Sq"], brute(sel.astype(float), sel.sum()), atol=1e-7) and np.allclose(b["Sq"], full["Sq22"], atol=2e-6))
        a, b = conditional_sq(sn, qv, np.ones(N))
        check(f"sq ones {tag}", np.allclose(b["Sq"], full["Sq"], atol=2e-6))
        A = rng.integers(-16, 16, N) / 8
        a, b = conditional_sq(sn, qv, A)
        check(f"sq real {tag}", np.allclose(a["Sq"], brute(A, N), atol=1e-7))
        Z = (rng.integers(-16, 16, N) + 1j * rng.integers(-16, 16, N)) / 8
        a, b = conditional_sq(sn, qv, Z)
        check(f"sq complex {tag}", np.allclose(a["Sq"], brute(Z, N), atol=1e-7))
        V = rng.integers(-16, 16, (N, ndim)) / 8
        a, b = conditional_sq(sn, qv, V)
        comps = sum(conditional_sq(sn, qv, V[:, k].copy())[0]["Sq"] for k in range(ndim))
        check(f"sq vector {tag}", np.allclose(a["Sq"], brute(V, N), atol=1e-7) and np.allclose(a["Sq"], comps, atol=1e-6))
    except Exception as e:  # noqa: BLE001
        bad.append(f"sq {tag} raised {type(e).__name__}: {e}")

if bad:
    print("C13 violated: " + "; ".join(bad))
    sys.exit(1)
print("C13 holds on all sampled inputs")
