"""Helpers for C19 (token wire format, text rendering, frame comparison).  The token / frame wire formats are those of
C01's driver ops; these helpers are a private copy of the corresponding functions of harness/corr/C01.py so that the
two checks stay independent."""
import random
from fractions import Fraction

import common
from common import dec

STYLES = ["x", "xs", "xu"]
CNAMES = {"x": ["x", "y", "z"], "xs": ["xs", "ys", "zs"], "xu": ["xu", "yu", "zu"]}
FIELDS = ["timestep", "nparticle", "particle_type", "positions", "boxlength", "boxbounds", "realbounds", "hmatrix"]


def classify(tok):
    """what Python itself accepts the token as"""
    try:
        return ("i", int(tok))
    except ValueError:
        pass
    try:
        x = float(tok)
    except ValueError:
        return ("w", tok)
    if x != x or x in (float("inf"), float("-inf")):
        return ("w", tok)
    try:
        return ("n", Fraction(tok.replace("_", "")))
    except ValueError:
        return ("w", tok)


def wire(tok):
    k, v = tok
    if k == "i":
        return f"i{v}"
    if k == "n":
        return f"n{v.numerator}/{v.denominator}"
    return "w" + v


def unwire(s):
    if s[0] == "i":
        return ("i", int(s[1:]))
    if s[0] == "n":
        return ("n", Fraction(s[1:]))
    return ("w", s[1:])


def tokenise(text):
    """lines of classified tokens, exactly as f.readline().split() sees them"""
    lines = text.split("\n")
    if lines and lines[-1] == "":
        lines.pop()
    return [[classify(t) for t in ln.split()] for ln in lines]


def wire_lines(lines):
    return " ".join(" ".join([wire(t) for t in ln] + ["|"]) for ln in lines)


def parse_wire_lines(s):
    out, cur = [], []
    for t in s.split():
        if t == "|":
            out.append(cur)
            cur = []
        else:
            cur.append(unwire(t))
    return out


def rat2dec(v, mode, rnd):
    """exact rendering of a decimal rational as a float()-only token"""
    v = Fraction(v)
    d = v.denominator
    k = 0
    while d % 10 == 0:
        d //= 10; k += 1
    a = b = 0
    while d % 2 == 0:
        d //= 2; a += 1
    while d % 5 == 0:
        d //= 5; b += 1
    if d != 1:
        raise common.Infra(f"emitter produced a non-decimal rational {v}")
    k += max(a, b)
    m = v.numerator * 10 ** k // v.denominator
    sign = "-" if m < 0 else ""
    digs = str(abs(m))
    if mode == "sci":
        e = len(digs) - 1 - k
        mant = digs[0] + "." + (digs[1:] if len(digs) > 1 else "0") + "0" * rnd
        return f"{sign}{mant}e{'+' if e >= 0 else '-'}{abs(e):02d}"
    if k == 0:
        return sign + digs + "." + "0" * (1 + rnd)
    digs = digs.rjust(k + 1, "0")
    s = sign + digs[:-k] + "." + digs[-k:]
    if mode == "pad":
        s += "0" * rnd
    return s


def render(lines, fmt):
    """token lines → file text; number format and whitespace chosen by the case's own seed"""
    r = random.Random(fmt)
    mode = r.choice(["plain", "plain", "pad", "sci"])
    trail = r.random() < 0.3
    wide = r.random() < 0.2
    out = []
    for ln in lines:
        toks = []
        for k, v in ln:
            if k == "i":
                toks.append(str(v))
            elif k == "n":
                toks.append(rat2dec(v, mode, r.randint(0, 3)))
            else:
                toks.append(v)
        sep = " " if not wide else r.choice([" ", "  ", "\t", "   "])
        out.append(sep.join(toks) + (" " if trail else "") + "\n")
    return "".join(out)


def tok_agree(em, ft, strict):
    """emitted token vs token of the text fed to the real reader"""
    if em[0] == "w" or ft[0] == "w":
        return em == ft
    if em[1] != ft[1]:
        return False
    if strict:
        return em[0] == ft[0]
    return not (em[0] == "i" and ft[0] != "i")     # an int() position must stay int()-acceptable


def lines_agree(em, ft, strict):
    if len(em) != len(ft):
        return f"{len(em)} emitted lines vs {len(ft)} text lines"
    for i, (a, b) in enumerate(zip(em, ft)):
        if len(a) != len(b) or not all(tok_agree(x, y, strict) for x, y in zip(a, b)):
            return f"line {i}: emitted {a[:8]} vs text {b[:8]}"
    return None


def fsum(*xs):
    return str_frac(sum(Fraction(x) for x in xs))


def str_frac(v):
    return rat2dec(v, "plain", 0) if v.denominator != 1 else str(v.numerator)


def gen_frame(rng, nd, ts, big=False, force=None):
    tric = rng.random() < 0.5
    style = rng.choice(STYLES)
    if force:
        tric, style = force[0], force[1]
    lo = [dec(rng, -20, 20, rng.choice([1, 3])) for _ in range(3)]
    if rng.random() < 0.15:
        lo = ["0", "0", "0"] if rng.random() < .5 else [lo[0]] * 3
    L = [dec(rng, 2, 12, rng.choice([0, 2, 4])) for _ in range(3)]
    if nd == 2 and rng.random() < 0.7:
        lo[2], L[2] = "-0.5", "1"
    hi = [fsum(a, b) for a, b in zip(lo, L)]
    xy = xz = yz = "0"
    if tric:
        xy = dec(rng, -4, 4, 2)
        if nd == 3 or rng.random() < 0.1:
            xz, yz = dec(rng, -4, 4, 2), dec(rng, -3, 3, 2)
        if rng.random() < 0.1:
            xy = "0"
    n = rng.choice([0, 1, 1, 2, 2, 3, 3, 4, 5, 6, 8, 12]) if not big else rng.randint(20, 60)
    ids = list(range(1, n + 1))
    if rng.random() < 0.8:
        rng.shuffle(ids)
    nextra = rng.choice([0, 0, 1, 2, 3])
    names = rng.sample(["vx", "vy", "vz", "ix", "iy", "q", "c_order", "fx", "element", "mol", "xsu", "v_x", "X"], nextra)
    if nd == 2 and rng.random() < 0.4:
        names = [CNAMES[style][2]] + names
    if force:
        names = list(force[2])
    atoms = []
    for i in ids:
        c = []
        for k in range(nd):
            if style == "xs":
                c.append(rng.choice(["0", "1", "0.5"]) if rng.random() < 0.1 else dec(rng, -0.2, 1.2, 4))
            elif style == "xu":
                c.append(dec(rng, float(Fraction(lo[k]) - 3 * Fraction(L[k])), float(Fraction(hi[k]) + 3 * Fraction(L[k])), 4))
            else:
                u = rng.random()
                if u < 0.06:
                    c.append(lo[k])
                elif u < 0.12:
                    c.append(hi[k])
                elif u < 0.7 or tric:
                    c.append(dec(rng, float(Fraction(lo[k])), float(Fraction(hi[k])), 4))
                else:   # excursion of at most one box length
                    c.append(dec(rng, float(Fraction(lo[k]) - Fraction(L[k])) + 1e-3, float(Fraction(hi[k]) + Fraction(L[k])) - 1e-3, 4))
        ex = []
        for nm in names:
            u = rng.random()
            if nm == "element":
                ex.append("w" + rng.choice(["Cu", "Zr", "Al"]))
            elif u < 0.3:
                ex.append(f"i{rng.randint(-3, 3)}")
            else:
                ex.append("n" + dec(rng, -9, 9, 3))
        atoms.append({"id": i, "type": rng.randint(1, 4), "c": c, "extras": ex})
    flags = [rng.choice(["pp", "ff", "fs", "sm", "mm", "ps"]) for _ in range(3)] if rng.random() < 0.4 else ["pp", "pp", "pp"]
    if rng.random() < 0.05:
        flags = []
    return {"ts": ts, "tric": tric, "style": style, "lo": lo, "hi": hi, "xy": xy, "xz": xz, "yz": yz,
            "flags": flags, "names": names, "atoms": atoms}


def parse_result(s):
    t = s.split()
    if not t:
        raise common.Infra("empty driver result")
    if t[0] == "err":
        return ("err", {"value": "ValueError", "index": "IndexError"}[t[1]])
    pos = [2]

    def nxt():
        v = t[pos[0]]; pos[0] += 1
        return v

    def lst(conv):
        n = int(nxt())
        return [conv(nxt()) for _ in range(n)]

    def mat():
        n = int(nxt())
        return [lst(Fraction) for _ in range(n)]

    frames = []
    for _ in range(int(t[1])):
        assert nxt() == "F"
        fr = {"timestep": int(nxt()), "nparticle": int(nxt()), "particle_type": lst(int), "positions": mat(),
              "boxlength": lst(Fraction), "boxbounds": mat()}
        r = nxt()
        rb = mat()
        fr["realbounds"] = rb if r == "R1" else None
        fr["hmatrix"] = mat()
        frames.append(fr)
    return ("ok", frames)


def num_eq(a, b, exact):
    if isinstance(a, list) or isinstance(b, list):
        if not (isinstance(a, list) and isinstance(b, list)) or len(a) != len(b):
            return False
        return all(num_eq(x, y, exact) for x, y in zip(a, b))
    if a is None or b is None:
        return a is None and b is None
    if exact:
        return a == b
    return common.close(float(a), float(b), 1e-9)


def diff(real, model):
    """first difference between a real result and a model result: (field, description) or None"""
    if real[0] != model[0]:
        if real[0] == "err":
            return ("raised:" + real[1], f"real reader raised {real[1]}: {real[2]} where a result was expected")
        return ("no-error", f"real reader returned {len(real[1])} snapshots where {model[1]} was expected")
    if real[0] == "err":
        return None if real[1] == model[1] else ("raised:" + real[1], f"real raised {real[1]}, expected {model[1]}")
    if len(real) > 2 and real[2]:
        return ("nsnapshots", real[2])
    rf, mf = real[1], model[1]
    if len(rf) != len(mf):
        return ("nsnapshots", f"{len(rf)} snapshots read, {len(mf)} frames in the file")
    for n, (a, b) in enumerate(zip(rf, mf)):
        for fld in FIELDS:
            exact = fld in ("timestep", "nparticle", "particle_type")
            if exact and fld != "particle_type" and not (isinstance(a[fld], int) and not isinstance(a[fld], bool)):
                return (fld, f"frame {n}: {fld} is {a[fld]!r} (not an int)")
            if not num_eq(a[fld], b[fld], exact):
                where = ""
                if isinstance(a[fld], list) and isinstance(b[fld], list) and len(a[fld]) == len(b[fld]):
                    for k, (x, y) in enumerate(zip(a[fld], b[fld])):
                        if not num_eq(x, y, exact):
                            where = f"[{k}] real {x} expected {tofloat(y)}"
                            break
                else:
                    where = f" real {a[fld]} expected {tofloat(b[fld])}"
                return (fld, f"frame {n}: {fld}{where}")
    return None


def tofloat(v):
    if isinstance(v, list):
        return [tofloat(x) for x in v]
    return float(v) if isinstance(v, Fraction) else v


