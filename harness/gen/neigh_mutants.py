"""Self-made mutants of the anchored C05 code: apply to $PMS_REPO working tree, run the repo's own
neighbour tests, run ./check C05 --tier quick, replay on mutant and on the clean tree, revert.
Usage: PMS_REPO=/root/work/repo-C05 /venv/bin/python harness/gen/neigh_mutants.py [names…]"""
import os
import re
import subprocess
import sys

REPO = os.environ["PMS_REPO"]
VERIF = os.path.dirname(os.path.dirname(os.path.dirname(os.path.abspath(__file__))))
CN = "PyMatterSim/neighbors/calculate_neighbors.py"
RN = "PyMatterSim/neighbors/read_neighbors.py"

MUTANTS = {
    "cut-lt": (CN, "nearests = neighbor[RIJ_norm <= r_cut]", "nearests = neighbor[RIJ_norm < r_cut]"),
    "nn-id-offset": (CN, "neighbor[i, 2:] = nearests[1:] + 1", "neighbor[i, 2:] = nearests[1:]"),
    "nn-kth": (CN, "np.argpartition(RIJ_norm, N)[:N + 1]", "np.argpartition(RIJ_norm, N - 1)[:N + 1]"),
    "nn-no-sort": (CN, "            nearests = nearests[RIJ_norm[nearests].argsort()]\n            # nearests include the centered atom itself, so indexing [1:]\n            # the saved particle ID is numbered starting from 1\n            neighbor[i, 2:]",
                   "            nearests = np.sort(nearests)\n            # nearests include the centered atom itself, so indexing [1:]\n            # the saved particle ID is numbered starting from 1\n            neighbor[i, 2:]"),
    "ctype-transpose": (CN, "cutoffs[i, j] = r_cut[i, particle_type[j] - 1]", "cutoffs[i, j] = r_cut[particle_type[j] - 1, i]"),
    "ctype-lt": (CN, "nearests = neighbor[(RIJ_norm - i_cutoffs) <= 0]", "nearests = neighbor[(RIJ_norm - i_cutoffs) < 0]"),
    "read-trunc-shift": (RN, "neighborprop[atom_index, 1 : Nmax + 1] = [float(j) - 1 for j in item[2 : Nmax + 2]]",
                         "neighborprop[atom_index, 1 : Nmax + 1] = [float(j) for j in item[2 : Nmax + 2]]"),
    "read-trunc-slice": (RN, "neighborprop[atom_index, 1 : Nmax + 1] = [float(j) - 1 for j in item[2 : Nmax + 2]]",
                         "neighborprop[atom_index, 1 : Nmax + 1] = [float(j) - 1 for j in item[1 : Nmax + 1]]"),
    "read-trim": (RN, "neighborprop = neighborprop[:, : max_cn + 1]", "neighborprop = neighborprop[:, : max_cn]"),
    "read-weights-shift": (RN, "neighborprop[atom_index, 1 : (int(item[1]) + 1)] = [float(j) for j in item[2 : (int(item[1]) + 2)]]",
                           "neighborprop[atom_index, 1 : (int(item[1]) + 1)] = [float(j) - 1 for j in item[2 : (int(item[1]) + 2)]]"),
    "read-rewind": (RN, "    header = f.readline().split()  # header", "    f.seek(0)\n    header = f.readline().split()  # header"),
    "read-rowpos": (RN, "        atom_index = int(item[0]) - 1", "        atom_index = i"),
    "read-cn-cap": (RN, "                neighborprop[atom_index, 0] = Nmax\n                neighborprop[atom_index, 1 : Nmax + 1] = [float(j) - 1",
                    "                neighborprop[atom_index, 0] = float(item[1])\n                neighborprop[atom_index, 1 : Nmax + 1] = [float(j) - 1"),
}


def sh(cmd, cwd, env=None):
    p = subprocess.run(cmd, cwd=cwd, shell=True, capture_output=True, text=True, env=env)
    return p.returncode, p.stdout + p.stderr


def main():
    names = sys.argv[1:] or list(MUTANTS)
    env = dict(os.environ, PMS_REPO=REPO)
    for name in names:
        rel, old, new = MUTANTS[name]
        path = os.path.join(REPO, rel)
        src = open(path).read()
        if src.count(old) != 1:
            print(f"{name}: pattern found {src.count(old)} times — skipped")
            continue
        try:
            open(path, "w").write(src.replace(old, new))
            rc_t, out_t = sh("/venv/bin/python -m pytest -q -p no:cacheprovider tests/neighbors/calculate_neighbors_test.py "
                             "tests/neighbors/read_neighbors_test.py 2>&1 | tail -1", REPO)
            rc, out = sh("./check C05 --tier quick", VERIF, env)
            vio = [l for l in out.splitlines() if l.startswith("VIOLATION") or l.startswith("  ->")]
            replays = re.findall(r"replay=(\S+)", out)
            rep_m = [sh(f"./check C05 --replay {r}", VERIF, env)[0] for r in replays]
        finally:
            open(path, "w").write(src)
        rep_c = [sh(f"./check C05 --replay {r}", VERIF, env)[0] for r in replays]
        print(f"== {name}: repo tests: {out_t.strip()} | check exit {rc} | replay on mutant {rep_m} on clean {rep_c}")
        for l in vio:
            print("   " + l[:260])
    rc, out = sh("git status --porcelain --untracked-files=no", REPO)
    print("repo dirty after run:", out.strip() or "no")


if __name__ == "__main__":
    main()
