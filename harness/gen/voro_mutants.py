#!/venv/bin/python
"""Self-made mutants of freud_neighbors.py for C20.

    PMS_REPO=/root/work/repo-C20 /venv/bin/python harness/gen/voro_mutants.py <demo.py> [ids…]

For every mutant: apply it to the working tree of $PMS_REPO, store seeded/C20-<id>/{patch.diff, demo.py}, run the demo
(must fail; it passes on the clean tree), run the repository's tests of the area (unedited), run ./check C20 --tier quick,
replay every reported replay file on the mutant, revert (`git checkout -- .`), replay on the clean tree, run the check on
the clean tree again (restores the regenerated files), write seeded/C20-<id>/meta.json."""
import json
import os
import shutil
import subprocess
import sys

VERIF = os.path.dirname(os.path.dirname(os.path.dirname(os.path.abspath(__file__))))
REPO = os.environ["PMS_REPO"]
PY = "/venv/bin/python"
SRC = "PyMatterSim/neighbors/freud_neighbors.py"
TESTS = "tests/neighbors/freud_neighbors_test.py tests/neighbors/read_neighbors_test.py"

MUTANTS = [
    ("a", "VolumeMatrix takes the points of frame 0 (`points = list_points[0]`) while the box still comes from the requested frame",
     "a trajectory whose frames differ and a requested frame index other than 0 (no test calls VolumeMatrix)",
     [("    points = list_points[nconfig]\n", "    points = list_points[0]\n")]),
    ("b", "VolumeMatrix places the finite differences in column `ndim * j + i` instead of `ndim * i + j`",
     "any call (no test calls VolumeMatrix); N != ndim makes the two layouts differ",
     [("            matrixA[condition, ndim * i + j] = medium[condition]\n", "            matrixA[condition, ndim * j + i] = medium[condition]\n")]),
    ("c", "VolumeMatrix self term without the minus sign (`= medium.sum(axis=0)`)",
     "any call: rows sum to twice the off-diagonal sum instead of zero",
     [("= -medium.sum(axis=0)\n", "= medium.sum(axis=0)\n")]),
    ("d", "VolumeMatrix fills the whole column (`matrixA[:, ndim * i + j] = medium`), i.e. forgets `condition`: the direct finite "
          "difference of the moved particle's own cell enters the row sum before the self term is assigned",
     "any call: the self term then is minus the full column-block sum and rows no longer sum to zero",
     [("            matrixA[condition, ndim * i + j] = medium[condition]\n", "            matrixA[:, ndim * i + j] = medium\n")]),
    ("e", "cal_neighbors writes the neighbour-file header once before the frame loop instead of once per frame",
     "a trajectory with at least two frames (both golden tests use one frame): read_neighbors then eats the first particle line of "
     "frame 2 as a header",
     [("    fneighbors = open(outputfile + \".neighbor.dat\", \"w\", encoding=\"utf-8\")\n",
       "    fneighbors = open(outputfile + \".neighbor.dat\", \"w\", encoding=\"utf-8\")\n    fneighbors.write(\"id   cn   neighborlist\\n\")\n"),
      ("        # write header for each configuration\n        fneighbors.write(\"id   cn   neighborlist\\n\")\n", "        # write header for each configuration\n")]),
    ("f", "cal_neighbors tessellates every frame in the box of frame 0 (`box, points = list_box[0], list_points[n]`)",
     "a trajectory whose box lengths change between frames (NPT); single-frame or fixed-box input is unchanged",
     [("        box, points = list_box[n], list_points[n]\n", "        box, points = list_box[0], list_points[n]\n")]),
    ("g", "VolumeMatrix divides the central difference by `deltar` only (`(V1 - V2) / deltar`): every entry doubled",
     "any call; rows still sum to zero, only the comparison with the definition shows it",
     [("            medium = (V1 - V2) / 2 / deltar\n", "            medium = (V1 - V2) / deltar\n")]),
    ("h", "VolumeMatrix(transform_matrix=True, outputfile=…) saves the raw matrix (`np.save(outputfile, matrixA)`) but returns the transformed one",
     "transform_matrix=True together with an output file",
     [("            np.save(outputfile, matrixA_transformation)\n", "            np.save(outputfile, matrixA)\n")]),
    ("i", "cal_neighbors lists at most 16 neighbours / weights per particle (`for _ in range(min(i_cn, 16))`) while cn stays the full count",
     "a 3-D particle with more than 16 Voronoi faces (the golden 3-D line has 14)",
     [("            for _ in range(i_cn):\n", "            for _ in range(min(i_cn, 16)):\n")]),
    ("j", "VolumeMatrix normalises by the total volume (`matrixA /= original.sum()`) instead of each cell's own volume",
     "any call; rows still sum to zero",
     [("    matrixA /= original[:, np.newaxis]\n", "    matrixA /= original.sum()\n")]),
    ("k", "cal_neighbors writes `volumes[nn]` (indexed by the running bond offset) instead of `volumes[i]` — breaks a golden test",
     "any input",
     [("volumes[i]))\n", "volumes[min(nn, len(volumes) - 1)]))\n")]),
    ("l", "cal_neighbors does not shift the neighbour ids (`nlist[nn, 1] - 1` written) — breaks a golden test",
     "any input",
     [("                fneighbors.write(\"%d \" % nlist[nn, 1])\n", "                fneighbors.write(\"%d \" % (nlist[nn, 1] - 1))\n")]),
]


def sh(cmd, cwd=None, env=None, timeout=3600):
    p = subprocess.run(cmd, shell=True, cwd=cwd, env=env, capture_output=True, text=True, timeout=timeout)
    return p.returncode, p.stdout + p.stderr


def tests():
    rc, out = sh(f"{PY} -m pytest -q -p no:cacheprovider {TESTS}", cwd=REPO)
    tail = [l.split(" in ")[0] for l in out.strip().splitlines() if " passed" in l or " failed" in l][-1:]
    return rc, tail


def main():
    demo = sys.argv[1]
    want = set(sys.argv[2:])
    env = dict(os.environ, PYTHONPATH=REPO)
    assert sh("git status --porcelain --untracked-files=no", cwd=REPO)[1].strip() == "", "repo worktree not clean"
    head = sh("git rev-parse HEAD", cwd=REPO)[1].strip()
    rc0, o0 = sh(f"{PY} {demo}", cwd=REPO, env=env)
    t0 = tests()
    assert rc0 == 0, "demo fails on the clean tree: " + o0[-400:]
    for mid, summary, needs, edits in MUTANTS:
        if want and mid not in want:
            continue
        sid = f"C20-{mid}"
        dest = os.path.join(VERIF, "seeded", sid)
        os.makedirs(dest, exist_ok=True)
        shutil.copy(demo, os.path.join(dest, "demo.py"))
        path = os.path.join(REPO, SRC)
        text = open(path).read()
        for old, new in edits:
            assert text.count(old) == 1, (mid, old)
            text = text.replace(old, new)
        open(path, "w").write(text)
        meta = {"seed_id": sid, "property": "C20", "summary": summary, "needs": needs, "author": "builder", "repo_head": head,
                "file": SRC, "ran": [{"cmd": "demo on clean tree", "rc": rc0, "tail": o0.strip()[-200:]},
                                     {"cmd": f"pytest {TESTS} on clean tree", "rc": t0[0], "tail": t0[1]}]}
        try:
            open(os.path.join(dest, "patch.diff"), "w").write(sh("git diff", cwd=REPO)[1])
            rc1, o1 = sh(f"{PY} {demo}", cwd=REPO, env=env)
            meta["ran"].append({"cmd": "demo with patch", "rc": rc1, "tail": o1.strip()[-400:]})
            t1 = tests()
            meta["ran"].append({"cmd": f"pytest {TESTS} with patch", "rc": t1[0], "tail": t1[1]})
            meta["confirmed"] = rc1 != 0
            meta["tests_same"] = (t1 == t0)
            rcc, oc = sh("./check C20 --tier quick", cwd=VERIF, timeout=3000)
            lines = [l for l in oc.splitlines() if l.startswith(("VIOLATION", "  ->", "KNOWN", "INFRA"))]
            rps = [l.split("replay=")[1].split()[0] for l in lines if l.startswith("VIOLATION") and "replay=" in l]
            chk = {"cmd": "PMS_REPO=<worktree with the patch> ./check C20 --tier quick", "rc": rcc, "lines": lines[:10], "replay": rps[0] if rps else None,
                   "replays": rps, "caught": rcc == 1 and any(l.startswith("VIOLATION") for l in lines),
                   "with_failing_input": any(l.startswith("VIOLATION") and "no-failing-input-found" not in l for l in lines),
                   "replay_on_mutant": []}
            keep = os.path.join(dest, "replays")
            os.makedirs(keep, exist_ok=True)
            for rp in rps:
                shutil.copy(os.path.join(VERIF, rp), os.path.join(keep, os.path.basename(rp)))
                r1, o1r = sh(f"./check C20 --replay {rp}", cwd=VERIF)
                chk["replay_on_mutant"].append({"replay": rp, "rc": r1, "tail": o1r.strip().splitlines()[-1:]})
        finally:
            sh("git checkout -- .", cwd=REPO)
        chk["replay_on_clean"] = []
        for rp in rps:
            r0, o0r = sh(f"./check C20 --replay {rp}", cwd=VERIF)
            chk["replay_on_clean"].append({"replay": rp, "rc": r0, "tail": o0r.strip().splitlines()[-1:]})
        rcl, ocl = sh("./check C20 --tier quick", cwd=VERIF, timeout=3000)
        chk["clean_tree_rc_after_revert"] = rcl
        meta["checks"] = [chk]
        meta["caught"] = chk["caught"]
        meta["with_failing_input"] = chk["with_failing_input"]
        json.dump(meta, open(os.path.join(dest, "meta.json"), "w"), indent=1)
        print(json.dumps({k: meta.get(k) for k in ("seed_id", "confirmed", "tests_same", "caught", "with_failing_input")}),
              [x["tail"] for x in chk["replay_on_mutant"]][:2], [x["tail"] for x in chk["replay_on_clean"]][:2], "clean rc", rcl, flush=True)


if __name__ == "__main__":
    main()
