"""Scale stream shared by C03 / C13: configurations with N ≈ 2 000 particles and coarse bins, so that per-particle,
per-bin counts exceed 127 / 255 (narrow integer dtypes), accumulators hold ~10⁶ pairs and every bin is populated.

The exact-ℚ Lean model cannot run at this size inside a check's budget; these cases are judged against the vectorised numpy
brute force of the property STATEMENT below (ordered pairs, minimum image in an orthogonal cell, half-open bins with the last
one closed, ideal-shell normalisation) — a labelled test that supports the tie, never a theorem.  A case is stored as its
generator parameters (positions are regenerated from `sseed`), so replay files stay small."""
import math

import numpy as np


def gen_scale_params(rng, K=2):
    # density ≥ 3.5 and shells ≥ 88 volume units in the outer bins: > 255 neighbours j > i of the first particles in one bin
    N = rng.choice([1800, 2000, 2200])
    if rng.random() < 0.35:
        N = rng.choice([256, 512, 768, 1024, 2048])          # block boundaries of chunked rewrites
    return {"scale": True, "sseed": rng.randint(0, 10 ** 9), "N": N, "d": 3, "L": "8",
            "rdelta": rng.choice(["0.5", "0.8"]), "K": K}


def scale_arrays(p):
    """(positions [N,3] on a 1e-3 grid, types [N] with every species present, box lengths)"""
    g = np.random.default_rng(p["sseed"])
    N, d, L = p["N"], p["d"], float(p["L"])
    pos = np.round(g.uniform(0.0, L, size=(N, d)), 3)
    types = g.integers(1, p["K"] + 1, size=N)
    types[:p["K"]] = np.arange(1, p["K"] + 1)
    return pos, types.astype(int), np.array([L] * d)


def shell(d, k, delta):
    if d == 3:
        return 4.0 / 3.0 * math.pi * ((k + 1) ** 3 - k ** 3) * delta ** 3
    return math.pi * ((k + 1) ** 2 - k ** 2) * delta ** 2


def pair_hist(pos, L, delta, maxbin, wi=None, wj=None, chunk=256):
    """ordered pairs i ≠ j: (count per bin, Σ wi_i·wj_j per bin, smallest distance of any pair distance to a bin edge)"""
    N, d = pos.shape
    edges = np.arange(maxbin + 1) * delta
    tot = np.zeros(maxbin)
    wsum = np.zeros(maxbin)
    margin = np.inf
    wi = np.ones(N) if wi is None else np.asarray(wi, dtype=float)
    wj = wi if wj is None else np.asarray(wj, dtype=float)
    for s in range(0, N, chunk):
        diff = pos[None, :, :] - pos[s:s + chunk, None, :]
        diff -= np.rint(diff / L) * L
        dist = np.sqrt((diff ** 2).sum(axis=2))
        idx = np.arange(s, min(s + chunk, N))
        dist[idx - s, idx] = np.inf                               # drop i == j
        w = wi[s:s + chunk, None] * wj[None, :]
        flat, wflat = dist.ravel(), w.ravel()
        keep = flat <= edges[-1]
        flat, wflat = flat[keep], wflat[keep]
        if flat.size:
            margin = min(margin, float(np.min(np.abs(flat[:, None] - edges[None, :]))))
        h, _ = np.histogram(flat, bins=edges)
        hw, _ = np.histogram(flat, bins=edges, weights=wflat)
        tot += h
        wsum += hw
    return tot, wsum, margin


def pair_hists(pos, L, delta, maxbin, wpairs, chunk=256):
    """like pair_hist for several weight pairs [(wi, wj), ...] in one pass over the distances:
    (count per bin, [Σ wi_i·wj_j per bin for each pair], margin)"""
    N, d = pos.shape
    edges = np.arange(maxbin + 1) * delta
    tot = np.zeros(maxbin)
    wsums = [np.zeros(maxbin) for _ in wpairs]
    margin = np.inf
    for s in range(0, N, chunk):
        diff = pos[None, :, :] - pos[s:s + chunk, None, :]
        diff -= np.rint(diff / L) * L
        dist = np.sqrt((diff ** 2).sum(axis=2))
        idx = np.arange(s, min(s + chunk, N))
        dist[idx - s, idx] = np.inf
        keep = dist <= edges[-1]
        flat = dist[keep]
        if flat.size:
            margin = min(margin, float(np.min(np.abs(flat[:, None] - edges[None, :]))))
        h, _ = np.histogram(flat, bins=edges)
        tot += h
        for n, (wi, wj) in enumerate(wpairs):
            w = (np.asarray(wi, dtype=float)[s:s + chunk, None] * np.asarray(wj, dtype=float)[None, :])[keep]
            hw, _ = np.histogram(flat, bins=edges, weights=w)
            wsums[n] += hw
    return tot, wsums, margin
