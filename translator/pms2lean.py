"""Python `ast` -> Lean translator.  generate(name, repo) returns [(relative lean path, text, [source files])].
A source shape that is no longer recognised raises Unrecognised (a broken tie, never a crash)."""
import ast
import hashlib
import os


class Unrecognised(Exception):
    pass


GEN = {}
ALL = []


def generator(name):
    def deco(f):
        GEN[name] = f
        ALL.append(name)
        return f
    return deco


def generate(name, repo):
    try:
        return GEN[name](repo)
    except Unrecognised:
        raise
    except Exception as e:  # any walker failure is an unrecognised shape
        raise Unrecognised(f"{name}: {type(e).__name__}: {e}")


def read(repo, rel):
    with open(os.path.join(repo, rel)) as f:
        return f.read()


def srcsha(text):
    return hashlib.sha256(text.encode()).hexdigest()[:16]
