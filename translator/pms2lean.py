"""Python `ast` -> Lean translator.  generate(name, repo) returns [(relative lean path, text, [source files])].
A source shape that is no longer recognised raises Unrecognised (a broken tie, never a crash)."""
import ast
import hashlib
import os


class Unrecognised(Exception):
    pass


GEN = {}
ALL = []


def generator(name):
    def deco(f):
        GEN[name] = f
        ALL.append(name)
        return f
    return deco


def generate(name, repo):
    try:
        return GEN[name](repo)
    except Unrecognised:
        raise
    except Exception as e:  # any walker failure is an unrecognised shape
        raise Unrecognised(f"{name}: {type(e).__name__}: {e}")


def read(repo, rel):
    with open(os.path.join(repo, rel)) as f:
        return f.read()


def srcsha(text):
    return hashlib.sha256(text.encode()).hexdigest()[:16]


# --------------------------------------------------------------------------- expression printer

class ExprPrinter:
    """prints a Python arithmetic expression as a fully parenthesised Lean term.
    mode 'real': over ℝ (Mathlib), non-literal exponents become Real.rpow;
    mode 'float': over Float (core), exponents through Float.pow;
    mode 'field': over an arbitrary field `K` (only literal natural exponents allowed)."""

    def __init__(self, mode, rename=None, consts=None):
        self.mode = mode
        self.rename = rename or {}
        self.consts = consts or {}
        self.ty = {"real": "ℝ", "float": "Float", "field": "K"}[mode]

    def name(self, n):
        return self.rename.get(n, n)

    def num(self, v):
        if isinstance(v, bool):
            raise Unrecognised("boolean in arithmetic")
        if isinstance(v, int):
            return f"({v} : {self.ty})" if v >= 0 else f"(-{-v} : {self.ty})"
        if isinstance(v, float):
            r = repr(v)
            if "e" in r or "inf" in r or "nan" in r:
                raise Unrecognised(f"float literal {r}")
            return f"({r} : {self.ty})"
        raise Unrecognised(f"constant {v!r}")

    def p(self, e):
        if isinstance(e, ast.Constant):
            return self.num(e.value)
        if isinstance(e, ast.Name):
            return self.name(e.id)
        if isinstance(e, ast.Attribute) and isinstance(e.value, ast.Name) and e.value.id == "self":
            return self.name(e.attr)
        if isinstance(e, ast.Attribute) and isinstance(e.value, ast.Name) and e.value.id in ("np", "numpy", "math") and e.attr == "pi":
            return {"real": "Real.pi", "float": "(3.141592653589793 : Float)", "field": "pi"}[self.mode]
        if isinstance(e, ast.UnaryOp) and isinstance(e.op, ast.USub):
            return f"(-{self.p(e.operand)})"
        if isinstance(e, ast.UnaryOp) and isinstance(e.op, ast.UAdd):
            return self.p(e.operand)
        if isinstance(e, ast.BinOp):
            a, b = e.left, e.right
            if isinstance(e.op, ast.Pow):
                if isinstance(b, ast.Constant) and isinstance(b.value, int) and not isinstance(b.value, bool) and b.value >= 0:
                    if self.mode == "float":
                        return f"(Float.pow {self.p(a)} ({b.value} : Float))"
                    return f"({self.p(a)} ^ ({b.value} : ℕ))"
                if self.mode == "real":
                    return f"(Real.rpow {self.p(a)} {self.p(b)})"
                if self.mode == "float":
                    return f"(Float.pow {self.p(a)} {self.p(b)})"
                raise Unrecognised("non-literal exponent over a field")
            op = {ast.Add: "+", ast.Sub: "-", ast.Mult: "*", ast.Div: "/"}.get(type(e.op))
            if op is None:
                raise Unrecognised(f"operator {type(e.op).__name__}")
            return f"({self.p(a)} {op} {self.p(b)})"
        if isinstance(e, ast.Call) and isinstance(e.func, ast.Attribute) and isinstance(e.func.value, ast.Name) \
                and e.func.value.id in ("np", "numpy", "math") and len(e.args) == 1 and not e.keywords:
            f = e.func.attr
            table = {"real": {"sqrt": "Real.sqrt", "sin": "Real.sin", "cos": "Real.cos", "exp": "Real.exp"},
                     "float": {"sqrt": "Float.sqrt", "sin": "Float.sin", "cos": "Float.cos", "exp": "Float.exp"},
                     "field": {}}[self.mode]
            if f in table:
                return f"({table[f]} {self.p(e.args[0])})"
        raise Unrecognised(f"expression {ast.dump(e)[:120]}")


def find_class(tree, name):
    for n in tree.body:
        if isinstance(n, ast.ClassDef) and n.name == name:
            return n
    raise Unrecognised(f"class {name} not found")


def find_func(node, name):
    for n in node.body:
        if isinstance(n, ast.FunctionDef) and n.name == name:
            return n
    raise Unrecognised(f"function {name} not found")


def strip_doc(body):
    if body and isinstance(body[0], ast.Expr) and isinstance(body[0].value, ast.Constant) and isinstance(body[0].value.value, str):
        return body[1:]
    return body


def straight_line(fn, pr, cond_names):
    """a method body made of `x = e`, `if <cond>: x = e1 else: x = e2` and a final `return [names]`
    -> (list of (name, lean rhs), returned names)"""
    lets, ret = [], None
    body = strip_doc(fn.body)
    for st in body:
        if ret is not None:
            raise Unrecognised("statement after return")
        if isinstance(st, ast.Assign) and len(st.targets) == 1 and isinstance(st.targets[0], ast.Name):
            lets.append((st.targets[0].id, pr.p(st.value)))
        elif isinstance(st, ast.If):
            c = st.test
            if isinstance(c, ast.Attribute) and isinstance(c.value, ast.Name) and c.value.id == "self" and c.attr in cond_names:
                cname = c.attr
            elif isinstance(c, ast.Name) and c.id in cond_names:
                cname = c.id
            else:
                raise Unrecognised("if-condition " + ast.dump(c)[:80])
            if not (len(st.body) == 1 and len(st.orelse) == 1 and isinstance(st.body[0], ast.Assign) and isinstance(st.orelse[0], ast.Assign)):
                raise Unrecognised("if-shape")
            t1, t2 = st.body[0].targets, st.orelse[0].targets
            if not (len(t1) == 1 and len(t2) == 1 and isinstance(t1[0], ast.Name) and isinstance(t2[0], ast.Name) and t1[0].id == t2[0].id):
                raise Unrecognised("if-branches assign different names")
            lets.append((t1[0].id, f"(if {cname} then {pr.p(st.body[0].value)} else {pr.p(st.orelse[0].value)})"))
        elif isinstance(st, ast.Return) and isinstance(st.value, (ast.List, ast.Tuple)) and all(isinstance(x, ast.Name) for x in st.value.elts):
            ret = [x.id for x in st.value.elts]
        else:
            raise Unrecognised("statement " + ast.dump(st)[:100])
    if ret is None:
        raise Unrecognised("no return")
    return lets, ret


def lean_str_list(xs):
    return "[" + ", ".join('"' + x + '"' for x in xs) + "]"


# --------------------------------------------------------------------------- G4: pair potentials (C12)

PAIR_METHODS = [("lennard_jones", "lj", []), ("inverse_power_law", "ipl", ["n", "A"]), ("harmonic_hertz", "hh", ["alpha"])]


@generator("pair")
def gen_pair(repo):
    rel = "PyMatterSim/static/hessians.py"
    src = read(repo, rel)
    tree = ast.parse(src)
    cls = find_class(tree, "PairInteractions")
    # __init__ must store its arguments under the same names
    init = find_func(cls, "__init__")
    stored = {}
    for st in strip_doc(init.body):
        if isinstance(st, ast.Assign) and isinstance(st.targets[0], ast.Attribute) and isinstance(st.value, ast.Name):
            stored[st.targets[0].attr] = st.value.id
        else:
            raise Unrecognised("PairInteractions.__init__ shape")
    if stored != {k: k for k in ["r", "epsilon", "sigma", "r_c", "shift"]}:
        raise Unrecognised(f"PairInteractions.__init__ stores {stored}")
    outR = ["import Mathlib.Analysis.SpecialFunctions.Pow.Real", "", "/-! REGENERATED by translator/pms2lean.py from " + rel + " — do not edit -/",
            "set_option linter.unusedVariables false", "noncomputable section", "namespace Pms.GenR.Pair", ""]
    outF = ["/-! REGENERATED by translator/pms2lean.py from " + rel + " — do not edit -/", "set_option linter.unusedVariables false", "namespace Pms.Gen.PairF", ""]
    rets = {}
    for meth, short, extra in PAIR_METHODS:
        fn = find_func(cls, meth)
        params = [a.arg for a in fn.args.args[1:]]
        if params != extra:
            raise Unrecognised(f"{meth} parameters {params}")
        for mode, out in (("real", outR), ("float", outF)):
            pr = ExprPrinter(mode)
            lets, ret = straight_line(fn, pr, {"shift"})
            rets[short] = ret
            ty = pr.ty
            args = " ".join(["r", "epsilon", "sigma", "r_c"] + extra)
            for target in ret:
                out.append(f"def {short}_{target} ({args} : {ty}) (shift : Bool) : {ty} :=")
                for n, rhs in lets:
                    out.append(f"  let {n} : {ty} := {rhs}")
                out.append(f"  {target}")
                out.append("")
    # caller dispatch, deep
    caller = find_func(cls, "caller")
    rows = []
    for st in strip_doc(caller.body):
        if isinstance(st, ast.If):
            t = st.test
            if not (isinstance(t, ast.Compare) and len(t.ops) == 1 and isinstance(t.ops[0], ast.Eq)
                    and ast.unparse(t.left) == "interaction_params.model_name" and isinstance(t.comparators[0], ast.Attribute)
                    and ast.unparse(t.comparators[0].value) == "ModelName"):
                raise Unrecognised("caller test " + ast.unparse(t))
            if st.orelse or len(st.body) != 1 or not isinstance(st.body[0], ast.Return):
                raise Unrecognised("caller branch shape")
            rows.append((t.comparators[0].attr, st.body[0].value))
        elif isinstance(st, ast.Return):
            rows.append(("default", st.value))
        else:
            raise Unrecognised("caller statement")
    table = []
    for key, call in rows:
        if not (isinstance(call, ast.Call) and isinstance(call.func, ast.Attribute) and ast.unparse(call.func.value) == "self" and not call.args):
            raise Unrecognised("caller call shape")
        kws = []
        for kw in call.keywords:
            v = kw.value
            if not (isinstance(v, ast.Attribute) and ast.unparse(v.value) == "interaction_params"):
                raise Unrecognised("caller keyword")
            kws.append((kw.arg, v.attr))
        table.append((key, call.func.attr, kws))
    enum = find_class(tree, "ModelName")
    members = [st.targets[0].id for st in enum.body if isinstance(st, ast.Assign)]
    deep = ["/-! REGENERATED by translator/pms2lean.py from " + rel + " — do not edit -/", "namespace Pms.Gen.PairTab", "",
            "def models : List String := " + lean_str_list(members), "",
            "/-- (tested enum member or \"default\", method called, keyword ↦ field of interaction_params) in source order -/",
            "def caller : List (String × String × List (String × String)) := ["]
    deep.append(",\n".join("  (\"%s\", \"%s\", [%s])" % (k, m, ", ".join('("%s", "%s")' % kv for kv in kws)) for k, m, kws in table))
    deep.append("]")
    deep.append("")
    for short, ret in rets.items():
        deep.append(f"def {short}_returns : List String := {lean_str_list(ret)}")
    deep.append("")
    deep.append("end Pms.Gen.PairTab")
    outR += ["end Pms.GenR.Pair", "end"]
    outF += ["end Pms.Gen.PairF"]
    return [("Pms/GenR/Pair.lean", "\n".join(outR) + "\n", [rel]),
            ("Pms/Gen/PairF.lean", "\n".join(outF) + "\n", [rel]),
            ("Pms/Gen/PairTab.lean", "\n".join(deep) + "\n", [rel])]


# --------------------------------------------------------------------------- G3: spherical harmonics table (C08)

from fractions import Fraction as _F


def _is_call(n, mod, name):
    return isinstance(n, ast.Call) and isinstance(n.func, ast.Attribute) and n.func.attr == name \
        and isinstance(n.func.value, ast.Name) and n.func.value.id == mod and len(n.args) == 1 and not n.keywords


def _const_frac(n):
    if isinstance(n, ast.Constant) and isinstance(n.value, int) and not isinstance(n.value, bool):
        return _F(n.value)
    if isinstance(n, ast.UnaryOp) and isinstance(n.op, ast.USub):
        return -_const_frac(n.operand)
    if isinstance(n, ast.BinOp) and isinstance(n.op, ast.Div):
        d = _const_frac(n.right)
        if d == 0:
            raise Unrecognised("division by zero constant")
        return _const_frac(n.left) / d
    if isinstance(n, ast.BinOp) and isinstance(n.op, ast.Mult):
        return _const_frac(n.left) * _const_frac(n.right)
    raise Unrecognised("not a rational constant: " + ast.dump(n)[:80])


def _sqrt_over_pi(n):
    e = n.args[0]
    if not (isinstance(e, ast.BinOp) and isinstance(e.op, ast.Div) and isinstance(e.right, ast.Attribute)
            and e.right.attr == "pi" and isinstance(e.right.value, ast.Name) and e.right.value.id == "np"):
        raise Unrecognised("sqrt argument is not <rational>/np.pi")
    return _const_frac(e.left)


def _is_trig(n, fn, var):
    return _is_call(n, "np", fn) and isinstance(n.args[0], ast.Name) and n.args[0].id == var


def _poly_in_cos(n, var):
    if _is_trig(n, "cos", var):
        return {1: _F(1)}
    if isinstance(n, ast.Constant) and isinstance(n.value, int) and not isinstance(n.value, bool):
        return {0: _F(n.value)}
    if isinstance(n, ast.BinOp):
        if isinstance(n.op, ast.Pow):
            if not (_is_trig(n.left, "cos", var) and isinstance(n.right, ast.Constant) and isinstance(n.right.value, int) and n.right.value >= 0):
                raise Unrecognised("power in cos polynomial")
            return {n.right.value: _F(1)}
        if isinstance(n.op, ast.Mult):
            a, b = _poly_in_cos(n.left, var), _poly_in_cos(n.right, var)
            out = {}
            for i, x in a.items():
                for j, y in b.items():
                    out[i + j] = out.get(i + j, 0) + x * y
            return out
        if isinstance(n.op, (ast.Add, ast.Sub)):
            a, b = _poly_in_cos(n.left, var), _poly_in_cos(n.right, var)
            sg = 1 if isinstance(n.op, ast.Add) else -1
            out = dict(a)
            for j, y in b.items():
                out[j] = out.get(j, 0) + sg * y
            return out
        if isinstance(n.op, ast.Div):
            a = _poly_in_cos(n.left, var)
            d = _const_frac(n.right)
            return {k: v / d for k, v in a.items()}
    if isinstance(n, ast.UnaryOp) and isinstance(n.op, ast.USub):
        return {k: -v for k, v in _poly_in_cos(n.operand, var).items()}
    raise Unrecognised("cos polynomial: " + ast.dump(n)[:80])


def _factors(n):
    if isinstance(n, ast.BinOp) and isinstance(n.op, ast.Mult):
        return _factors(n.left) + _factors(n.right)
    if isinstance(n, ast.UnaryOp) and isinstance(n.op, ast.USub):
        return [ast.Constant(value=-1)] + _factors(n.operand)
    return [n]


def _sph_entry(expr, polar, azim):
    c, s, m, k, poly = _F(1), None, 0, 0, {0: _F(1)}
    seen_exp = False
    for f in _factors(expr):
        if _is_call(f, "np", "sqrt"):
            if s is not None:
                raise Unrecognised("two sqrt factors")
            s = _sqrt_over_pi(f)
            continue
        if _is_call(f, "cmath", "exp"):
            if seen_exp:
                raise Unrecognised("two exp factors")
            seen_exp = True
            a = f.args[0]
            if not (isinstance(a, ast.BinOp) and isinstance(a.op, ast.Mult) and isinstance(a.right, ast.Name) and a.right.id == azim):
                raise Unrecognised("exp argument")
            z, neg = a.left, False
            if isinstance(z, ast.UnaryOp) and isinstance(z.op, ast.USub):
                neg, z = True, z.operand
            if not (isinstance(z, ast.Constant) and isinstance(z.value, complex) and z.value.real == 0 and z.value.imag == int(z.value.imag)):
                raise Unrecognised("exp coefficient")
            m = int(z.value.imag) * (-1 if neg else 1)
            continue
        if _is_trig(f, "sin", polar):
            k += 1
            continue
        if isinstance(f, ast.BinOp) and isinstance(f.op, ast.Pow) and _is_trig(f.left, "sin", polar) \
                and isinstance(f.right, ast.Constant) and isinstance(f.right.value, int) and f.right.value >= 0:
            k += f.right.value
            continue
        try:
            c *= _const_frac(f)
            continue
        except Unrecognised:
            pass
        p = _poly_in_cos(f, polar)
        out = {}
        for i, x in poly.items():
            for j, y in p.items():
                out[i + j] = out.get(i + j, 0) + x * y
        poly = out
    if s is None:
        raise Unrecognised("no sqrt(…/pi) factor")
    deg = max(poly)
    return c, s, m, k, [poly.get(i, _F(0)) for i in range(deg + 1)]


def _rat(q):
    q = _F(q)
    if q.denominator == 1:
        return f"({q.numerator} : Rat)" if q.numerator >= 0 else f"(-{-q.numerator} : Rat)"
    return f"(({q.numerator} : Rat) / {q.denominator})" if q.numerator >= 0 else f"((-{-q.numerator} : Rat) / {q.denominator})"


def lean_escape(s):
    return s.replace("\\", "\\\\").replace('"', '\\"').replace("\n", "\\n")


@generator("sph")
def gen_sph(repo):
    rel = "PyMatterSim/utils/spherical_harmonics.py"
    src = read(repo, rel)
    tree = ast.parse(src)
    rows = []
    for fn in tree.body:
        if isinstance(fn, ast.FunctionDef) and fn.name.startswith("SphHarm") and fn.name[7:].isdigit() and fn.name != "SphHarm0":
            l = int(fn.name[7:])
            params = [a.arg for a in fn.args.args]
            if params != ["theta", "phi"]:
                raise Unrecognised(f"{fn.name} parameters {params}")
            assigns, order, ret = {}, [], None
            for st in strip_doc(fn.body):
                if isinstance(st, ast.Assign) and len(st.targets) == 1 and isinstance(st.targets[0], ast.Name):
                    nm = st.targets[0].id
                    if nm == "results":
                        if not (isinstance(st.value, ast.List) and not st.value.elts):
                            raise Unrecognised("results initialiser")
                        continue
                    if nm in assigns:
                        raise Unrecognised(f"{fn.name}: {nm} assigned twice")
                    assigns[nm] = st.value
                elif isinstance(st, ast.Expr) and isinstance(st.value, ast.Call) and ast.unparse(st.value.func) == "results.append" \
                        and len(st.value.args) == 1 and isinstance(st.value.args[0], ast.Name):
                    order.append(st.value.args[0].id)
                elif isinstance(st, ast.Return):
                    ret = ast.unparse(st.value)
                else:
                    raise Unrecognised(f"{fn.name}: statement {ast.unparse(st)[:60]}")
            if ret != "np.array(results)":
                raise Unrecognised(f"{fn.name} returns {ret}")
            rows.append((l, [_sph_entry(assigns[nm], "theta", "phi") for nm in order]))
    rows.sort()
    out = ["import Pms.Model.Sph", "/-! REGENERATED by translator/pms2lean.py from " + rel + " — do not edit -/",
           "namespace Pms.Gen.Sph", "open Pms.Sph", "",
           "/-- (degree l, closed forms in the order they are appended to the result) -/",
           "def table : List (Nat × List Entry) := ["]
    rtxt = []
    for l, es in rows:
        etxt = ",\n".join("    { c := %s, s := %s, m := %d, k := %d, p := [%s] }" % (_rat(c), _rat(s), m, k, ", ".join(_rat(a) for a in p))
                          for c, s, m, k, p in es)
        rtxt.append(f"  ({l}, [\n{etxt}])")
    out.append(",\n".join(rtxt) + "]")
    out.append("")
    # dispatcher
    disp = find_func(tree, "sph_harm_l")
    if [a.arg for a in disp.args.args] != ["l", "theta", "phi"]:
        raise Unrecognised("sph_harm_l parameters")
    drows = []
    for st in strip_doc(disp.body):
        if isinstance(st, ast.If) and not st.orelse and len(st.body) == 1 and isinstance(st.body[0], ast.Return):
            drows.append((ast.unparse(st.test), ast.unparse(st.body[0].value)))
        else:
            raise Unrecognised("sph_harm_l statement " + ast.unparse(st)[:60])
    out.append("/-- (test, returned call) of the degree dispatcher, in source order -/")
    out.append("def dispatch : List (String × String) := [" + ", ".join('("%s", "%s")' % (lean_escape(a), lean_escape(b)) for a, b in drows) + "]")
    out.append("")
    # delegated branch
    ab = find_func(tree, "SphHarm_above")
    if [a.arg for a in ab.args.args] != ["l", "theta", "phi"]:
        raise Unrecognised("SphHarm_above parameters")
    body = strip_doc(ab.body)
    out.append("/-- statements of SphHarm_above, unparsed, in order -/")
    out.append("def above : List String := [" + ", ".join('"%s"' % lean_escape(ast.unparse(st)) for st in body) + "]")
    # where does `sph_harm` come from
    imp = []
    for st in tree.body:
        if isinstance(st, (ast.Import, ast.ImportFrom, ast.Try)) and "sph_harm" in ast.unparse(st):
            imp.append(ast.unparse(st))
        if isinstance(st, ast.FunctionDef) and st.name == "sph_harm":
            imp.append(ast.unparse(st))
    out.append("/-- every top-level statement that binds the name `sph_harm` -/")
    out.append("def libBinding : List String := [" + ", ".join('"%s"' % lean_escape(x) for x in imp) + "]")
    out.append("")
    out.append("end Pms.Gen.Sph")
    return [("Pms/Gen/Sph.lean", "\n".join(out) + "\n", [rel])]


# --------------------------------------------------------------------------- per-property generator modules
# every translator/gens/*.py registers its generators with @generator("name") on import
def _load_gens():
    import importlib.util
    import sys as _sys
    _sys.modules.setdefault("pms2lean", _sys.modules[__name__])
    d = os.path.join(os.path.dirname(os.path.abspath(__file__)), "gens")
    if not os.path.isdir(d):
        return
    for fn in sorted(os.listdir(d)):
        if fn.endswith(".py") and not fn.startswith("_"):
            spec = importlib.util.spec_from_file_location("pms2lean_gens_" + fn[:-3], os.path.join(d, fn))
            mod = importlib.util.module_from_spec(spec)
            spec.loader.exec_module(mod)


_load_gens()
