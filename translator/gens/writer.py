"""C19: PyMatterSim/writer/lammps_writer.py -> lean/Pms/Gen/Writer.lean

`write_dump_header` and `write_data_header` build a string by `header = …` / `header += …` statements with one
`if len(boxbounds) == <k>: … else: …` in the middle.  Regenerated, as data (`Pms.AuxIo.Template`) consumed by the
interpreter `Pms.AuxIo.render` and by the theorems of Props/C19:
  * every header line as the list of its whitespace-separated items, in source order, split into the four segments
    before the `if` / 3-D branch / other branch / after the `if`;
  * an item is a literal word, a literal numeral (`-0.5` in the data header), `str(<arg>)` / `{<arg>}` of one of the
    arguments, `{boxbounds[i][j]:.<d>f}` or `{<float literal>:.<d>f}`;
  * the constant of the dimension test.
Every segment has to end at a line end and a placeholder has to be a whole whitespace-separated item; anything else
raises Unrecognised (a broken tie)."""
import ast
import re
from fractions import Fraction

from pms2lean import generator, Unrecognised, read, find_func, strip_doc

REL = "PyMatterSim/writer/lammps_writer.py"
ARGS = {"timestep": ".timestep", "nparticle": ".nparticle", "nparticle_type": ".ntypes", "addson": ".addson"}
NUM = re.compile(r"^[+-]?(\d+\.\d*|\.\d+)$")


def u(n):
    return ast.unparse(n)


def _lean_str(s):
    if not all(32 <= ord(ch) < 127 and ch not in '"\\' for ch in s):
        raise Unrecognised(f"literal word {s!r}")
    return '"' + s + '"'


def _frac(v):
    q = Fraction(repr(float(v)))
    return q.numerator, q.denominator


def _spec(fs):
    """format_spec node -> number of decimals of `.<d>f`"""
    if fs is None:
        return None
    if not (isinstance(fs, ast.JoinedStr) and len(fs.values) == 1 and isinstance(fs.values[0], ast.Constant)):
        raise Unrecognised(f"format spec `{u(fs)}`")
    m = re.match(r"^\.(\d+)f$", fs.values[0].value)
    if not m:
        raise Unrecognised(f"format spec `{fs.values[0].value}`")
    return int(m.group(1))


def _value(e, dec):
    """the expression inside `{…}` / `str(…)` -> Lean item"""
    if isinstance(e, ast.Name):
        if e.id not in ARGS or dec is not None:
            raise Unrecognised(f"placeholder `{u(e)}` (format {dec})")
        return ARGS[e.id]
    if (isinstance(e, ast.Subscript) and isinstance(e.value, ast.Subscript) and u(e.value.value) == "boxbounds"
            and isinstance(e.value.slice, ast.Constant) and isinstance(e.slice, ast.Constant)
            and isinstance(e.value.slice.value, int) and isinstance(e.slice.value, int)
            and e.value.slice.value >= 0 and e.slice.value >= 0):
        if dec is None:
            raise Unrecognised(f"unformatted bound `{u(e)}`")
        return f".bound {e.value.slice.value} {e.slice.value} {dec}"
    neg = False
    if isinstance(e, ast.UnaryOp) and isinstance(e.op, ast.USub):
        neg, e = True, e.operand
    if isinstance(e, ast.Constant) and isinstance(e.value, float) and dec is not None:
        n, d = _frac(-e.value if neg else e.value)
        return f".const ({n}) {d} {dec}"
    raise Unrecognised(f"placeholder `{u(e)}`")


def _pieces(e):
    """string expression -> list of str (literal text) | ('item', lean)"""
    if isinstance(e, ast.Constant) and isinstance(e.value, str):
        return [e.value]
    if isinstance(e, ast.BinOp) and isinstance(e.op, ast.Add):
        return _pieces(e.left) + _pieces(e.right)
    if isinstance(e, ast.Call) and u(e.func) == "str" and len(e.args) == 1 and not e.keywords:
        return [("item", _value(e.args[0], None))]
    if isinstance(e, ast.JoinedStr):
        out = []
        for v in e.values:
            if isinstance(v, ast.Constant) and isinstance(v.value, str):
                out.append(v.value)
            elif isinstance(v, ast.FormattedValue) and v.conversion == -1:
                out.append(("item", _value(v.value, _spec(v.format_spec))))
            else:
                raise Unrecognised(f"f-string part `{u(v)}`")
        return out
    raise Unrecognised(f"string expression `{u(e)}`")


def _lines(pieces, where):
    """pieces of one segment -> list of lines, a line = list of Lean items"""
    items = []
    text = ""
    for p in pieces:
        if isinstance(p, str):
            if "\x00" in p:
                raise Unrecognised("NUL in literal")
            text += p
        else:
            text += f"\x00{len(items)}\x00"
            items.append(p[1])
    if text == "":
        return []
    parts = text.split("\n")
    if parts[-1] != "":
        raise Unrecognised(f"{where}: segment does not end at a line end")
    out = []
    for ln in parts[:-1]:
        row = []
        for w in ln.split():
            if "\x00" in w:
                m = re.match(r"^\x00(\d+)\x00$", w)
                if not m:
                    raise Unrecognised(f"{where}: placeholder glued to text in `{ln}`")
                row.append(items[int(m.group(1))])
            elif NUM.match(w):
                q = Fraction(w)
                row.append(f".numlit ({q.numerator}) {q.denominator}")
            elif re.match(r"^[+-]?\d+$", w):
                raise Unrecognised(f"{where}: integer literal `{w}`")
            else:
                row.append(".word " + _lean_str(w))
        out.append(row)
    return out


def _segment(stmts, first, where):
    pieces = []
    for k, st in enumerate(stmts):
        if first and k == 0:
            if not (isinstance(st, ast.Assign) and len(st.targets) == 1 and u(st.targets[0]) == "header"):
                raise Unrecognised(f"{where}: first statement `{u(st)[:60]}`")
            pieces += _pieces(st.value)
        elif isinstance(st, ast.AugAssign) and isinstance(st.op, ast.Add) and u(st.target) == "header":
            pieces += _pieces(st.value)
        else:
            raise Unrecognised(f"{where}: statement `{u(st)[:60]}`")
    return _lines(pieces, where)


def _template(fn, expect_args):
    args = [a.arg for a in fn.args.args]
    if args != expect_args:
        raise Unrecognised(f"{fn.name}: arguments {args}")
    body = strip_doc(fn.body)
    if not (body and isinstance(body[-1], ast.Return) and u(body[-1].value) == "header"):
        raise Unrecognised(f"{fn.name}: does not end with `return header`")
    body = body[:-1]
    ifs = [k for k, st in enumerate(body) if isinstance(st, ast.If)]
    if len(ifs) != 1:
        raise Unrecognised(f"{fn.name}: {len(ifs)} if statements")
    k = ifs[0]
    st = body[k]
    t = st.test
    if not (isinstance(t, ast.Compare) and len(t.ops) == 1 and isinstance(t.ops[0], ast.Eq)
            and u(t.left) == "len(boxbounds)" and isinstance(t.comparators[0], ast.Constant)
            and isinstance(t.comparators[0].value, int)):
        raise Unrecognised(f"{fn.name}: dimension test `{u(t)}`")
    return {"dimTest": t.comparators[0].value,
            "common": _segment(body[:k], True, fn.name + " (before if)"),
            "dimA": _segment(st.body, False, fn.name + " (if branch)"),
            "dimB": _segment(st.orelse, False, fn.name + " (else branch)"),
            "tail": _segment(body[k + 1:], False, fn.name + " (after if)")}


def _show_lines(ls):
    if not ls:
        return "[]"
    return "[\n" + ",\n".join("    [" + ", ".join(r) + "]" for r in ls) + " ]"


def _show(name, doc, t):
    return (f"/-- {doc} -/\ndef {name} : Template := {{\n  dimTest := {t['dimTest']},\n"
            f"  common := {_show_lines(t['common'])},\n  dimA := {_show_lines(t['dimA'])},\n"
            f"  dimB := {_show_lines(t['dimB'])},\n  tail := {_show_lines(t['tail'])} }}\n")


@generator("writer")
def gen_writer(repo):
    tree = ast.parse(read(repo, REL))
    dump = find_func(tree, "write_dump_header")
    data = find_func(tree, "write_data_header")
    if dump is None or data is None:
        raise Unrecognised("write_dump_header / write_data_header not found")
    td = _template(dump, ["timestep", "nparticle", "boxbounds", "addson"])
    ta = _template(data, ["nparticle", "nparticle_type", "boxbounds"])
    dflt = [u(d) for d in dump.args.defaults]
    out = ["import Pms.Model.AuxIo",
           f"/-! REGENERATED by translator/gens/writer.py from {REL} — do not edit -/",
           "namespace Pms.Gen.Writer", "open Pms.AuxIo", "",
           _show("dumpHeader", "`write_dump_header`: the lines of the returned string, item by item", td),
           _show("dataHeader", "`write_data_header`", ta),
           "/-- default values of the trailing arguments of `write_dump_header` -/",
           "def dumpDefaults : List String := [" + ", ".join('"' + d + '"' for d in dflt) + "]",
           "", "end Pms.Gen.Writer", ""]
    return [("Pms/Gen/Writer.lean", "\n".join(out), [REL])]
