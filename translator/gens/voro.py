"""C20: PyMatterSim/neighbors/freud_neighbors.py -> lean/Pms/Gen/Voro.lean

Regenerated SEMANTICALLY (consumed by `Pms.Voro.Impl.*` and by the theorems of Props/C20):
  * convert_configuration: the comparison operator of `snapshot.boxbounds.sum() <op> 0`, the shift expression
    `snapshot.boxbounds[:, 0] + snapshot.boxlength / 2` as a polymorphic term, the constant of the z-padding test;
  * cal_neighbors: the four header strings (as token lists; WHERE they are written — overall header once before the frame
    loop, the other two first thing inside it — is enforced by the statement positions the walker insists on),
    the file suffixes, the constant of `ndim == 2`, the id shift of `np.array(voro.nlist) + 1`, the guard condition as a
    Bool term, `i_cn = counts[i]` as a Nat term, the number of decimals of every `%.<k>f`;
  * VolumeMatrix: `list_box[<e>]`, `list_points[<e>]`, `points.shape[<e>]` as Nat terms in `nconfig`; the column index
    `ndim * i + j`, the slice bounds `ndim * i : ndim * i + ndim` as Nat terms; `(V1 - V2) / 2 / deltar` as a polymorphic
    term; the sign of the self term; the argument lists of the two `np.save` calls and the two returned names.
Every statement of the three routines is ALSO emitted as unparsed text (pinned by `C20_source_shape`), so an edit that the
semantic extraction does not see still reaches a proof obligation.  Anything the walker does not recognise raises
Unrecognised (a broken tie)."""
import ast
import re

from pms2lean import generator, Unrecognised, read, find_func, strip_doc, lean_escape

REL = "PyMatterSim/neighbors/freud_neighbors.py"
CMP = {ast.LtE: "LtE", ast.Lt: "Lt", ast.GtE: "GtE", ast.Gt: "Gt", ast.Eq: "Eq", ast.NotEq: "NotEq"}


def u(n):
    return ast.unparse(n)


def is_logger(st):
    return isinstance(st, ast.Expr) and u(st).startswith("logger.")


def strs(xs):
    return "[" + ",\n   ".join('"' + lean_escape(x) + '"' for x in xs) + "]"


def toks(s, where):
    """a written literal -> its whitespace-separated tokens; the literal has to end the line"""
    if not s.endswith("\n") or "\n" in s[:-1]:
        raise Unrecognised(f"{where}: header literal {s!r} is not one full line")
    for t in s.split():
        if not re.match(r"^[A-Za-z_]+$", t):
            raise Unrecognised(f"{where}: header token {t!r}")
    return "[" + ", ".join('"' + t + '"' for t in s.split()) + "]"


def nat_expr(e, names):
    """natural-number expression over the variables `names` (Python ints -> Lean Nat)"""
    if isinstance(e, ast.Constant) and isinstance(e.value, int) and not isinstance(e.value, bool) and e.value >= 0:
        return str(e.value)
    if isinstance(e, ast.Name) and e.id in names:
        return names[e.id]
    if isinstance(e, ast.BinOp) and isinstance(e.op, (ast.Add, ast.Sub, ast.Mult)):
        op = {ast.Add: "+", ast.Sub: "-", ast.Mult: "*"}[type(e.op)]
        return f"({nat_expr(e.left, names)} {op} {nat_expr(e.right, names)})"
    raise Unrecognised(f"not a Nat expression over {sorted(names)}: {u(e)}")


def bool_expr(e, names, subs):
    """guard condition -> Lean Bool term; `subs` maps unparsed sub-expressions to variable names"""
    if isinstance(e, ast.BoolOp):
        op = " || " if isinstance(e.op, ast.Or) else " && "
        return "(" + op.join(bool_expr(v, names, subs) for v in e.values) + ")"
    if isinstance(e, ast.Compare) and len(e.ops) == 1 and type(e.ops[0]) in (ast.Eq, ast.NotEq, ast.Lt, ast.LtE, ast.Gt, ast.GtE):
        op = {ast.Eq: "==", ast.NotEq: "!=", ast.Lt: "<", ast.LtE: "<=", ast.Gt: ">", ast.GtE: ">="}[type(e.ops[0])]
        a, b = nat_sub(e.left, names, subs), nat_sub(e.comparators[0], names, subs)
        if op in ("==", "!="):
            return f"({a} {op} {b})"
        return f"(decide ({a} {op} {b}))"
    raise Unrecognised(f"guard condition `{u(e)}`")


def nat_sub(e, names, subs):
    if u(e) in subs:
        return subs[u(e)]
    if isinstance(e, ast.BinOp) and isinstance(e.op, (ast.Add, ast.Sub, ast.Mult)):
        op = {ast.Add: "+", ast.Sub: "-", ast.Mult: "*"}[type(e.op)]
        return f"({nat_sub(e.left, names, subs)} {op} {nat_sub(e.right, names, subs)})"
    return nat_expr(e, names)


def field_expr(e, names):
    """arithmetic over a type with + - * / and numerals (polymorphic term)"""
    if isinstance(e, ast.Constant) and isinstance(e.value, int) and not isinstance(e.value, bool) and e.value >= 0:
        return f"({e.value} : α)"
    if u(e) in names:
        return names[u(e)]
    if isinstance(e, ast.BinOp) and type(e.op) in (ast.Add, ast.Sub, ast.Mult, ast.Div):
        op = {ast.Add: "+", ast.Sub: "-", ast.Mult: "*", ast.Div: "/"}[type(e.op)]
        return f"({field_expr(e.left, names)} {op} {field_expr(e.right, names)})"
    raise Unrecognised(f"arithmetic expression `{u(e)}`")


def numerals(e):
    return sorted({n.value for n in ast.walk(e) if isinstance(n, ast.Constant) and isinstance(n.value, int)})


def write_literal(st, handle, where):
    """`<handle>.write('<literal>')` -> literal"""
    if not (isinstance(st, ast.Expr) and isinstance(st.value, ast.Call) and u(st.value.func) == handle + ".write"
            and len(st.value.args) == 1 and not st.value.keywords and isinstance(st.value.args[0], ast.Constant)
            and isinstance(st.value.args[0].value, str)):
        raise Unrecognised(f"{where}: expected `{handle}.write(<literal>)`, found `{u(st)[:80]}`")
    return st.value.args[0].value


def write_fmt(st, handle, where):
    """`<handle>.write('<fmt>' % args)` -> (fmt, [arg texts])"""
    if not (isinstance(st, ast.Expr) and isinstance(st.value, ast.Call) and u(st.value.func) == handle + ".write"
            and len(st.value.args) == 1 and isinstance(st.value.args[0], ast.BinOp) and isinstance(st.value.args[0].op, ast.Mod)
            and isinstance(st.value.args[0].left, ast.Constant) and isinstance(st.value.args[0].left.value, str)):
        raise Unrecognised(f"{where}: expected `{handle}.write(<fmt> % …)`, found `{u(st)[:80]}`")
    b = st.value.args[0]
    args = [u(x) for x in b.right.elts] if isinstance(b.right, ast.Tuple) else [u(b.right)]
    return b.left.value, args


def placeholders(fmt, where):
    """format string -> list of decimals (None for %d); only `%d` and `%.<k>f` separated by blanks are known"""
    out = []
    for t in fmt.split():
        if t == "%d":
            out.append(None)
        else:
            m = re.match(r"^%\.(\d+)f$", t)
            if not m:
                raise Unrecognised(f"{where}: format item {t!r}")
            out.append(int(m.group(1)))
    if not fmt.replace("\n", " ").endswith(" ") and not fmt.endswith("\n"):
        raise Unrecognised(f"{where}: format {fmt!r} does not end with a separator")
    return out


def open_suffix(st, name, where):
    if not (isinstance(st, ast.Assign) and u(st.targets[0]) == name and isinstance(st.value, ast.Call) and u(st.value.func) == "open"
            and isinstance(st.value.args[0], ast.BinOp) and isinstance(st.value.args[0].op, ast.Add)
            and u(st.value.args[0].left) == "outputfile" and isinstance(st.value.args[0].right, ast.Constant)
            and u(st.value.args[1]) == "'w'"):
        raise Unrecognised(f"{where}: expected `{name} = open(outputfile + <suffix>, 'w', …)`, found `{u(st)[:80]}`")
    return st.value.args[0].right.value


def dim_if(st, where):
    """`if ndim == K: A else: B` -> (K, A, B)"""
    if not (isinstance(st, ast.If) and isinstance(st.test, ast.Compare) and len(st.test.ops) == 1 and isinstance(st.test.ops[0], ast.Eq)
            and u(st.test.left) == "ndim" and isinstance(st.test.comparators[0], ast.Constant) and len(st.body) == 1 and len(st.orelse) == 1):
        raise Unrecognised(f"{where}: expected `if ndim == K: … else: …`, found `{u(st)[:80]}`")
    return st.test.comparators[0].value, st.body[0], st.orelse[0]


# --------------------------------------------------------------------------- convert_configuration

def conv_part(fn, out):
    body = strip_doc(fn.body)
    loops = [s for s in body if isinstance(s, ast.For)]
    if len(loops) != 1 or u(loops[0].iter) != "snapshots.snapshots" or u(loops[0].target) != "snapshot":
        raise Unrecognised("convert_configuration: snapshot loop")
    lb = loops[0].body
    if len(lb) != 4 or not isinstance(lb[0], ast.If) or not isinstance(lb[1], ast.If):
        raise Unrecognised("convert_configuration: loop body shape")
    t = lb[0].test
    if not (isinstance(t, ast.Compare) and len(t.ops) == 1 and type(t.ops[0]) in CMP and u(t.left) == "snapshot.boxbounds.sum()"
            and u(t.comparators[0]) == "0"):
        raise Unrecognised(f"convert_configuration: shift test `{u(t)}`")
    if len(lb[0].body) != 2 or len(lb[0].orelse) != 1:
        raise Unrecognised("convert_configuration: shift branches")
    sf = lb[0].body[0]
    if not (isinstance(sf, ast.Assign) and u(sf.targets[0]) == "shiftfactor"):
        raise Unrecognised(f"convert_configuration: `{u(sf)}`")
    shift = field_expr(sf.value, {"snapshot.boxbounds[:, 0]": "lo", "snapshot.boxlength": "len"})
    nums = [n for n in numerals(sf.value) if n != 0]   # the 0 of the column index is not arithmetic
    pt = lb[1].test
    if not (isinstance(pt, ast.Compare) and len(pt.ops) == 1 and isinstance(pt.ops[0], ast.Eq) and u(pt.left) == "snapshot.positions.shape[1]"
            and isinstance(pt.comparators[0], ast.Constant)):
        raise Unrecognised(f"convert_configuration: padding test `{u(pt)}`")
    inst = " ".join(f"[OfNat α {n}]" for n in nums)
    out += ["/-! ## convert_configuration -/",
            "/-- operator of `snapshot.boxbounds.sum() <op> 0` -/",
            f'def shiftTest : String := "{CMP[type(t.ops[0])]}"',
            "/-- `shiftfactor = " + u(sf.value) + "` per axis -/",
            f"def shiftExpr {{α : Type}} [Add α] [Sub α] [Mul α] [Div α] {inst} (lo len : α) : α := {shift}",
            "/-- `snapshot.positions.shape[1] == padDim` → a zero z column is appended -/",
            f"def padDim : Nat := {pt.comparators[0].value}",
            "/-- every statement of convert_configuration, unparsed -/",
            "def convBody : List String := " + strs([u(s) for s in body]), ""]


# --------------------------------------------------------------------------- cal_neighbors

def cal_part(fn, out):
    body = [s for s in strip_doc(fn.body) if not is_logger(s)]
    loops = [k for k, s in enumerate(body) if isinstance(s, ast.For)]
    if len(loops) != 1 or u(body[loops[0]].iter) != "range(snapshots.nsnapshots)" or u(body[loops[0]].target) != "n":
        raise Unrecognised("cal_neighbors: frame loop")
    pre, loop, post = body[:loops[0]], body[loops[0]], body[loops[0] + 1:]
    if len(pre) != 6:
        raise Unrecognised(f"cal_neighbors: {len(pre)} statements before the frame loop")
    suf_o = open_suffix(pre[1], "foverall", "cal_neighbors")
    hdr_o = write_literal(pre[2], "foverall", "cal_neighbors")
    suf_n = open_suffix(pre[3], "fneighbors", "cal_neighbors")
    k1, a, b = dim_if(pre[5], "cal_neighbors (open)")
    suf_e, suf_f = open_suffix(a, "fbondinfos", "cal_neighbors"), open_suffix(b, "fbondinfos", "cal_neighbors")
    fb = loop.body
    if len(fb) != 11:
        raise Unrecognised(f"cal_neighbors: frame loop body has {len(fb)} statements")
    hdr_n = write_literal(fb[0], "fneighbors", "cal_neighbors")
    k2, a, b = dim_if(fb[1], "cal_neighbors (header)")
    hdr_e, hdr_f = write_literal(a, "fbondinfos", "cal_neighbors"), write_literal(b, "fbondinfos", "cal_neighbors")
    if k1 != k2:
        raise Unrecognised("cal_neighbors: the two `ndim ==` tests use different constants")
    sh = fb[5]
    if not (isinstance(sh, ast.Assign) and u(sh.targets[0]) == "nlist" and isinstance(sh.value, ast.BinOp) and isinstance(sh.value.op, ast.Add)
            and u(sh.value.left) == "np.array(voro.nlist)" and isinstance(sh.value.right, ast.Constant)
            and isinstance(sh.value.right.value, int) and sh.value.right.value >= 0):
        raise Unrecognised(f"cal_neighbors: id shift `{u(sh)}`")
    rows = fb[10]
    if not (isinstance(rows, ast.For) and u(rows.iter) == "range(unique.shape[0])" and u(rows.target) == "i" and len(rows.body) == 9):
        raise Unrecognised("cal_neighbors: row loop")
    rb = rows.body
    g = rb[1]
    if not (isinstance(g, ast.If) and not g.orelse and len(g.body) == 1 and isinstance(g.body[0], ast.Raise)):
        raise Unrecognised(f"cal_neighbors: guard `{u(g)[:80]}`")
    guard = bool_expr(g.test, {"atomid": "atomid", "i": "i"}, {"nlist[nn, 0]": "firstAtNn"})
    cn = rb[2]
    if not (isinstance(cn, ast.Assign) and u(cn.targets[0]) == "i_cn"):
        raise Unrecognised(f"cal_neighbors: `{u(cn)}`")
    cnx = nat_sub(cn.value, {}, {"counts[i]": "c"})
    f_n, a_n = write_fmt(rb[3], "fneighbors", "cal_neighbors")
    f_b, a_b = write_fmt(rb[4], "fbondinfos", "cal_neighbors")
    f_o, a_o = write_fmt(rb[5], "foverall", "cal_neighbors")
    inner = rb[6]
    if not (isinstance(inner, ast.For) and u(inner.iter) == "range(i_cn)" and len(inner.body) == 3):
        raise Unrecognised("cal_neighbors: neighbour loop")
    f_id, a_id = write_fmt(inner.body[0], "fneighbors", "cal_neighbors")
    f_w, a_w = write_fmt(inner.body[1], "fbondinfos", "cal_neighbors")
    if placeholders(f_n, "row head") != [None, None] or placeholders(f_b, "bond head") != [None, None] or placeholders(f_id, "id") != [None]:
        raise Unrecognised("cal_neighbors: integer formats")
    po, pw = placeholders(f_o, "overall"), placeholders(f_w, "weight")
    if len(po) != 3 or po[:2] != [None, None] or po[2] is None or len(pw) != 1 or pw[0] is None or not f_o.endswith("\n"):
        raise Unrecognised("cal_neighbors: float formats")
    if write_literal(rb[7], "fneighbors", "eol") != "\n" or write_literal(rb[8], "fbondinfos", "eol") != "\n":
        raise Unrecognised("cal_neighbors: line ends")
    out += ["/-! ## cal_neighbors -/",
            "/-- header lines as token lists -/",
            f"def hdrOverall : List String := {toks(hdr_o, 'overall')}",
            f"def hdrNeighbor : List String := {toks(hdr_n, 'neighbor')}",
            f"def hdrEdge : List String := {toks(hdr_e, 'edge')}",
            f"def hdrFace : List String := {toks(hdr_f, 'face')}",
            "/-- file name suffixes -/",
            "def suffixes : List String := " + "[" + ", ".join('"' + lean_escape(s) + '"' for s in (suf_o, suf_n, suf_e, suf_f)) + "]",
            "/-- `ndim == edgeDim` selects the edge-length file and header -/", f"def edgeDim : Nat := {k1}",
            "/-- `nlist = np.array(voro.nlist) + idShift` -/", f"def idShift : Nat := {sh.value.right.value}",
            "/-- the condition under which `ValueError('neighbor list not sorted')` is raised -/",
            f"def guardFails (atomid firstAtNn i : Nat) : Bool := {guard}",
            "/-- `i_cn` as a function of `c = counts[i]` -/", f"def cnExpr (c : Nat) : Nat := {cnx}",
            "/-- decimals of the `%.<k>f` items -/", f"def wDecimals : Nat := {pw[0]}", f"def volDecimals : Nat := {po[2]}",
            "/-- format strings and their arguments (text) -/",
            "def formats : List String := " + strs([f_n, f_b, f_o, f_id, f_w]),
            "def formatArgs : List (List String) := [" + ", ".join("[" + ", ".join('"' + lean_escape(x) + '"' for x in a) + "]"
                                                                   for a in (a_n, a_b, a_o, a_id, a_w)) + "]",
            "/-- statements before / inside / after the frame loop, of the row loop and of the neighbour loop, unparsed -/",
            "def calPre : List String := " + strs([u(s) for s in pre]),
            "def calFrame : List String := " + strs([u(s) for s in fb[:10]]),
            "def calRow : List String := " + strs([u(s) for s in rb[:6]] + [u(s) for s in rb[7:]]),
            "def calInner : List String := " + strs([u(s) for s in inner.body]),
            "def calPost : List String := " + strs([u(s) for s in post]), ""]


# --------------------------------------------------------------------------- VolumeMatrix

def sub_index(body, target, base, names):
    st = [s for s in body if isinstance(s, ast.Assign) and u(s.targets[0]) == target]
    if len(st) != 1 or not (isinstance(st[0].value, ast.Subscript) and u(st[0].value.value) == base):
        raise Unrecognised(f"VolumeMatrix: expected `{target} = {base}[…]`")
    return nat_expr(st[0].value.slice, names)


def vm_part(fn, out):
    args = [a.arg for a in fn.args.args]
    if args != ["snapshots", "ndim", "nconfig", "deltar", "transform_matrix", "outputfile"]:
        raise Unrecognised(f"VolumeMatrix: arguments {args}")
    body = [s for s in strip_doc(fn.body) if not is_logger(s)]
    nc = {"nconfig": "nconfig"}
    bi = sub_index(body, "box", "list_box", nc)
    pi = sub_index(body, "points", "list_points", nc)
    ax = sub_index(body, "num_particles", "points.shape", nc)
    loops = [s for s in body if isinstance(s, ast.For)]
    if len(loops) != 2 or any(u(l.iter) != "range(num_particles)" or u(l.target) != "i" for l in loops):
        raise Unrecognised("VolumeMatrix: particle loops")
    l1 = loops[0].body
    if len(l1) != 2 or u(l1[0]) != "condition = atomids != i" or not (isinstance(l1[1], ast.For) and u(l1[1].iter) == "range(ndim)"
                                                                     and u(l1[1].target) == "j"):
        raise Unrecognised("VolumeMatrix: perturbation loop shape")
    jb = l1[1].body
    if len(jb) != 9:
        raise Unrecognised(f"VolumeMatrix: coordinate loop has {len(jb)} statements")
    med = jb[7]
    if not (isinstance(med, ast.Assign) and u(med.targets[0]) == "medium"):
        raise Unrecognised(f"VolumeMatrix: `{u(med)}`")
    fd = field_expr(med.value, {"V1": "V1", "V2": "V2", "deltar": "deltar"})
    fdn = numerals(med.value)
    place = jb[8]
    if not (isinstance(place, ast.Assign) and isinstance(place.targets[0], ast.Subscript) and u(place.targets[0].value) == "matrixA"
            and isinstance(place.targets[0].slice, ast.Tuple) and len(place.targets[0].slice.elts) == 2
            and u(place.targets[0].slice.elts[0]) == "condition" and u(place.value) == "medium[condition]"):
        raise Unrecognised(f"VolumeMatrix: placement `{u(place)}`")
    ij = {"ndim": "ndim", "i": "i", "j": "j"}
    col = nat_expr(place.targets[0].slice.elts[1], ij)
    l2 = loops[1].body
    if len(l2) != 2 or u(l2[0]) != "medium = matrixA[i].reshape(num_particles, ndim)":
        raise Unrecognised("VolumeMatrix: self-term loop shape")
    st = l2[1]
    if not (isinstance(st, ast.Assign) and isinstance(st.targets[0], ast.Subscript) and u(st.targets[0].value) == "matrixA"
            and isinstance(st.targets[0].slice, ast.Tuple) and len(st.targets[0].slice.elts) == 2 and u(st.targets[0].slice.elts[0]) == "i"
            and isinstance(st.targets[0].slice.elts[1], ast.Slice) and st.targets[0].slice.elts[1].step is None
            and st.targets[0].slice.elts[1].lower is not None and st.targets[0].slice.elts[1].upper is not None):
        raise Unrecognised(f"VolumeMatrix: self term `{u(st)}`")
    sl = st.targets[0].slice.elts[1]
    lo, hi = nat_expr(sl.lower, {"ndim": "ndim", "i": "i"}), nat_expr(sl.upper, {"ndim": "ndim", "i": "i"})
    v = st.value
    if isinstance(v, ast.UnaryOp) and isinstance(v.op, ast.USub) and u(v.operand) == "medium.sum(axis=0)":
        neg = "true"
    elif u(v) == "medium.sum(axis=0)":
        neg = "false"
    else:
        raise Unrecognised(f"VolumeMatrix: self-term value `{u(v)}`")
    saves, rets = [], []
    for n in ast.walk(fn):
        if isinstance(n, ast.Call) and u(n.func) == "np.save":
            if n.keywords:
                raise Unrecognised("np.save with keywords")
            saves.append([u(a) for a in n.args])
        if isinstance(n, ast.Return):
            rets.append(u(n.value))
    tr = [s for s in body if isinstance(s, ast.If) and u(s.test) == "transform_matrix"]
    if len(tr) != 1 or len(saves) != 2 or len(rets) != 2:
        raise Unrecognised("VolumeMatrix: transform / save / return shape")
    # the first np.save / return in source order belong to the transform branch
    tsave = [[u(a) for a in n.args] for n in ast.walk(tr[0]) if isinstance(n, ast.Call) and u(n.func) == "np.save"]
    tret = [u(n.value) for n in ast.walk(tr[0]) if isinstance(n, ast.Return)]
    if len(tsave) != 1 or len(tret) != 1:
        raise Unrecognised("VolumeMatrix: transform branch")
    rsave = [s for s in saves if s != tsave[0]] or [tsave[0]]
    rret = [r for r in rets if r != tret[0]] or [tret[0]]
    inst = " ".join(f"[OfNat α {n}]" for n in fdn)
    sl_ = lambda xs: "[" + ", ".join('"' + lean_escape(x) + '"' for x in xs) + "]"
    out += ["/-! ## VolumeMatrix -/",
            "/-- `box = list_box[vmBoxIndex nconfig]`, `points = list_points[vmPointsIndex nconfig]`,",
            "`num_particles = points.shape[vmShapeAxis nconfig]` -/",
            f"def vmBoxIndex (nconfig : Nat) : Nat := {bi}",
            f"def vmPointsIndex (nconfig : Nat) : Nat := {pi}",
            f"def vmShapeAxis (nconfig : Nat) : Nat := {ax}",
            "/-- `matrixA[condition, vmCol ndim i j] = medium[condition]` -/",
            f"def vmCol (ndim i j : Nat) : Nat := {col}",
            "/-- `matrixA[i, vmSelfLo ndim i : vmSelfHi ndim i] = ±medium.sum(axis=0)` -/",
            f"def vmSelfLo (ndim i : Nat) : Nat := {lo}",
            f"def vmSelfHi (ndim i : Nat) : Nat := {hi}",
            "/-- sign of the self term: `true` = `-medium.sum(axis=0)` -/", f"def selfNeg : Bool := {neg}",
            "/-- `medium = " + u(med.value) + "` -/",
            f"def fd {{α : Type}} [Add α] [Sub α] [Mul α] [Div α] {inst} (V1 V2 deltar : α) : α := {fd}",
            "/-- arguments of `np.save` and the returned name: raw matrix, transformed matrix -/",
            f"def vmSaveRaw : List String := {sl_(rsave[0])}", f"def vmSaveTrans : List String := {sl_(tsave[0])}",
            f'def vmRetRaw : String := "{lean_escape(rret[0])}"', f'def vmRetTrans : String := "{lean_escape(tret[0])}"',
            "/-- defaults of the trailing arguments -/",
            "def vmDefaults : List String := " + sl_([u(d) for d in fn.args.defaults]),
            "/-- every statement of VolumeMatrix, unparsed (loops flattened in source order) -/",
            "def vmBody : List String := " + strs([u(s) for s in body]), ""]


@generator("voro")
def gen_voro(repo):
    tree = ast.parse(read(repo, REL))
    out = [f"/-! REGENERATED by translator/gens/voro.py from {REL} — do not edit -/", "set_option linter.unusedVariables false",
           "namespace Pms.Gen.Voro", ""]
    conv_part(find_func(tree, "convert_configuration"), out)
    cal_part(find_func(tree, "cal_neighbors"), out)
    vm_part(find_func(tree, "VolumeMatrix"), out)
    out += ["end Pms.Gen.Voro", ""]
    return [("Pms/Gen/Voro.lean", "\n".join(out), [REL])]
