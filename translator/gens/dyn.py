"""G10/G6 for C06: regenerates lean/Pms/Gen/Dyn.lean from PyMatterSim/dynamic/dynamics.py and
PyMatterSim/utils/funcs.py::alpha2factor.

Semantically extracted (the model `Pms/Model/Dyn.lean` is built FROM these definitions, the
theorems of `Pms/Props/C06.lean` are about them):
  * loop ranges and index expressions of Dynamics.relaxation / LogDynamics.relaxation / Dynamics.sq4
    (`n - nn`, `n`, `nn - 1`, `n + n_t`, `range(1, n + 1)`, `range(nsnapshots - n_t)` …), including the
    frame whose hmatrix / neighbour list / condition row is used and the subscript of `counts[...] += 1`
  * the comparison operators of the slow / fast branches
  * the expressions of x4_qt and alpha2, the divisor of sq4, funcs.alpha2factor
Everything else of the loop bodies is emitted as unparsed statement text (deep), pinned by a `decide`d
theorem, so any edit of the anchored code reaches a proof obligation.
A shape this walker does not know raises Unrecognised (a broken tie, never a crash)."""
import ast

from pms2lean import Unrecognised, find_class, find_func, generator, lean_escape, read, strip_doc

REL = "PyMatterSim/dynamic/dynamics.py"
FUNCS = "PyMatterSim/utils/funcs.py"


def u(n):
    return ast.unparse(n)


class NatExpr:
    """index arithmetic over ℕ: names, literals, + and - (truncated on the Lean side; the theorems show
    the subtractions never truncate inside the loop ranges)"""

    def __init__(self, names, alias=None):
        self.names = names          # python source text -> lean variable
        self.alias = alias or {}    # local name -> ast expression

    def p(self, e):
        s = u(e)
        if s in self.names:
            return self.names[s]
        if isinstance(e, ast.Name) and e.id in self.alias:
            return self.p(self.alias[e.id])
        if isinstance(e, ast.Constant) and isinstance(e.value, int) and not isinstance(e.value, bool) and e.value >= 0:
            return str(e.value)
        if isinstance(e, ast.BinOp) and isinstance(e.op, (ast.Add, ast.Sub)):
            op = "+" if isinstance(e.op, ast.Add) else "-"
            return f"({self.p(e.left)} {op} {self.p(e.right)})"
        raise Unrecognised("index expression " + s)


def range_bounds(call, ne):
    if not (isinstance(call, ast.Call) and isinstance(call.func, ast.Name) and call.func.id == "range" and not call.keywords):
        raise Unrecognised("loop iterator " + u(call))
    if len(call.args) == 1:
        return "0", ne.p(call.args[0])
    if len(call.args) == 2:
        return ne.p(call.args[0]), ne.p(call.args[1])
    raise Unrecognised("range with a step")


def the_for(stmts, var):
    fors = [s for s in stmts if isinstance(s, ast.For)]
    if len(fors) != 1 or not isinstance(fors[0].target, ast.Name) or fors[0].target.id != var or fors[0].orelse:
        raise Unrecognised(f"expected exactly one `for {var}` loop")
    return fors[0]


def snap_index(e, attr):
    """self.snapshots.snapshots[<e>].<attr>  ->  <e>"""
    if isinstance(e, ast.Attribute) and e.attr == attr and isinstance(e.value, ast.Subscript) \
            and u(e.value.value) == "self.snapshots.snapshots":
        return e.value.slice
    raise Unrecognised(f"expected self.snapshots.snapshots[…].{attr}, got {u(e)}")


def cmp_of(test_if, var_l, var_r, target):
    """if self.cal_type == "slow": target = (l < r)[.mean()] else: target = (l > r)[.mean()]  -> (slow op, fast op)"""
    if not (isinstance(test_if, ast.If) and u(test_if.test) == "self.cal_type == 'slow'"
            and len(test_if.body) == 1 and len(test_if.orelse) == 1):
        raise Unrecognised("slow/fast branch shape: " + u(test_if)[:80])
    ops = []
    for st in (test_if.body[0], test_if.orelse[0]):
        if not (isinstance(st, ast.Assign) and len(st.targets) == 1 and u(st.targets[0]) == target):
            raise Unrecognised("slow/fast assignment " + u(st))
        v = st.value
        if isinstance(v, ast.Call) and isinstance(v.func, ast.Attribute) and v.func.attr == "mean" and not v.args and not v.keywords:
            v = v.func.value
        if not (isinstance(v, ast.Compare) and len(v.ops) == 1 and u(v.left) == var_l and u(v.comparators[0]) == var_r):
            raise Unrecognised("slow/fast comparison " + u(st))
        op = {ast.Lt: "<", ast.Gt: ">", ast.LtE: "≤", ast.GtE: "≥"}.get(type(v.ops[0]))
        if op is None:
            raise Unrecognised("comparison operator " + u(st))
        ops.append(op)
    return ops


def lean_cmp(name, op):
    return (f"def {name} {{α : Type}} [LT α] [LE α] [DecidableLT α] [DecidableLE α] (x c : α) : Bool := decide (x {op} c)")


def find_assign(stmts, name):
    hits = [s for s in stmts if isinstance(s, ast.Assign) and len(s.targets) == 1 and u(s.targets[0]) == name]
    if len(hits) != 1:
        raise Unrecognised(f"expected exactly one assignment to {name}")
    return hits[0].value


def find_if(stmts, test):
    hits = [s for s in stmts if isinstance(s, ast.If) and u(s.test) == test]
    if len(hits) != 1 or hits[0].orelse:
        raise Unrecognised(f"expected exactly one `if {test}:` without else")
    return hits[0]


class FieldExpr:
    """arithmetic over an arbitrary field-like α: names from a table, integer / integer-valued float
    literals through NatCast, + - * /, np.square(x) -> x*x, x**2 -> x*x"""

    def __init__(self, names):
        self.names = names

    def p(self, e):
        s = u(e)
        if s in self.names:
            return self.names[s]
        if isinstance(e, ast.Constant) and isinstance(e.value, (int, float)) and not isinstance(e.value, bool):
            v = e.value
            if v != int(v) or v < 0:
                raise Unrecognised(f"literal {v!r}")
            return f"(({int(v)} : Nat) : α)"
        if isinstance(e, ast.BinOp):
            if isinstance(e.op, ast.Pow) and isinstance(e.right, ast.Constant) and e.right.value == 2:
                a = self.p(e.left)
                return f"({a} * {a})"
            op = {ast.Add: "+", ast.Sub: "-", ast.Mult: "*", ast.Div: "/"}.get(type(e.op))
            if op is None:
                raise Unrecognised("operator in " + s)
            return f"({self.p(e.left)} {op} {self.p(e.right)})"
        if isinstance(e, ast.Call) and u(e.func) == "np.square" and len(e.args) == 1 and not e.keywords:
            a = self.p(e.args[0])
            return f"({a} * {a})"
        raise Unrecognised("expression " + s)


def strs(xs):
    return "[" + ",\n   ".join('"' + lean_escape(x) + '"' for x in xs) + "]"


def relaxation_linear(cls, out):
    fn = find_func(cls, "relaxation")
    body = strip_doc(fn.body)
    outer = the_for(body, "n")
    ne = NatExpr({"self.snapshots.nsnapshots": "T", "n": "n"})
    olo, ohi = range_bounds(outer.iter, ne)
    if len(outer.body) != 1:
        raise Unrecognised("outer loop body of Dynamics.relaxation has more than the inner loop")
    inner = the_for(outer.body, "nn")
    ilo, ihi = range_bounds(inner.iter, ne)
    ib = inner.body
    alias = {"index": find_assign(ib, "index")}
    ne2 = NatExpr({"n": "n", "nn": "nn"}, alias)
    # counts[...] += 1 inside the inner loop
    cnt = [s for s in ib if isinstance(s, ast.AugAssign) and isinstance(s.target, ast.Subscript) and u(s.target.value) == "counts"]
    if len(cnt) != 1 or not isinstance(cnt[0].op, ast.Add) or u(cnt[0].value) != "1":
        raise Unrecognised("counts[...] += 1 not found exactly once in the inner loop")
    cidx = ne2.p(cnt[0].target.slice)
    # accumulators
    acc = {}
    for s in ib:
        if isinstance(s, ast.AugAssign) and isinstance(s.target, ast.Subscript) and u(s.target.value) != "counts":
            if not isinstance(s.op, ast.Add):
                raise Unrecognised("accumulator op " + u(s))
            nm = u(s.target.value)
            if nm in acc:
                raise Unrecognised("accumulator twice " + nm)
            acc[nm] = (ne2.p(s.target.slice), u(s.value))
    if list(acc) != ["isf", "qt", "qt2", "r2", "r4"]:
        raise Unrecognised(f"accumulators {list(acc)}")
    idxs = {v[0] for v in acc.values()}
    if len(idxs) != 1:
        raise Unrecognised("accumulators use different subscripts")
    init = ne2.p(snap_index(find_assign(ib, "pos_init"), "positions"))
    fin = ne2.p(snap_index(find_assign(ib, "pos_end"), "positions"))
    if u(find_assign(ib, "distance")) != "np.square(RII).sum(axis=1)":
        raise Unrecognised("distance expression")
    pbc = find_if(ib, "self.PBC")
    if len(pbc.body) != 1 or not isinstance(pbc.body[0], ast.Assign) or u(pbc.body[0].targets[0]) != "RII":
        raise Unrecognised("PBC branch")
    call = pbc.body[0].value
    if not (isinstance(call, ast.Call) and u(call.func) == "remove_pbc" and len(call.args) == 3 and u(call.args[0]) == "RII" and u(call.args[2]) == "self.ppp"):
        raise Unrecognised("remove_pbc call " + u(call))
    hm = ne2.p(snap_index(call.args[1], "hmatrix"))
    cg = find_if(ib, "self.neighborlists")
    call = cg.body[0].value if len(cg.body) == 1 and isinstance(cg.body[0], ast.Assign) and u(cg.body[0].targets[0]) == "RII" else None
    if not (isinstance(call, ast.Call) and u(call.func) == "cage_relative" and len(call.args) == 2 and u(call.args[0]) == "RII"
            and isinstance(call.args[1], ast.Subscript) and u(call.args[1].value) == "self.neighborlists"):
        raise Unrecognised("cage_relative call")
    nb = ne2.p(call.args[1].slice)
    cd = find_if(ib, "condition is not None")
    sel = find_assign(cd.body, "selection")
    if not (isinstance(sel, ast.Subscript) and u(sel.value) == "condition"):
        raise Unrecognised("selection")
    cf = ne2.p(sel.slice)
    slowfast = [s for s in ib if isinstance(s, ast.If) and "cal_type" in u(s.test)]
    if len(slowfast) != 1:
        raise Unrecognised("slow/fast branch")
    slow, fast = cmp_of(slowfast[0], "distance", "a2_cuts", "medium")
    # after the loop
    post = body[body.index(outer) + 1:]
    fe = FieldExpr({"qt": "qt", "qt2": "qt2", "len(a2_cuts)": "nsel", "r2": "r2", "r4": "r4", "alpha2factor(self.ndim)": "af"})
    x4 = fe.p(find_assign(post, "x4_qt"))
    a2 = fe.p(find_assign(post, "alpha2"))
    normalised = [u(s.target) for s in post if isinstance(s, ast.AugAssign) and isinstance(s.op, ast.Div) and u(s.value) == "counts"]
    out += [
        "/-! ## Dynamics.relaxation -/",
        f"def relOuterLo (T : Nat) : Nat := {olo}",
        f"def relOuterHi (T : Nat) : Nat := {ohi}",
        f"def relInnerLo (n : Nat) : Nat := {ilo}",
        f"def relInnerHi (n : Nat) : Nat := {ihi}",
        f"def relIndex (n nn : Nat) : Nat := {idxs.pop()}",
        f"def relCountIndex (n nn : Nat) : Nat := {cidx}",
        f"def relInit (n nn : Nat) : Nat := {init}",
        f"def relEnd (n nn : Nat) : Nat := {fin}",
        f"def relHmat (n nn : Nat) : Nat := {hm}",
        f"def relNeigh (n nn : Nat) : Nat := {nb}",
        f"def relCond (n nn : Nat) : Nat := {cf}",
        lean_cmp("relSlow", slow), lean_cmp("relFast", fast),
        "def relX4 {α : Type} [Add α] [Sub α] [Mul α] [Div α] [NatCast α] (qt qt2 nsel : α) : α := " + x4,
        "def relAlpha2 {α : Type} [Add α] [Sub α] [Mul α] [Div α] [NatCast α] (af r2 r4 : α) : α := " + a2,
        "def relNormalised : List String := " + strs(normalised),
        "/-- statements before the loops, unparsed -/",
        "def relPre : List String := " + strs([u(s) for s in body[:body.index(outer)] if not (isinstance(s, ast.Expr) and "logger" in u(s))]),
        "/-- inner loop body, unparsed -/",
        "def relBody : List String := " + strs([u(s) for s in ib]),
        "/-- statements after the loops, unparsed -/",
        "def relPost : List String := " + strs([u(s) for s in post]),
        ""]


def relaxation_log(cls, out):
    fn = find_func(cls, "relaxation")
    body = strip_doc(fn.body)
    loop = the_for(body, "n")
    ne = NatExpr({"self.snapshots.nsnapshots": "T"})
    lo, hi = range_bounds(loop.iter, ne)
    lb = loop.body
    ne2 = NatExpr({"n": "n"}, {"index": find_assign(lb, "index")})
    asg = {}
    for s in lb:
        if isinstance(s, ast.Assign) and isinstance(s.targets[0], ast.Subscript) and u(s.targets[0].value) in ("isf", "qt", "r2", "r4"):
            asg[u(s.targets[0].value)] = ne2.p(s.targets[0].slice)
    if list(asg) != ["isf", "qt", "r2", "r4"] or len(set(asg.values())) != 1:
        raise Unrecognised(f"log assignments {asg}")
    init = ne2.p(snap_index(find_assign(lb, "pos_init"), "positions"))
    fin = ne2.p(snap_index(find_assign(lb, "pos_end"), "positions"))
    pbc = find_if(lb, "self.PBC")
    call = pbc.body[0].value
    if not (isinstance(call, ast.Call) and u(call.func) == "remove_pbc" and len(call.args) == 3 and u(call.args[0]) == "RII" and u(call.args[2]) == "self.ppp"):
        raise Unrecognised("log remove_pbc call")
    hm = ne2.p(snap_index(call.args[1], "hmatrix"))
    slowfast = [s for s in lb if isinstance(s, ast.If) and "cal_type" in u(s.test)]
    if len(slowfast) != 1:
        raise Unrecognised("log slow/fast branch")
    slow, fast = cmp_of(slowfast[0], "distance", "a2_cuts", "medium")
    post = body[body.index(loop) + 1:]
    fe = FieldExpr({"r2": "r2", "r4": "r4", "alpha2factor(self.ndim)": "af"})
    a2 = fe.p(find_assign(post, "alpha2"))
    out += [
        "/-! ## LogDynamics.relaxation -/",
        f"def logLo (T : Nat) : Nat := {lo}",
        f"def logHi (T : Nat) : Nat := {hi}",
        f"def logIndex (n : Nat) : Nat := {set(asg.values()).pop()}",
        f"def logInit (n : Nat) : Nat := {init}",
        f"def logEnd (n : Nat) : Nat := {fin}",
        f"def logHmat (n : Nat) : Nat := {hm}",
        lean_cmp("logSlow", slow), lean_cmp("logFast", fast),
        "def logAlpha2 {α : Type} [Add α] [Sub α] [Mul α] [Div α] [NatCast α] (af r2 r4 : α) : α := " + a2,
        "def logPre : List String := " + strs([u(s) for s in body[:body.index(loop)] if not (isinstance(s, ast.Expr) and "logger" in u(s))]),
        "def logBody : List String := " + strs([u(s) for s in lb]),
        "def logPost : List String := " + strs([u(s) for s in post]),
        ""]


def sq4(cls, out):
    fn = find_func(cls, "sq4")
    body = strip_doc(fn.body)
    loop = the_for(body, "n")
    ne = NatExpr({"self.snapshots.nsnapshots": "T", "n_t": "nt"})
    lo, hi = range_bounds(loop.iter, ne)
    lb = loop.body
    ne2 = NatExpr({"n": "n", "n_t": "nt"})
    init = ne2.p(snap_index(find_assign(lb, "pos_init"), "positions"))
    fin = ne2.p(snap_index(find_assign(lb, "pos_end"), "positions"))
    pbc = find_if(lb, "self.PBC")
    call = pbc.body[0].value
    if not (isinstance(call, ast.Call) and u(call.func) == "remove_pbc" and len(call.args) == 3 and u(call.args[0]) == "RII" and u(call.args[2]) == "self.ppp"):
        raise Unrecognised("sq4 remove_pbc call")
    hm = ne2.p(snap_index(call.args[1], "hmatrix"))
    cg = find_if(lb, "self.neighborlists")
    call = cg.body[0].value
    if not (isinstance(call, ast.Call) and u(call.func) == "cage_relative" and isinstance(call.args[1], ast.Subscript)):
        raise Unrecognised("sq4 cage_relative call")
    nb = ne2.p(call.args[1].slice)
    slowfast = [s for s in lb if isinstance(s, ast.If) and "cal_type" in u(s.test)]
    if len(slowfast) != 1:
        raise Unrecognised("sq4 slow/fast branch")
    slow, fast = cmp_of(slowfast[0], "RII", "self.a2_cuts", "mobility_condition")
    cd = find_if(lb, "condition is not None")
    st = cd.body[0] if len(cd.body) == 1 else None
    if not (isinstance(st, ast.AugAssign) and isinstance(st.op, ast.Mult) and u(st.target) == "mobility_condition"
            and isinstance(st.value, ast.Call) and u(st.value.func).endswith(".astype") and isinstance(st.value.func.value, ast.Subscript)
            and u(st.value.func.value.value) == "condition"):
        raise Unrecognised("sq4 condition statement")
    cf = ne2.p(st.value.func.value.slice)
    add = [s for s in lb if isinstance(s, ast.AugAssign) and u(s.target) == "ave_sqresults"]
    if len(add) != 1 or not isinstance(add[0].op, ast.Add):
        raise Unrecognised("sq4 accumulation")
    v = add[0].value
    if not (isinstance(v, ast.Subscript) and u(v.slice) == "1" and isinstance(v.value, ast.Call) and u(v.value.func) == "conditional_sq"
            and len(v.value.args) == 1 and isinstance(v.value.args[0], ast.Subscript) and u(v.value.args[0].value) == "snapshots.snapshots"
            and {k.arg: u(k.value) for k in v.value.keywords} == {"qvector": "qvector", "condition": "mobility_condition"}):
        raise Unrecognised("sq4 conditional_sq call " + u(v))
    snap = ne2.p(v.value.args[0].slice)
    post = body[body.index(loop) + 1:]
    div = [s for s in post if isinstance(s, ast.AugAssign) and u(s.target) == "ave_sqresults" and isinstance(s.op, ast.Div)]
    if len(div) != 1:
        raise Unrecognised("sq4 divisor")
    dv = ne.p(div[0].value)
    nt = find_assign(body, "n_t")
    out += [
        "/-! ## Dynamics.sq4 -/",
        f"def sq4Lo (T nt : Nat) : Nat := {lo}",
        f"def sq4Hi (T nt : Nat) : Nat := {hi}",
        f"def sq4Init (n nt : Nat) : Nat := {init}",
        f"def sq4End (n nt : Nat) : Nat := {fin}",
        f"def sq4Hmat (n nt : Nat) : Nat := {hm}",
        f"def sq4Neigh (n nt : Nat) : Nat := {nb}",
        f"def sq4Cond (n nt : Nat) : Nat := {cf}",
        f"def sq4Snap (n nt : Nat) : Nat := {snap}",
        f"def sq4Div (T nt : Nat) : Nat := {dv}",
        lean_cmp("sq4Slow", slow), lean_cmp("sq4Fast", fast),
        'def sq4Lag : String := "' + lean_escape(u(nt)) + '"',
        "def sq4Pre : List String := " + strs([u(s) for s in body[:body.index(loop)] if not (isinstance(s, ast.Expr) and "logger" in u(s))]),
        "def sq4Body : List String := " + strs([u(s) for s in lb]),
        "def sq4Post : List String := " + strs([u(s) for s in post]),
        ""]


def alpha2factor(tree, out):
    fn = find_func(tree, "alpha2factor")
    if [a.arg for a in fn.args.args] != ["ndim"]:
        raise Unrecognised("alpha2factor parameters")
    body = strip_doc(fn.body)
    if len(body) != 1 or not isinstance(body[0], ast.If):
        raise Unrecognised("alpha2factor body")
    fe = FieldExpr({})
    rows = []
    st = body[0]
    while True:
        t = st.test
        if not (isinstance(t, ast.Compare) and len(t.ops) == 1 and isinstance(t.ops[0], ast.Eq) and u(t.left) == "ndim"
                and isinstance(t.comparators[0], ast.Constant) and isinstance(t.comparators[0].value, int)):
            raise Unrecognised("alpha2factor test " + u(t))
        if len(st.body) != 1 or not isinstance(st.body[0], ast.Return):
            raise Unrecognised("alpha2factor branch")
        rows.append((t.comparators[0].value, fe.p(st.body[0].value)))
        if len(st.orelse) == 1 and isinstance(st.orelse[0], ast.If):
            st = st.orelse[0]
            continue
        if len(st.orelse) == 1 and isinstance(st.orelse[0], ast.Raise):
            break
        raise Unrecognised("alpha2factor else")
    term = "none"
    for k, e in reversed(rows):
        term = f"if ndim = {k} then some {e} else {term}"
    out += ["/-! ## funcs.alpha2factor (none = raises ValueError) -/",
            "def alpha2factor {α : Type} [Add α] [Sub α] [Mul α] [Div α] [NatCast α] (ndim : Nat) : Option α :=",
            "  " + term, ""]


def cage(tree, out):
    fn = find_func(tree, "cage_relative")
    out += ["/-! ## cage_relative, unparsed -/",
            "def cageBody : List String := " + strs([u(s) for s in strip_doc(fn.body)]), ""]


def init_lines(cls, name, out):
    fn = find_func(cls, "__init__")
    keep = []
    for s in strip_doc(fn.body):
        t = u(s)
        if isinstance(s, ast.Expr) and "logger" in t:
            continue
        if isinstance(s, ast.If):
            # the xu / x dispatch: drop logger calls inside
            class Strip(ast.NodeTransformer):
                def visit_Expr(self, node):
                    return None if "logger" in u(node) else node
            s2 = Strip().visit(ast.parse(t).body[0])
            for sub in ast.walk(s2):
                if isinstance(sub, ast.If) and not sub.body:
                    sub.body = [ast.Pass()]
                if isinstance(sub, ast.If) and sub.orelse == []:
                    pass
            t = u(ast.fix_missing_locations(s2))
        keep.append(t)
    out += [f"/-- {name}: statements of the constructor (logger calls dropped), unparsed -/",
            f"def {name} : List String := " + strs(keep), ""]


@generator("dyn")
def gen_dyn(repo):
    src = read(repo, REL)
    tree = ast.parse(src)
    fsrc = read(repo, FUNCS)
    ftree = ast.parse(fsrc)
    out = ["/-! REGENERATED by translator/gens/dyn.py from " + REL + " and " + FUNCS + " — do not edit -/",
           "set_option linter.unusedVariables false", "namespace Pms.Gen.Dyn", ""]
    dyn = find_class(tree, "Dynamics")
    log = find_class(tree, "LogDynamics")
    relaxation_linear(dyn, out)
    relaxation_log(log, out)
    sq4(dyn, out)
    alpha2factor(ftree, out)
    cage(tree, out)
    init_lines(dyn, "linInit", out)
    init_lines(log, "logInitLines", out)
    out.append("end Pms.Gen.Dyn")
    return [("Pms/Gen/Dyn.lean", "\n".join(out) + "\n", [REL, FUNCS])]
