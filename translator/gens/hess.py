"""G5 — hessians.py `HessianMatrix.pair_matrix` / `diagonalize_hessian` and vector.py `participation_ratio` (C11).

Emits
  Pms/GenR/Hess.lean   shallow terms over ℝ (imports Mathlib's Real.sqrt) — the theorems of Props/C11 are about these
  Pms/Gen/HessF.lean   the same terms over Float (core only) — evaluated by the compiled driver
  Pms/Gen/HessTab.lean deep data (strings): unpacking, placement, slices, operators, loop headers, glue statements
"""
import ast

from pms2lean import generator, Unrecognised, ExprPrinter, read, find_class, find_func, strip_doc, lean_str_list, lean_escape

REL = "PyMatterSim/static/hessians.py"
RELV = "PyMatterSim/static/vector.py"


class HPrinter(ExprPrinter):
    """ExprPrinter + subscripts `a[i, j]` / `a[i + 1]` (function application with ℕ indices),
    comparisons and `&` (Bool), `self.x` → x."""

    def idx(self, e):
        if isinstance(e, ast.Name):
            return self.name(e.id)
        if isinstance(e, ast.Constant) and isinstance(e.value, int) and not isinstance(e.value, bool) and e.value >= 0:
            return str(e.value)
        if isinstance(e, ast.BinOp) and isinstance(e.op, (ast.Add, ast.Mult)):
            op = "+" if isinstance(e.op, ast.Add) else "*"
            return f"({self.idx(e.left)} {op} {self.idx(e.right)})"
        if isinstance(e, ast.Attribute) and isinstance(e.value, ast.Name) and e.value.id == "self":
            return self.name(e.attr)
        raise Unrecognised("index expression " + ast.unparse(e)[:60])

    def p(self, e):
        if isinstance(e, ast.Subscript):
            base = e.value
            if isinstance(base, ast.Attribute) and isinstance(base.value, ast.Name) and base.value.id == "self":
                b = self.name(base.attr)
            elif isinstance(base, ast.Name):
                b = self.name(base.id)
            else:
                raise Unrecognised("subscript base " + ast.unparse(base)[:60])
            sl = e.slice
            idxs = sl.elts if isinstance(sl, ast.Tuple) else [sl]
            return "(" + b + " " + " ".join(self.idx(i) for i in idxs) + ")"
        return super().p(e)

    def cond(self, e):
        """boolean expressions: `(j != i) & (a <= b)`, `x > 0`"""
        if isinstance(e, ast.BinOp) and isinstance(e.op, ast.BitAnd):
            return f"({self.cond(e.left)} && {self.cond(e.right)})"
        if isinstance(e, ast.BoolOp) and isinstance(e.op, ast.And):
            return "(" + " && ".join(self.cond(v) for v in e.values) + ")"
        if isinstance(e, ast.Compare) and len(e.ops) == 1:
            a, b, op = e.left, e.comparators[0], e.ops[0]
            isidx = all(isinstance(t, ast.Name) and t.id in ("i", "j") for t in (a, b))
            if isidx:
                sym = {ast.NotEq: "≠", ast.Eq: "="}.get(type(op))
                if sym is None:
                    raise Unrecognised("index comparison " + ast.unparse(e))
                return f"(decide ({self.idx(a)} {sym} {self.idx(b)}))"
            sym = {ast.LtE: "≤", ast.Lt: "<", ast.GtE: "≥", ast.Gt: ">"}.get(type(op))
            if sym is None:
                raise Unrecognised("comparison " + ast.unparse(e))
            return f"(decide ({self.p(a)} {sym} {self.p(b)}))"
        raise Unrecognised("condition " + ast.unparse(e)[:80])


def _is_name(n, s):
    return isinstance(n, ast.Name) and n.id == s


def _placement(st):
    """`dudr2i[a, b] = name` → ((a, b), name)"""
    if isinstance(st, ast.Assign) and len(st.targets) == 1 and isinstance(st.targets[0], ast.Subscript) \
            and _is_name(st.targets[0].value, "dudr2i") and isinstance(st.value, ast.Name):
        sl = st.targets[0].slice
        if isinstance(sl, ast.Tuple) and len(sl.elts) == 2 and all(isinstance(x, ast.Constant) and isinstance(x.value, int) for x in sl.elts):
            return (sl.elts[0].value, sl.elts[1].value), st.value.id
    return None


def _entries_and_places(stmts, pr_list, allowed):
    """a run of `name = expr` / `dudr2i[a,b] = name` statements → ([(name, {mode: lean})], [((a,b), name)])"""
    ents, places = [], []
    for st in stmts:
        pl = _placement(st)
        if pl is not None:
            places.append(pl)
            continue
        if isinstance(st, ast.Assign) and len(st.targets) == 1 and isinstance(st.targets[0], ast.Name):
            for n in ast.walk(st.value):
                if isinstance(n, ast.Name) and n.id not in allowed:
                    raise Unrecognised(f"entry {st.targets[0].id} uses unknown name {n.id}")
            ents.append((st.targets[0].id, {m: pr.p(st.value) for m, pr in pr_list}))
            continue
        raise Unrecognised("pair_matrix statement " + ast.unparse(st)[:80])
    return ents, places


def _blk(name, ents_names, places, ty, args):
    """if-chain function (a b : ℕ) ↦ placed entry, 0 elsewhere (np.zeros initialisation)"""
    seen = set()
    lines = [f"def {name} ({args} : {ty}) (a b : Nat) : {ty} :="]
    body = ""
    for (a, b), nm in places:
        if (a, b) in seen:
            raise Unrecognised(f"dudr2i[{a},{b}] assigned twice")
        seen.add((a, b))
        if nm not in ents_names:
            raise Unrecognised(f"placement of unknown entry {nm}")
        body += f"  if a = {a} ∧ b = {b} then {nm} {args} else\n"
    lines.append(body + f"  (0 : {ty})")
    return lines


def _unpack(st):
    """`x, y = Rji` → ['x','y']"""
    if isinstance(st, ast.Assign) and len(st.targets) == 1 and isinstance(st.targets[0], ast.Tuple) and _is_name(st.value, "Rji"):
        return [t.id for t in st.targets[0].elts]
    raise Unrecognised("unpack " + ast.unparse(st)[:60])


def _find_stmt(stmts, pred, what):
    hits = [s for s in stmts if pred(s)]
    if len(hits) != 1:
        raise Unrecognised(f"{what}: expected exactly one statement, found {len(hits)}")
    return hits[0]


def _assign_to(name):
    return lambda s: isinstance(s, ast.Assign) and len(s.targets) == 1 and _is_name(s.targets[0], name)


def _slice_names(t):
    """hessian_matrix[a:b, c:d] → [a,b,c,d] (names)"""
    if not (isinstance(t, ast.Subscript) and _is_name(t.value, "hessian_matrix") and isinstance(t.slice, ast.Tuple) and len(t.slice.elts) == 2):
        raise Unrecognised("assembly target " + ast.unparse(t)[:80])
    out = []
    for s in t.slice.elts:
        if not (isinstance(s, ast.Slice) and isinstance(s.lower, ast.Name) and isinstance(s.upper, ast.Name) and s.step is None):
            raise Unrecognised("assembly slice " + ast.unparse(t)[:80])
        out += [s.lower.id, s.upper.id]
    return out


@generator("hess")
def gen_hess(repo):
    src = read(repo, REL)
    tree = ast.parse(src)
    cls = find_class(tree, "HessianMatrix")
    modes = [("real", HPrinter("real")), ("float", HPrinter("float"))]
    TY = {"real": "ℝ", "float": "Float"}
    out = {"real": ["import Mathlib.Analysis.SpecialFunctions.Sqrt", "",
                    f"/-! REGENERATED by translator/gens/hess.py from {REL} — do not edit -/",
                    "set_option linter.unusedVariables false", "noncomputable section", "namespace Pms.GenR.Hess", ""],
           "float": [f"/-! REGENERATED by translator/gens/hess.py from {REL} — do not edit -/",
                     "set_option linter.unusedVariables false", "namespace Pms.Gen.HessF", ""]}
    tab = [f"/-! REGENERATED by translator/gens/hess.py from {REL} and {RELV} — do not edit -/", "set_option linter.unusedVariables false", "namespace Pms.Gen.HessTab", ""]

    # ------------------------------------------------------------------ __init__: ndim = len(ppp), attributes stored under their own names
    init = find_func(cls, "__init__")
    stored = {}
    for st in strip_doc(init.body):
        if isinstance(st, ast.Assign) and isinstance(st.targets[0], ast.Attribute):
            stored[st.targets[0].attr] = ast.unparse(st.value)
        else:
            raise Unrecognised("HessianMatrix.__init__ shape")
    tab.append("def initStores : List (String × String) := [" + ", ".join(f'("{k}", "{lean_escape(v)}")' for k, v in stored.items()) + "]")
    tab.append("")

    # ------------------------------------------------------------------ pair_matrix
    pm = find_func(cls, "pair_matrix")
    if [a.arg for a in pm.args.args] != ["self", "Rji", "dudrs"]:
        raise Unrecognised("pair_matrix parameters")
    body = strip_doc(pm.body)
    st0 = body[0]
    if not (isinstance(st0, ast.Assign) and isinstance(st0.targets[0], ast.Tuple) and _is_name(st0.value, "dudrs")
            and [t.id for t in st0.targets[0].elts] == ["s1", "s1rc", "s2"]):
        raise Unrecognised("pair_matrix: s1, s1rc, s2 = dudrs")
    i = 1
    zdef = None
    if isinstance(body[i], ast.Assign) and _is_name(body[i].targets[0], "z"):
        zdef = body[i].value
        i += 1
    ifu = body[i]
    if not (isinstance(ifu, ast.If) and ast.unparse(ifu.test) == "self.ndim == 2" and len(ifu.body) == 1 and len(ifu.orelse) == 1):
        raise Unrecognised("pair_matrix: unpacking branch")
    un2, un3 = _unpack(ifu.body[0]), _unpack(ifu.orelse[0])
    i += 1
    rdef = body[i]
    if not (_assign_to("r")(rdef) and ast.unparse(rdef.value) == "np.linalg.norm(Rji)"):
        raise Unrecognised("pair_matrix: r = np.linalg.norm(Rji)")
    i += 1
    zinit = body[i]
    if not (_assign_to("dudr2i")(zinit) and ast.unparse(zinit.value) == "np.zeros((self.ndim, self.ndim))"):
        raise Unrecognised("pair_matrix: dudr2i initialisation")
    i += 1
    base, extra, tail = [], [], []
    while i < len(body) and not isinstance(body[i], ast.If) and not _assign_to("dudr2j")(body[i]):
        base.append(body[i]); i += 1
    if i < len(body) and isinstance(body[i], ast.If):
        if ast.unparse(body[i].test) != "self.ndim == 3" or body[i].orelse:
            raise Unrecognised("pair_matrix: 3D branch test " + ast.unparse(body[i].test))
        extra = body[i].body
        i += 1
    tail = body[i:]
    if not (len(tail) == 2 and _assign_to("dudr2j")(tail[0]) and isinstance(tail[1], ast.Return)):
        raise Unrecognised("pair_matrix: tail")
    allowed = {"x", "y", "z", "r", "s1", "s1rc", "s2"}
    ents_b, places_b = _entries_and_places(base, modes, allowed)
    ents_e, places_e = _entries_and_places(extra, modes, allowed)
    names_b = [n for n, _ in ents_b]
    names_e = [n for n, _ in ents_e]
    if len(set(names_b + names_e)) != len(names_b + names_e):
        raise Unrecognised("entry assigned twice")
    args = "x y z r s1 s1rc s2"
    for m, pr in modes:
        ty = TY[m]
        for n, lean in ents_b + ents_e:
            out[m] += [f"def {n} ({args} : {ty}) : {ty} :=", f"  {lean[m]}", ""]
        out[m] += _blk("blk2", names_b, places_b, ty, args) + [""]
        out[m] += _blk("blk3", names_b + names_e, places_b + places_e, ty, args) + [""]
        out[m] += [f"/-- `{ast.unparse(tail[0])}` -/", f"def dudr2j (dudr2i : {ty}) : {ty} :=", f"  {pr.p(tail[0].value)}", ""]
        if zdef is not None:
            out[m] += [f"def z_default : {ty} := {pr.p(zdef)}", ""]
    tab += ["def unpack2 : List String := " + lean_str_list(un2),
            "def unpack3 : List String := " + lean_str_list(un3),
            f'def zDefault : String := "{lean_escape(ast.unparse(zdef)) if zdef is not None else ""}"',
            f'def rDef : String := "{lean_escape(ast.unparse(rdef.value))}"',
            f'def pairReturn : String := "{lean_escape(ast.unparse(tail[1].value))}"',
            "def entryNames : List String := " + lean_str_list(names_b + names_e), ""]

    # ------------------------------------------------------------------ diagonalize_hessian
    dh = find_func(cls, "diagonalize_hessian")
    dbody = strip_doc(dh.body)
    fors = [s for s in dbody if isinstance(s, ast.For)]
    if len(fors) != 3:
        raise Unrecognised(f"diagonalize_hessian: expected 3 top-level loops, found {len(fors)}")
    pfloop, mainloop, prloop = fors
    # prefactor
    if not (ast.unparse(pfloop.iter) == "range(self.epsilons.shape[0])" and _is_name(pfloop.target, "i") and len(pfloop.body) == 1
            and isinstance(pfloop.body[0], ast.For) and ast.unparse(pfloop.body[0].iter) == "range(self.epsilons.shape[1])"
            and _is_name(pfloop.body[0].target, "j") and len(pfloop.body[0].body) == 1):
        raise Unrecognised("prefactor loop shape")
    pfst = pfloop.body[0].body[0]
    if not (isinstance(pfst, ast.Assign) and ast.unparse(pfst.targets[0]) == "prefactor[i, j]"):
        raise Unrecognised("prefactor statement")
    pfinit = _find_stmt(dbody, _assign_to("prefactor"), "prefactor initialisation")
    # main loop
    if not (_is_name(mainloop.target, "i") and ast.unparse(mainloop.iter) == "range(nparticle)"):
        raise Unrecognised("outer loop header")
    mb = [s for s in mainloop.body if not (isinstance(s, ast.If) and "logger" in ast.unparse(s))]
    inner = _find_stmt(mb, lambda s: isinstance(s, ast.For), "inner loop")
    if not (_is_name(inner.target, "j") and ast.unparse(inner.iter) == "range(nparticle)"):
        raise Unrecognised("inner loop header")
    itype = _find_stmt(mb, _assign_to("itype"), "itype")
    pre = [ast.unparse(s) for s in mb if s is not inner and s is not itype]
    ib = inner.body
    jtype = _find_stmt(ib, _assign_to("jtype"), "jtype")
    ifc = _find_stmt(ib, lambda s: isinstance(s, ast.If), "cutoff test")
    if ifc.orelse or len(ib) != 2:
        raise Unrecognised("inner loop body shape")

    def type_index(st, var):
        if ast.unparse(st.value) != f"int(self.snapshot.particle_type[{var}] - 1)":
            raise Unrecognised("type index " + ast.unparse(st.value))

    type_index(itype, "i")
    type_index(jtype, "j")
    cb = ifc.body
    pi_st = _find_stmt(cb, _assign_to("pair_interaction"), "PairInteractions call")
    call = pi_st.value
    if not (isinstance(call, ast.Call) and _is_name(call.func, "PairInteractions") and not call.args):
        raise Unrecognised("PairInteractions call shape")
    kws = [(k.arg, ast.unparse(k.value)) for k in call.keywords]
    dud = _find_stmt(cb, _assign_to("dudrs"), "dudrs")
    pmcall = _find_stmt(cb, lambda s: isinstance(s, ast.Assign) and isinstance(s.targets[0], ast.Tuple)
                        and [getattr(t, "id", None) for t in s.targets[0].elts] == ["dudr2i", "dudr2j"], "pair_matrix call")
    idxdefs = []
    for nm in ("index_i_0", "index_i_1", "index_j_0", "index_j_1"):
        idxdefs.append((nm, _find_stmt(cb, _assign_to(nm), nm).value))
    asm = [s for s in cb if (isinstance(s, ast.AugAssign) or (isinstance(s, ast.Assign) and isinstance(s.targets[0], ast.Subscript)))]
    if len(asm) != 2:
        raise Unrecognised(f"expected two assembly statements, found {len(asm)}")
    if len(cb) != 3 + 4 + 2:
        raise Unrecognised(f"cutoff branch has {len(cb)} statements")
    asm_rows = []
    for k, st in enumerate(asm):
        if isinstance(st, ast.AugAssign):
            op = {ast.Add: "+=", ast.Sub: "-="}.get(type(st.op))
            if op is None:
                raise Unrecognised("assembly operator")
            tgt = st.target
        else:
            op, tgt = "=", st.targets[0]
        asm_rows.append((op, _slice_names(tgt)))
        for n in ast.walk(st.value):
            if isinstance(n, ast.Name) and n.id not in ("dudr2i", "dudr2j", "prefactor", "itype", "jtype"):
                raise Unrecognised(f"assembly right-hand side uses {n.id}")
            if isinstance(n, ast.Attribute) and ast.unparse(n) not in ("self.masses",):
                raise Unrecognised(f"assembly right-hand side uses {ast.unparse(n)}")
    freq = _find_stmt(dbody, _assign_to("frequencies"), "frequencies")
    fv = freq.value
    if not (isinstance(fv, ast.Call) and ast.unparse(fv.func) == "np.where" and len(fv.args) == 3):
        raise Unrecognised("frequencies shape")
    eig = _find_stmt(dbody, lambda s: isinstance(s, ast.Assign) and "eigh" in ast.unparse(s.value), "eigh")
    hinit = _find_stmt(dbody, _assign_to("hessian_matrix"), "hessian_matrix initialisation")
    if not (_is_name(prloop.target, "i") and len(prloop.body) == 1):
        raise Unrecognised("PR loop shape")
    csv = [ast.unparse(s) for s in dbody if isinstance(s, ast.Expr) and "to_csv" in ast.unparse(s)]
    saves = [ast.unparse(s) for s in dbody if isinstance(s, ast.If) and "np.save" in ast.unparse(s)]

    for m, pr in modes:
        ty = TY[m]
        out[m] += [f"/-- `{ast.unparse(pfst)}` -/",
                   f"def prefactor (masses : Nat → {ty}) (i j : Nat) : {ty} :=", f"  {pr.p(pfst.value)}", ""]
        out[m] += [f"/-- `{lean_escape(ast.unparse(ifc.test))}` with distance_j = distance[j] -/",
                   f"def cond (i j : Nat) (distance : Nat → {ty}) (r_cuts : Nat → Nat → {ty}) (itype jtype : Nat) : Bool :=",
                   f"  {pr.cond(ifc.test)}", ""]
        for k, st in enumerate(asm):
            out[m] += [f"/-- right-hand side of `{lean_escape(ast.unparse(st))[:160]}` (per entry) -/",
                       f"def asm{k + 1}_rhs (dudr2i dudr2j : {ty}) (prefactor : Nat → Nat → {ty}) (masses : Nat → {ty}) (itype jtype : Nat) : {ty} :=",
                       f"  {pr.p(st.value)}", ""]
        out[m] += [f"/-- `{ast.unparse(freq)}` (per eigenvalue) -/",
                   f"def frequencies (evals : {ty}) : {ty} :=",
                   f"  if {pr.cond(fv.args[0])} then {pr.p(fv.args[1])} else {pr.p(fv.args[2])}", ""]
    nat = HPrinter("real")
    out_idx = []
    for nm, v in idxdefs:
        out_idx += [f"def {nm} (i j ndim index_i_0 index_j_0 : Nat) : Nat :=", f"  {nat.idx(v)}", ""]
    tab += ["/-- slice bounds, regenerated (ℕ arithmetic) -/"] + out_idx
    tab += ["/-- (operator, [row lo, row hi, col lo, col hi]) of the two assembly statements, in source order -/",
            "def assembly : List (String × List String) := [" + ", ".join(f'("{op}", {lean_str_list(sl)})' for op, sl in asm_rows) + "]",
            "def loops : List String := " + lean_str_list([lean_escape(ast.unparse(mainloop.target) + " in " + ast.unparse(mainloop.iter)),
                                                         lean_escape(ast.unparse(inner.target) + " in " + ast.unparse(inner.iter))]),
            "def perParticle : List String := " + lean_str_list([lean_escape(x) for x in pre]),
            "def pairArgs : List (String × String) := [" + ", ".join(f'("{k}", "{lean_escape(v)}")' for k, v in kws) + "]",
            f'def dudrsCall : String := "{lean_escape(ast.unparse(dud.value))}"',
            f'def pairMatrixCall : String := "{lean_escape(ast.unparse(pmcall.value))}"',
            f'def prefactorInit : String := "{lean_escape(ast.unparse(pfinit.value))}"',
            f'def hessianInit : String := "{lean_escape(ast.unparse(hinit.value))}"',
            f'def eigCall : String := "{lean_escape(ast.unparse(eig))}"',
            f'def prLoop : String := "{lean_escape(ast.unparse(prloop.target) + " in " + ast.unparse(prloop.iter) + ": " + ast.unparse(prloop.body[0]))}"',
            "def csvWrite : List String := " + lean_str_list([lean_escape(x) for x in csv]),
            "def saves : List String := " + lean_str_list([lean_escape(x).replace("\\n", " ; ") for x in saves]),
            ""]

    # ------------------------------------------------------------------ vector.py participation_ratio
    vsrc = read(repo, RELV)
    vt = ast.parse(vsrc)
    prf = find_func(vt, "participation_ratio")
    if [a.arg for a in prf.args.args] != ["vector"]:
        raise Unrecognised("participation_ratio parameters")
    tab += ["def participationRatio : List String := " + lean_str_list([lean_escape(ast.unparse(s)) for s in strip_doc(prf.body)]), "",
            "end Pms.Gen.HessTab"]
    out["real"] += ["end Pms.GenR.Hess", "end"]
    out["float"] += ["end Pms.Gen.HessF"]
    return [("Pms/GenR/Hess.lean", "\n".join(out["real"]) + "\n", [REL]),
            ("Pms/Gen/HessF.lean", "\n".join(out["float"]) + "\n", [REL]),
            ("Pms/Gen/HessTab.lean", "\n".join(tab) + "\n", [REL, RELV])]
