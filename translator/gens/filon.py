"""utils/fft.py Filon_COS -> generator "filon" (beyond the brief's list, see gens/extra.py)

Filon's quadrature of ∫ C(t) cos(ωt) dt: the coefficient formulas α(θ), β(θ), γ(θ), their θ = 0 branch, the end-point correction of
the even sum and the final combination are REGENERATED as terms; every other statement of the routine (odd-length trimming, default
frequency step, the rounded time step and its evenness test, the ranges of the even and odd sums, the division by π) is pinned as
text — a change of either kind breaks a proof obligation of `Pms/Props/Filon.lean`.

-> lean/Pms/GenR/Filon.lean  (terms over ℝ with Real.sin / Real.cos)
-> lean/Pms/Gen/FilonF.lean  (the same terms over Float for the driver op `filonf`)"""
import ast

from pms2lean import generator, Unrecognised, ExprPrinter, read, find_func, strip_doc

SRC = "PyMatterSim/utils/fft.py"


def is_log(st):
    return (isinstance(st, ast.Expr) and isinstance(st.value, ast.Call) and isinstance(st.value.func, ast.Attribute)
            and isinstance(st.value.func.value, ast.Name) and st.value.func.value.id == "logger")


def clean(stmts):
    return [st for st in strip_doc(stmts) if not is_log(st)]


def u(x):
    return ast.unparse(x)


class Subst(ast.NodeTransformer):
    """replace sub-expressions (given by their unparsed text) by names"""

    def __init__(self, table):
        self.table = table

    def visit(self, node):
        if isinstance(node, ast.expr):
            t = ast.unparse(node)
            if t in self.table:
                return ast.Name(id=self.table[t], ctx=ast.Load())
        return super().visit(node)


def expect(cond, what):
    if not cond:
        raise Unrecognised("Filon_COS: " + what)


def walk(tree):
    fn = find_func(tree, "Filon_COS")
    expect([a.arg for a in fn.args.args] == ["C", "t", "a", "outputfile"], "signature")
    expect([u(d) for d in fn.args.defaults] == ["0", "''"], "defaults")
    st = clean(fn.body)
    pinned = []
    expect(len(st) == 10, f"{len(st)} top-level statements")
    # 0: odd-length trimming
    s = st[0]
    expect(isinstance(s, ast.If) and u(s.test) == "len(C) % 2 == 0" and [u(x) for x in clean(s.body)] == ["C = C[:-1]", "t = t[:-1]"] and not s.orelse,
           "trimming of an even number of points")
    # 1: default frequency step
    s = st[1]
    expect(isinstance(s, ast.If) and u(s.test) == "a == 0" and [u(x) for x in s.body] == ["a = 2 * np.pi / t[-1]"] and not s.orelse, "default a")
    expect(u(st[2]) == "Nmax = len(C)", "Nmax")
    expect(u(st[3]) == "dt = round(t[1] - t[0], 3)", "dt")
    expect(isinstance(st[4], ast.If) and u(st[4].test) == "dt != round(t[-1] - t[-2], 3)" and isinstance(st[4].body[0], ast.Raise), "evenness test")
    expect(isinstance(st[5], ast.Assign) and u(st[5].targets[0]) == "results", "results frame")
    pinned += [u(x) for x in st[:6]]
    loop = st[6]
    expect(isinstance(loop, ast.For) and u(loop.target) == "n" and u(loop.iter) == "range(Nmax)", "frequency loop")
    b = clean(loop.body)
    expect(len(b) == 12, f"{len(b)} statements in the frequency loop")
    expect([u(x) for x in b[:5]] == ["omega = n * a", "results.iloc[n, 0] = omega", "theta = omega * dt", "theta2 = theta * theta",
                                     "theta3 = theta * theta2"], "omega / theta")
    br = b[5]
    expect(isinstance(br, ast.If) and u(br.test) == "theta == 0", "theta == 0 branch")
    zero, gen = {}, {}
    for dst, body in ((zero, br.body), (gen, br.orelse)):
        expect(len(body) == 3 and all(isinstance(x, ast.Assign) and len(x.targets) == 1 for x in body)
               and [u(x.targets[0]) for x in body] == ["alpha", "beta", "gamma"], "alpha, beta, gamma assignments")
        for x in body:
            dst[u(x.targets[0])] = x.value
    expect(u(b[6]) == "C_even = 0", "C_even init")
    ev = b[7]
    expect(isinstance(ev, ast.For) and u(ev.target) == "i" and u(ev.iter) == "range(0, Nmax, 2)"
           and [u(x) for x in ev.body] == ["C_even += C[i] * np.cos(omega * i * dt)"], "even sum")
    corr = b[8]
    expect(isinstance(corr, ast.AugAssign) and isinstance(corr.op, ast.Sub) and u(corr.target) == "C_even", "end-point correction")
    expect(u(b[9]) == "C_odd = 0", "C_odd init")
    od = b[10]
    expect(isinstance(od, ast.For) and u(od.target) == "i" and u(od.iter) == "range(1, Nmax - 1, 2)"
           and [u(x) for x in od.body] == ["C_odd += C[i] * np.cos(omega * i * dt)"], "odd sum")
    fin = b[11]
    expect(isinstance(fin, ast.Assign) and u(fin.targets[0]) == "results.iloc[n, 1]", "final assignment")
    expect(u(st[7]) == "results['FFT'] /= np.pi", "division by pi")
    expect(isinstance(st[8], ast.If) and u(st[8].test) == "outputfile", "output file")
    expect(u(st[9]) == "return results", "return")
    pinned += [u(b[k]) for k in (0, 1, 2, 3, 4, 6, 7, 9, 10)] + [u(st[7]), u(st[9])]
    sub = Subst({"C[-1]": "Clast", "C[0]": "Cfirst", "np.cos(omega * t[-1])": "cl", "np.cos(omega * t[0])": "c0",
                 "np.sin(omega * t[-1])": "sl", "np.sin(omega * t[0])": "s0"})
    corr_e = sub.visit(ast.parse(u(corr.value), mode="eval").body)
    fin_e = sub.visit(ast.parse(u(fin.value), mode="eval").body)
    return zero, gen, corr_e, fin_e, pinned


def lean_string(s):
    return '"' + s.replace("\\", "\\\\").replace('"', '\\"').replace("\n", "\\n") + '"'


@generator("filon")
def gen_filon(repo):
    zero, gen, corr_e, fin_e, pinned = walk(ast.parse(read(repo, SRC)))
    outs = []
    for mode, rel, ns, head in (("real", "Pms/GenR/Filon.lean", "Pms.GenR.Filon",
                                 "import Mathlib.Analysis.SpecialFunctions.Trigonometric.Basic\n"),
                                ("float", "Pms/Gen/FilonF.lean", "Pms.Gen.FilonF", "")):
        pr = ExprPrinter(mode, rename={"C_even": "Ceven", "C_odd": "Codd"})
        ty = pr.ty
        nc = "noncomputable " if mode == "real" else ""
        o = [head + "/-! REGENERATED by translator/gens/filon.py from " + SRC + " — do not edit -/",
             "set_option linter.unusedVariables false", f"namespace {ns}"]
        for k in ("alpha", "beta", "gamma"):
            o.append(f"/-- Filon_COS: `{k}` in the branch `theta == 0` -/\n{nc}def {k}0 : {ty} := {pr.p(zero[k])}")
            o.append(f"/-- Filon_COS: `{k}` for `theta != 0` -/\n{nc}def {k} (theta theta2 theta3 : {ty}) : {ty} := {pr.p(gen[k])}")
        o.append(f"/-- Filon_COS: what is subtracted from the even sum (`C_even -= …`), with C[-1], C[0], cos(ω t[-1]), cos(ω t[0]) as arguments -/\n"
                 f"{nc}def endCorr (Clast Cfirst cl c0 : {ty}) : {ty} := {pr.p(corr_e)}")
        o.append(f"/-- Filon_COS: the value stored per frequency (before the division by π) -/\n"
                 f"{nc}def comb (dt alpha beta gamma Clast Cfirst sl s0 Ceven Codd : {ty}) : {ty} := {pr.p(fin_e)}")
        if mode == "real":
            o.append("/-- every statement of the routine that is not one of the terms above, as text -/\ndef pinned : List String :=\n  ["
                     + ",\n   ".join(lean_string(x) for x in pinned) + "]")
        o.append(f"end {ns}")
        outs.append((rel, "\n\n".join(o) + "\n", [SRC]))
    return outs
