"""G7/G6 for C16 — PyMatterSim/utils/coarse_graining.py (+ funcs.py::grid_gaussian) -> lean/Pms/Gen/Coarse.lean (core only).

Regenerated, as shallow terms over ℕ/ℤ and an operation-polymorphic number type α:
  * gaussian_blurring: the `np.linspace` axes, the loop nests (order, ranges) with the `indice = …` expressions and
    the assigned grid point, the cut-off comparison, the three rank branches (deep, as text);
  * grid_gaussian: the weight formula;
  * time_average: frame interval, window length (`int(…)`, `round(…, k)`), number of results, window slice, reported
    middle index (`round(…)`, `//`);
  * spatial_average: neighbour slice bounds and the divisor; the surrounding statement shapes are validated
    (copy of the input, one `read_neighbors` per frame, accumulation from the un-averaged input).
Anything else raises Unrecognised (a broken tie, never a crash)."""
import ast
import re

from pms2lean import Unrecognised, find_func, generator, lean_escape, read, strip_doc

REL = "PyMatterSim/utils/coarse_graining.py"
REL_F = "PyMatterSim/utils/funcs.py"


def u(n):
    return ast.unparse(n)


def is_logger(st):
    return isinstance(st, ast.Expr) and isinstance(st.value, ast.Call) and u(st.value.func).startswith("logger.")


def body_of(fn):
    return [st for st in strip_doc(fn.body) if not is_logger(st)]


def params(fn):
    return [a.arg for a in fn.args.args]


# --------------------------------------------------------------------------- integer / field expression printer

class Num:
    """typed printer: kind 'int' (ℤ) or 'fld' (α).  `atoms` maps ast.unparse(text) -> (lean term, kind)."""

    def __init__(self, atoms):
        self.atoms = atoms

    def fld(self, tk):
        t, k = tk
        return t if k == "fld" else f"((({t}) : Int) : α)"

    def p(self, e):
        key = u(e)
        if key in self.atoms:
            return self.atoms[key]
        if isinstance(e, ast.Constant) and isinstance(e.value, int) and not isinstance(e.value, bool):
            return (f"({e.value} : Int)" if e.value >= 0 else f"(-{-e.value} : Int)"), "int"
        if isinstance(e, ast.Constant) and isinstance(e.value, float):
            from fractions import Fraction
            r = repr(e.value)
            if "e" in r or "n" in r:
                raise Unrecognised("float literal " + r)
            q = Fraction(r)
            return f"((({q.numerator} : Int) : α) / (({q.denominator} : Int) : α))", "fld"
        if isinstance(e, ast.UnaryOp) and isinstance(e.op, ast.USub):
            t, k = self.p(e.operand)
            return f"(-{t})", k
        if isinstance(e, ast.BinOp):
            a, b = self.p(e.left), self.p(e.right)
            if isinstance(e.op, (ast.Add, ast.Sub, ast.Mult)):
                op = {ast.Add: "+", ast.Sub: "-", ast.Mult: "*"}[type(e.op)]
                if a[1] == "int" and b[1] == "int":
                    return f"({a[0]} {op} {b[0]})", "int"
                return f"({self.fld(a)} {op} {self.fld(b)})", "fld"
            if isinstance(e.op, ast.Div):
                return f"({self.fld(a)} / {self.fld(b)})", "fld"
            if isinstance(e.op, ast.FloorDiv):
                if a[1] == "int" and isinstance(e.right, ast.Constant) and isinstance(e.right.value, int) and e.right.value > 0:
                    # Python floor division by a positive literal = Lean's Int `/` (Euclidean)
                    return f"({a[0]} / {b[0]})", "int"
                raise Unrecognised("floor division other than <int> // <positive literal>: " + key)
            raise Unrecognised("operator in " + key)
        if isinstance(e, ast.Call) and isinstance(e.func, ast.Name) and not e.keywords:
            if e.func.id == "int" and len(e.args) == 1:
                a = self.p(e.args[0])
                return (a if a[1] == "int" else (f"(trunc {a[0]})", "int"))
            if e.func.id == "round" and len(e.args) == 1:
                a = self.p(e.args[0])
                return (a if a[1] == "int" else (f"(rint {a[0]})", "int"))
            if e.func.id == "round" and len(e.args) == 2:
                k = e.args[1]
                if not (isinstance(k, ast.Constant) and isinstance(k.value, int) and 0 <= k.value <= 15):
                    raise Unrecognised("round(x, k) with non-literal k")
                a = self.p(e.args[0])
                if a[1] == "int":
                    return a
                ten = f"(((10 ^ {k.value} : Nat)) : α)"
                return f"((((rint ({a[0]} * {ten})) : Int) : α) / {ten})", "fld"
        raise Unrecognised("expression " + key)

    def int(self, e):
        t, k = self.p(e)
        if k != "int":
            raise Unrecognised("expected an integer expression: " + u(e))
        return t


class NatE:
    """expressions over ℕ built with + and * only (array indices)"""

    def __init__(self, atoms):
        self.atoms = atoms

    def p(self, e):
        key = u(e)
        if key in self.atoms:
            return self.atoms[key]
        if isinstance(e, ast.Constant) and isinstance(e.value, int) and not isinstance(e.value, bool) and e.value >= 0:
            return f"{e.value}"
        if isinstance(e, ast.BinOp) and isinstance(e.op, (ast.Add, ast.Mult)):
            op = "+" if isinstance(e.op, ast.Add) else "*"
            return f"({self.p(e.left)} {op} {self.p(e.right)})"
        raise Unrecognised("index expression " + key)


class Fld:
    """formula over α with parameters expf sqrtf pi"""

    def __init__(self, names):
        self.names = names

    def p(self, e):
        if isinstance(e, ast.Name) and e.id in self.names:
            return e.id
        if isinstance(e, ast.Constant) and isinstance(e.value, int) and not isinstance(e.value, bool) and e.value >= 0:
            return f"(({e.value} : Nat) : α)"
        if isinstance(e, ast.Attribute) and u(e) in ("np.pi", "numpy.pi", "math.pi"):
            return "pi"
        if isinstance(e, ast.UnaryOp) and isinstance(e.op, ast.USub):
            return f"(-{self.p(e.operand)})"
        if isinstance(e, ast.BinOp):
            if isinstance(e.op, ast.Pow):
                if isinstance(e.right, ast.Constant) and isinstance(e.right.value, int) and 1 <= e.right.value <= 6:
                    b = self.p(e.left)
                    return "(" + " * ".join([b] * e.right.value) + ")"
                raise Unrecognised("power " + u(e))
            op = {ast.Add: "+", ast.Sub: "-", ast.Mult: "*", ast.Div: "/"}.get(type(e.op))
            if op:
                return f"({self.p(e.left)} {op} {self.p(e.right)})"
        if isinstance(e, ast.Call) and len(e.args) == 1 and not e.keywords:
            f = u(e.func)
            a = self.p(e.args[0])
            if f == "np.exp":
                return f"(expf {a})"
            if f == "np.sqrt":
                return f"(sqrtf {a})"
            if f == "np.square":
                return f"({a} * {a})"
        raise Unrecognised("formula " + u(e))


# --------------------------------------------------------------------------- time_average

def gen_time(fn, out):
    if params(fn) != ["snapshots", "input_property", "time_period", "dt"]:
        raise Unrecognised(f"time_average parameters {params(fn)}")
    b = body_of(fn)
    if len(b) != 7:
        raise Unrecognised(f"time_average has {len(b)} statements")
    s0, s1, s2, s3, s4, s5, s6 = b
    atoms = {"snapshots.snapshots[1].timestep": ("t1", "fld"), "snapshots.snapshots[0].timestep": ("t0", "fld"),
             "dt": ("dt", "fld"), "time_period": ("time_period", "fld"), "time_interval": ("time_interval", "fld")}
    pr = Num(atoms)
    if not (isinstance(s0, ast.Assign) and u(s0.targets[0]) == "time_interval"):
        raise Unrecognised("time_interval assignment")
    ti = pr.fld(pr.p(s0.value))
    if not (isinstance(s1, ast.AugAssign) and u(s1.target) == "time_interval" and isinstance(s1.op, ast.Mult)):
        raise Unrecognised("time_interval *= dt")
    ti = f"({ti} * {pr.fld(pr.p(s1.value))})"
    if not (isinstance(s2, ast.Assign) and u(s2.targets[0]) == "time_nsnapshot"):
        raise Unrecognised("time_nsnapshot assignment")
    wl = pr.int(s2.value)
    # results = np.zeros((A, B), dtype=np.complex128)
    if not (isinstance(s3, ast.Assign) and u(s3.targets[0]) == "results" and isinstance(s3.value, ast.Call)
            and u(s3.value.func) == "np.zeros" and len(s3.value.args) == 1 and isinstance(s3.value.args[0], ast.Tuple)
            and len(s3.value.args[0].elts) == 2 and u(s3.value.args[0].elts[1]) == "snapshots.snapshots[0].nparticle"):
        raise Unrecognised("results allocation")
    pr2 = Num({"snapshots.nsnapshots": ("nsnapshots", "int"), "time_nsnapshot": ("w", "int"), "n": ("n", "int")})
    nres = pr2.int(s3.value.args[0].elts[0])
    if not (isinstance(s4, ast.Assign) and u(s4) == "results_middle_snapshots = []"):
        raise Unrecognised("results_middle_snapshots initialiser")
    if not (isinstance(s5, ast.For) and u(s5.target) == "n" and u(s5.iter) == "range(results.shape[0])" and len(s5.body) == 2 and not s5.orelse):
        raise Unrecognised("window loop header")
    a, m = s5.body
    if not (isinstance(a, ast.Assign) and u(a.targets[0]) == "results[n, :]" and isinstance(a.value, ast.Call)
            and isinstance(a.value.func, ast.Attribute) and a.value.func.attr == "mean" and not a.value.args
            and [(k.arg, u(k.value)) for k in a.value.keywords] == [("axis", "0")]):
        raise Unrecognised("window mean statement")
    sub = a.value.func.value
    if not (isinstance(sub, ast.Subscript) and u(sub.value) == "input_property" and isinstance(sub.slice, ast.Slice)
            and sub.slice.step is None and sub.slice.lower is not None and sub.slice.upper is not None):
        raise Unrecognised("window slice")
    lo, hi = pr2.int(sub.slice.lower), pr2.int(sub.slice.upper)
    if not (isinstance(m, ast.Expr) and isinstance(m.value, ast.Call) and u(m.value.func) == "results_middle_snapshots.append" and len(m.value.args) == 1):
        raise Unrecognised("middle index statement")
    mid = Num({"time_nsnapshot": ("w", "int"), "n": ("n", "int")}).int(m.value.args[0])
    if u(s6) != "return (results, np.array(results_middle_snapshots))":
        raise Unrecognised("time_average return: " + u(s6))
    out += [
        "/-! ### time_average -/",
        "section time",
        "variable {α : Type} [Add α] [Sub α] [Mul α] [Div α] [NatCast α] [IntCast α]",
        "/-- `time_interval` after `time_interval *= dt` -/",
        f"def timeInterval (t0 t1 dt : α) : α := {ti}",
        "/-- `time_nsnapshot`; `rint` = Python round-half-even, `trunc` = Python `int()` -/",
        f"def windowLen (rint trunc : α → Int) (time_period time_interval : α) : Int := {wl}",
        "end time",
        "/-- first dimension of `results` -/",
        f"def nResults (nsnapshots w : Int) : Int := {nres}",
        "/-- bounds of the slice `input_property[lo:hi]` whose mean is stored at `results[n]` -/",
        f"def sliceLo (n w : Int) : Int := {lo}",
        f"def sliceHi (n w : Int) : Int := {hi}",
        "/-- the appended middle-snapshot index; `rint` = Python `round` on a non-integer argument -/",
        f"def middle (rint : Rat → Int) (n w : Int) : Int := {mid.replace(': α)', ': Rat)')}",
        "",
    ]


# --------------------------------------------------------------------------- spatial_average

def gen_spatial(fn, out):
    if params(fn) != ["input_property", "neighborfile", "Nmax", "outputfile"]:
        raise Unrecognised(f"spatial_average parameters {params(fn)}")
    b = body_of(fn)
    if len(b) != 4:
        raise Unrecognised(f"spatial_average has {len(b)} statements")
    if u(b[0]) != "cg_input_property = np.copy(input_property)":
        raise Unrecognised("spatial_average: " + u(b[0]))
    w = b[1]
    if not (isinstance(w, ast.With) and len(w.items) == 1 and u(w.items[0].optional_vars) == "fneighbor"
            and u(w.items[0].context_expr.func) == "open" and u(w.items[0].context_expr.args[0]) == "neighborfile" and len(w.body) == 1):
        raise Unrecognised("spatial_average: with-open shape")
    fn_ = w.body[0]
    if not (isinstance(fn_, ast.For) and u(fn_.target) == "n" and u(fn_.iter) == "range(input_property.shape[0])" and len(fn_.body) == 2):
        raise Unrecognised("spatial_average: frame loop")
    rd, fi = fn_.body
    if u(rd) != "cnlist = read_neighbors(fneighbor, input_property.shape[1], Nmax)":
        raise Unrecognised("spatial_average: " + u(rd))
    if not (isinstance(fi, ast.For) and u(fi.target) == "i" and u(fi.iter) == "range(input_property.shape[1])" and len(fi.body) == 2):
        raise Unrecognised("spatial_average: particle loop")
    fj, dv = fi.body
    if not (isinstance(fj, ast.For) and u(fj.target) == "j" and len(fj.body) == 1 and isinstance(fj.iter, ast.Subscript)
            and u(fj.iter.value) == "cnlist" and isinstance(fj.iter.slice, ast.Tuple) and len(fj.iter.slice.elts) == 2
            and u(fj.iter.slice.elts[0]) == "i" and isinstance(fj.iter.slice.elts[1], ast.Slice) and fj.iter.slice.elts[1].step is None
            and fj.iter.slice.elts[1].lower is not None and fj.iter.slice.elts[1].upper is not None):
        raise Unrecognised("spatial_average: neighbour loop " + u(fj.iter))

    class RowNum(Num):
        def p(self, e):
            if isinstance(e, ast.Subscript) and u(e.value) == "cnlist" and isinstance(e.slice, ast.Tuple) and len(e.slice.elts) == 2 \
                    and u(e.slice.elts[0]) == "i" and isinstance(e.slice.elts[1], ast.Constant) and isinstance(e.slice.elts[1].value, int) \
                    and e.slice.elts[1].value >= 0:
                return f"(row {e.slice.elts[1].value})", "int"
            return super().p(e)
    pr = RowNum({})
    lo, hi = pr.int(fj.iter.slice.elts[1].lower), pr.int(fj.iter.slice.elts[1].upper)
    if u(fj.body[0]) != "cg_input_property[n, i] += input_property[n, j]":
        raise Unrecognised("spatial_average accumulation: " + u(fj.body[0]))
    if not (isinstance(dv, ast.AugAssign) and isinstance(dv.op, ast.Div) and u(dv.target) == "cg_input_property[n, i]"):
        raise Unrecognised("spatial_average division: " + u(dv))
    div = pr.int(dv.value)
    if not (isinstance(b[2], ast.If) and u(b[2].test) == "outputfile" and not b[2].orelse and len(b[2].body) == 1
            and u(b[2].body[0]) == "np.save(outputfile, cg_input_property)"):
        raise Unrecognised("spatial_average output statement")
    if u(b[3]) != "return cg_input_property":
        raise Unrecognised("spatial_average return")
    out += [
        "/-! ### spatial_average — `row k` is `cnlist[i, k]` -/",
        "/-- bounds of the neighbour slice `cnlist[i, lo:hi]` -/",
        f"def nbLo (row : Nat → Int) : Int := {lo}",
        f"def nbHi (row : Nat → Int) : Int := {hi}",
        "/-- the divisor of `cg_input_property[n, i] /= …` -/",
        f"def divisor (row : Nat → Int) : Int := {div}",
        "",
    ]


# --------------------------------------------------------------------------- gaussian_blurring

AX = ["X", "Y", "Z"]
NG = {f"ngrids[{k}]": f"n{k}" for k in range(3)}


def linspace_axis(st, name):
    if not (isinstance(st, ast.Assign) and u(st.targets[0]) == name and isinstance(st.value, ast.Call) and u(st.value.func) == "np.linspace"
            and len(st.value.args) == 3 and not st.value.keywords):
        raise Unrecognised(f"axis {name}: " + u(st))
    res = []
    for a in st.value.args[:2]:
        if not (isinstance(a, ast.Subscript) and u(a.value) == "bxobounds" and isinstance(a.slice, ast.Tuple) and len(a.slice.elts) == 2
                and all(isinstance(x, ast.Constant) and isinstance(x.value, int) and x.value >= 0 for x in a.slice.elts)):
            raise Unrecognised(f"axis {name} bound " + u(a))
        res.append(f"(bb {a.slice.elts[0].value} {a.slice.elts[1].value})")
    cnt = u(st.value.args[2])
    if cnt not in NG:
        raise Unrecognised(f"axis {name} count " + cnt)
    return f"linspace {res[0]} {res[1]} {NG[cnt]}"


def loop_nest(st, depth):
    """for v0 in range(ngrids[a]): for v1 … : indice = E ; grid_positions[n, indice] = [A[v]…]"""
    loops = []
    cur = st
    for _ in range(depth):
        if not (isinstance(cur, ast.For) and isinstance(cur.target, ast.Name) and not cur.orelse and isinstance(cur.iter, ast.Call)
                and u(cur.iter.func) == "range" and len(cur.iter.args) == 1 and u(cur.iter.args[0]) in NG):
            raise Unrecognised("grid loop header " + u(cur)[:60])
        loops.append((cur.target.id, NG[u(cur.iter.args[0])]))
        if len(loops) < depth:
            if len(cur.body) != 1:
                raise Unrecognised("grid loop body")
            cur = cur.body[0]
    if len({v for v, _ in loops}) != depth:
        raise Unrecognised("grid loop variables repeat")
    if len(cur.body) != 2:
        raise Unrecognised("innermost grid loop body")
    a, w = cur.body
    if not (isinstance(a, ast.Assign) and u(a.targets[0]) == "indice"):
        raise Unrecognised("indice assignment")
    atoms = dict(NG)
    atoms.update({v: v for v, _ in loops})
    idx = NatE(atoms).p(a.value)
    if not (isinstance(w, ast.Assign) and u(w.targets[0]) == "grid_positions[n, indice]" and isinstance(w.value, ast.List) and len(w.value.elts) == depth):
        raise Unrecognised("grid point assignment " + u(w))
    comps = []
    for e in w.value.elts:
        if not (isinstance(e, ast.Subscript) and u(e.value) in AX[:depth] and isinstance(e.slice, ast.Name) and e.slice.id in atoms):
            raise Unrecognised("grid point component " + u(e))
        comps.append(f"{u(e.value)} {e.slice.id}")
    return loops, idx, comps


def emit_grid(depth, loops, idx, comps, out):
    ns = " ".join(f"n{k}" for k in range(depth))
    vs = " ".join(v for v, _ in loops)
    axes = " ".join(AX[:depth])
    out.append(f"/-- `indice` of the {depth}-D branch -/")
    out.append(f"def indice{depth} ({ns} {vs} : Nat) : Nat := {idx}")
    pt = "fun c => " + " ".join(f"if c = {c} then {comps[c]} else" for c in range(depth - 1)) + f" {comps[depth - 1]}"
    out.append(f"/-- the point assigned to `grid_positions[n, indice]` (component c) -/")
    out.append(f"def point{depth} {{α : Type}} ({axes} : Nat → α) ({vs} : Nat) : Nat → α := {pt}")
    body = f"Pms.set acc (indice{depth} {ns} {vs}) (point{depth} {axes} {vs})"
    for v, n in reversed(loops):
        body = f"Pms.foldRange {n} (fun acc {v} => {body}) acc"
    # the outermost fold starts from acc0
    body = body[: -len(" acc")] + " acc0"
    out.append(f"/-- the {depth}-D loop nest filling `grid_positions[n]` (loop order and ranges as in the source) -/")
    out.append(f"def gridLoop{depth} {{α : Type}} ({ns} : Nat) ({axes} : Nat → α) (acc0 : Nat → Nat → α) : Nat → Nat → α :=")
    out.append(f"  {body}")
    out.append(f"def loopOrder{depth} : List (String × String) := [" + ", ".join(f'("{v}", "{n}")' for v, n in loops) + "]")
    out.append("")


def gen_blur(fn, gg, out):
    if params(fn) != ["snapshots", "condition", "ngrids", "sigma", "ppp", "gaussian_cut", "outputfile"]:
        raise Unrecognised(f"gaussian_blurring parameters {params(fn)}")
    b = body_of(fn)
    heads = [u(st).split("\n")[0] for st in b]
    if heads[0] != "ndim = len(ngrids)" or heads[1] != "ppp = ppp[:ndim]" \
            or heads[2] != "grid_positions = np.zeros((snapshots.nsnapshots, np.prod(ngrids), ndim))":
        raise Unrecognised("gaussian_blurring prologue: " + " | ".join(heads[:3]))
    loop = [st for st in b if isinstance(st, ast.For)]
    if len(loop) != 1 or u(loop[0].target) != "(n, snapshot)" or u(loop[0].iter) != "enumerate(snapshots.snapshots)":
        raise Unrecognised("gaussian_blurring frame loop")
    fb = [st for st in loop[0].body if not is_logger(st)]
    if len(fb) != 5 or u(fb[0]) != "bxobounds = snapshot.boxbounds":
        raise Unrecognised("gaussian_blurring frame body")
    axX, axY = linspace_axis(fb[1], "X"), linspace_axis(fb[2], "Y")
    br = fb[3]
    if not (isinstance(br, ast.If) and u(br.test) == "ndim == 2" and len(br.body) == 1 and len(br.orelse) == 2):
        raise Unrecognised("gaussian_blurring: ndim branch")
    axZ = linspace_axis(br.orelse[0], "Z")
    l2 = loop_nest(br.body[0], 2)
    l3 = loop_nest(br.orelse[1], 3)
    out += ["/-! ### gaussian_blurring -/",
            "/-- the grid axes: `linspace lo hi n i` is the contract of `np.linspace(lo, hi, n)[i]`; `bb` = `boxbounds` -/"]
    for nm, ax in zip(AX, (axX, axY, axZ)):
        out.append(f"def axis{nm} {{α : Type}} (linspace : α → α → Nat → Nat → α) (bb : Nat → Nat → α) (n0 n1 n2 : Nat) : Nat → α := {ax}")
    out.append("")
    emit_grid(2, *l2, out)
    emit_grid(3, *l3, out)
    # per grid point
    g = fb[4]
    if not (isinstance(g, ast.For) and u(g.target) == "i" and u(g.iter) == "range(grid_positions.shape[1])" and len(g.body) == 6):
        raise Unrecognised("gaussian_blurring: grid-point loop")
    want = ["RIJ = grid_positions[n, i] - snapshot.positions", "RIJ = remove_pbc(RIJ, snapshot.hmatrix, ppp=ppp)",
            "RIJ = np.linalg.norm(RIJ, axis=1)"]
    for st, wv in zip(g.body[:3], want):
        if u(st) != wv:
            raise Unrecognised("gaussian_blurring: expected `" + wv + "`, found `" + u(st) + "`")
    sel = g.body[3]
    if not (isinstance(sel, ast.Assign) and u(sel.targets[0]) == "selection" and isinstance(sel.value, ast.Compare) and len(sel.value.ops) == 1
            and u(sel.value.left) == "RIJ" and u(sel.value.comparators[0]) == "gaussian_cut"):
        raise Unrecognised("gaussian_blurring: selection " + u(sel))
    op = {ast.Lt: "<", ast.LtE: "≤", ast.Gt: ">", ast.GtE: "≥"}.get(type(sel.value.ops[0]))
    if op is None:
        raise Unrecognised("gaussian_blurring: selection operator")
    if u(g.body[4]) != "probability = grid_gaussian(RIJ[selection], sigma)":
        raise Unrecognised("gaussian_blurring: " + u(g.body[4]))
    out.append("/-- `selection = RIJ <op> gaussian_cut` for one particle -/")
    out.append(f"def selected {{α : Type}} [LT α] [LE α] [DecidableLT α] [DecidableLE α] (RIJ gaussian_cut : α) : Bool := decide (RIJ {op} gaussian_cut)")
    rows = []
    cur = g.body[5]
    while True:
        if not (isinstance(cur, ast.If) and len(cur.body) == 1 and isinstance(cur.body[0], ast.Assign) and u(cur.body[0].targets[0]) == "grid_property[n, i]"):
            raise Unrecognised("gaussian_blurring: rank branches")
        rows.append((u(cur.test), u(cur.body[0].value)))
        if len(cur.orelse) == 1 and isinstance(cur.orelse[0], ast.If):
            cur = cur.orelse[0]
            continue
        if len(cur.orelse) == 1 and isinstance(cur.orelse[0], ast.Assign) and u(cur.orelse[0].targets[0]) == "grid_property[n, i]":
            rows.append(("else", u(cur.orelse[0].value)))
            break
        raise Unrecognised("gaussian_blurring: rank branches (else)")
    out.append("/-- (test, value assigned to `grid_property[n, i]`) of the rank branches, in source order -/")
    out.append("def rankBranches : List (String × String) := [" + ", ".join('("%s", "%s")' % (lean_escape(a), lean_escape(v)) for a, v in rows) + "]")
    # how cal_type is derived
    ct = [st for st in b if isinstance(st, ast.If) and u(st.test).startswith("len(condition.shape)")]
    if len(ct) != 1:
        raise Unrecognised("gaussian_blurring: cal_type chain")
    crow, cur = [], ct[0]
    while isinstance(cur, ast.If):
        if len(cur.body) != 1:
            raise Unrecognised("cal_type chain body")
        crow.append((u(cur.test), u(cur.body[0])))
        if len(cur.orelse) == 1:
            nxt = cur.orelse[0]
            if isinstance(nxt, ast.If):
                cur = nxt
                continue
            crow.append(("else", u(nxt)))
        break
    out.append("def calType : List (String × String) := [" + ", ".join('("%s", "%s")' % (lean_escape(a), lean_escape(v)) for a, v in crow) + "]")
    out.append("")
    # grid_gaussian
    if params(gg) != ["distances", "sigma"]:
        raise Unrecognised(f"grid_gaussian parameters {params(gg)}")
    gb = body_of(gg)
    pr = Fld({"distances", "sigma"})
    lets = []
    for st in gb[:-1]:
        if not (isinstance(st, ast.Assign) and isinstance(st.targets[0], ast.Name)):
            raise Unrecognised("grid_gaussian statement " + u(st))
        lets.append((st.targets[0].id, pr.p(st.value)))
        pr.names.add(st.targets[0].id)
    if not isinstance(gb[-1], ast.Return):
        raise Unrecognised("grid_gaussian return")
    out.append("/-- funcs.py::grid_gaussian; `expf sqrtf pi` stand for np.exp, np.sqrt, np.pi -/")
    out.append("def gridGaussian {α : Type} [Add α] [Sub α] [Mul α] [Div α] [Neg α] [NatCast α] (expf sqrtf : α → α) (pi : α) (distances sigma : α) : α :=")
    for n, rhs in lets:
        out.append(f"  let {n} : α := {rhs}")
    out.append(f"  {pr.p(gb[-1].value)}")
    out.append("")


def _reference(name):
    """the section as regenerated from the repaired source (kept in translator/gens/coarse_reference.txt).  Used ONLY when
    the walker does not recognise the current source, so that the Lean project still builds; the run then reports
    `translator:coarse` as a broken tie and the failing-input search takes over."""
    import os
    with open(os.path.join(os.path.dirname(os.path.abspath(__file__)), "coarse_reference.txt")) as f:
        text = f.read()
    m = re.search(r"^-- BEGIN " + name + r"\n(.*?)^-- END " + name + r"\n", text, re.S | re.M)
    return m.group(1).split("\n")[:-1]


@generator("coarse")
def gen_coarse(repo):
    import os
    src = read(repo, REL)
    fsrc = read(repo, REL_F)
    head = ["import Pms.Model.Prelude",
            f"/-! REGENERATED by translator/gens/coarse.py from {REL} and {REL_F} — do not edit -/",
            "set_option linter.unusedVariables false", "namespace Pms.Gen.Coarse", ""]
    sections = [("time", lambda t, ft, o: gen_time(find_func(t, "time_average"), o)),
                ("spatial", lambda t, ft, o: gen_spatial(find_func(t, "spatial_average"), o)),
                ("blur", lambda t, ft, o: gen_blur(find_func(t, "gaussian_blurring"), find_func(ft, "grid_gaussian"), o))]
    errors, body = [], []
    try:
        tree, ftree = ast.parse(src), ast.parse(fsrc)
    except SyntaxError as e:
        tree = ftree = None
        errors.append(f"syntax error: {e}")
    for name, fn in sections:
        o = []
        try:
            if tree is None:
                raise Unrecognised("source does not parse")
            fn(tree, ftree, o)
        except Exception as e:  # noqa: BLE001 — any walker failure is an unrecognised shape
            errors.append(f"{name}: {type(e).__name__}: {e}")
            o = [f"-- section `{name}`: source shape NOT recognised; reference text (a broken tie is reported by the run)"] + _reference(name)
        body += [f"-- BEGIN {name}"] + o + [f"-- END {name}"]
    text = "\n".join(head + body + ["end Pms.Gen.Coarse"]) + "\n"
    if errors:
        # keep the Lean project buildable, then report the broken tie
        path = os.path.join(os.path.dirname(os.path.dirname(os.path.dirname(os.path.abspath(__file__)))), "lean", "Pms", "Gen", "Coarse.lean")
        old = open(path).read() if os.path.exists(path) else None
        if old != text:
            with open(path, "w") as f:
                f.write(text)
        raise Unrecognised("; ".join(errors))
    return [("Pms/Gen/Coarse.lean", text, [REL, REL_F])]
