"""EXTRA (beyond the listed properties): the three other routines of utils/wavevector.py -> Pms/Gen/WaveX.lean (core only).

`wavevector3d` / `wavevector2d`: the loop nest (every loop `range(numofq)`), the sum of squares `d`, the membership test
`d in wavenumber` with `wavenumber = np.square(np.arange(numofq))`, the appended row, the number of leading entries dropped from
the ravelled array, the reshape width and the sort column are DATA the model interprets; everything else must be the expected text.
`continuousvector`: the loop nests per dimension (bounds in terms of ±nhalf, row), the other statements as text.
Anything else raises Unrecognised."""
import ast

from pms2lean import generator, Unrecognised, read, find_func, strip_doc, lean_escape

WV = "PyMatterSim/utils/wavevector.py"


def q(s):
    return '"' + lean_escape(s) + '"'


def is_logger(st):
    return isinstance(st, ast.Expr) and isinstance(st.value, ast.Call) and ast.unparse(st.value.func).startswith("logger.")


def range_numofq(node):
    return (isinstance(node, ast.Call) and ast.unparse(node.func) == "range" and len(node.args) == 1 and not node.keywords
            and isinstance(node.args[0], ast.Name) and node.args[0].id == "numofq")


def walk_sqtable(fn):
    name = fn.name
    if [a.arg for a in fn.args.args] != ["numofq"]:
        raise Unrecognised(f"{name}: parameters")
    body = [st for st in strip_doc(fn.body) if not is_logger(st)]
    if len(body) != 6:
        raise Unrecognised(f"{name}: {len(body)} statements, expected 6")
    if ast.unparse(body[0]) != "wavenumber = np.square(np.arange(numofq))":
        raise Unrecognised(f"{name}: set of squares: {ast.unparse(body[0])[:80]}")
    if ast.unparse(body[1]) != "wavevector = []":
        raise Unrecognised(f"{name}: accumulator")
    names, node = [], body[2]
    while isinstance(node, ast.For):
        if not (isinstance(node.target, ast.Name) and range_numofq(node.iter) and not node.orelse):
            raise Unrecognised(f"{name}: loop header {ast.unparse(node.target)} in {ast.unparse(node.iter)}")
        names.append(node.target.id)
        if len(node.body) == 1 and isinstance(node.body[0], ast.For):
            node = node.body[0]
        else:
            break
    inner = node.body
    if len(set(names)) != len(names) or not names:
        raise Unrecognised(f"{name}: loop variables")
    if not (len(inner) == 2 and isinstance(inner[0], ast.Assign) and ast.unparse(inner[0].targets[0]) == "d"):
        raise Unrecognised(f"{name}: innermost statements")

    def squares(e):
        if isinstance(e, ast.BinOp) and isinstance(e.op, ast.Add):
            return squares(e.left) + squares(e.right)
        if isinstance(e, ast.BinOp) and isinstance(e.op, ast.Pow) and isinstance(e.left, ast.Name) and e.left.id in names \
                and isinstance(e.right, ast.Constant) and e.right.value == 2 and isinstance(e.right.value, int):
            return [names.index(e.left.id)]
        raise Unrecognised(f"{name}: sum of squares " + ast.unparse(e)[:60])
    sq = squares(inner[0].value)
    t = inner[1]
    if not (isinstance(t, ast.If) and not t.orelse and len(t.body) == 1 and ast.unparse(t.test) == "d in wavenumber"):
        raise Unrecognised(f"{name}: membership test")
    ap = t.body[0]
    if not (isinstance(ap, ast.Expr) and isinstance(ap.value, ast.Call) and ast.unparse(ap.value.func) == "wavevector.append"
            and len(ap.value.args) == 1 and isinstance(ap.value.args[0], ast.Call) and ast.unparse(ap.value.args[0].func) == "np.array"
            and len(ap.value.args[0].args) == 1 and not ap.value.args[0].keywords and isinstance(ap.value.args[0].args[0], ast.List)):
        raise Unrecognised(f"{name}: append")
    row = []
    for e in ap.value.args[0].args[0].elts:
        if isinstance(e, ast.Name) and e.id == "d":
            row.append("none")
        elif isinstance(e, ast.Name) and e.id in names:
            row.append(f"some {names.index(e.id)}")
        else:
            raise Unrecognised(f"{name}: row entry {ast.unparse(e)}")
    # wavevector = np.ravel(np.array(wavevector))[K:].reshape((-1, W))
    st = body[3]
    ok = False
    if isinstance(st, ast.Assign) and ast.unparse(st.targets[0]) == "wavevector" and isinstance(st.value, ast.Call) \
            and isinstance(st.value.func, ast.Attribute) and st.value.func.attr == "reshape" and len(st.value.args) == 1:
        shp, sub = st.value.args[0], st.value.func.value
        if isinstance(shp, ast.Tuple) and len(shp.elts) == 2 and ast.unparse(shp.elts[0]) == "-1" and isinstance(shp.elts[1], ast.Constant) \
                and isinstance(shp.elts[1].value, int) and isinstance(sub, ast.Subscript) \
                and ast.unparse(sub.value) == "np.ravel(np.array(wavevector))" and isinstance(sub.slice, ast.Slice) \
                and isinstance(sub.slice.lower, ast.Constant) and isinstance(sub.slice.lower.value, int) and sub.slice.lower.value >= 0 \
                and sub.slice.upper is None and sub.slice.step is None:
            drop, width, ok = sub.slice.lower.value, shp.elts[1].value, True
    if not ok:
        raise Unrecognised(f"{name}: ravel/drop/reshape statement {ast.unparse(st)[:100]}")
    # wavevector = wavevector[wavevector[:, C].argsort()]
    st = body[4]
    ok = False
    if isinstance(st, ast.Assign) and ast.unparse(st.targets[0]) == "wavevector" and isinstance(st.value, ast.Subscript) \
            and ast.unparse(st.value.value) == "wavevector" and isinstance(st.value.slice, ast.Call) \
            and isinstance(st.value.slice.func, ast.Attribute) and st.value.slice.func.attr == "argsort" and not st.value.slice.args \
            and not st.value.slice.keywords:
        col = st.value.slice.func.value
        if isinstance(col, ast.Subscript) and ast.unparse(col.value) == "wavevector" and isinstance(col.slice, ast.Tuple) \
                and len(col.slice.elts) == 2 and ast.unparse(col.slice.elts[0]) == ":" and isinstance(col.slice.elts[1], ast.Constant) \
                and isinstance(col.slice.elts[1].value, int) and col.slice.elts[1].value >= 0:
            sortcol, ok = col.slice.elts[1].value, True
    if not ok:
        raise Unrecognised(f"{name}: sort statement {ast.unparse(st)[:100]}")
    if ast.unparse(body[5]) != "return np.array(wavevector)":
        raise Unrecognised(f"{name}: return statement")
    return (f"  {{ name := {q(name)}, nvars := {len(names)}, squares := {sq}, row := [{', '.join(row)}],\n"
            f"    drop := {drop}, width := {width}, sortCol := {sortcol} }}")


def bound(node, var="nhalf"):
    if isinstance(node, ast.Name) and node.id == var:
        return "Bnd.pos"
    if isinstance(node, ast.UnaryOp) and isinstance(node.op, ast.USub) and isinstance(node.operand, ast.Name) and node.operand.id == var:
        return "Bnd.neg"
    if isinstance(node, ast.Constant) and node.value == 0 and isinstance(node.value, int):
        return "Bnd.zero"
    raise Unrecognised("loop bound " + ast.unparse(node)[:40])


def walk_cont(ifnode, ndim):
    body = list(ifnode.body)
    if len(body) != 2 or ast.unparse(body[0]) != "index = 0":
        raise Unrecognised(f"continuousvector ndim {ndim}: block shape")
    loops, node = [], body[1]
    while isinstance(node, ast.For):
        if not (isinstance(node.target, ast.Name) and isinstance(node.iter, ast.Call) and ast.unparse(node.iter.func) == "range"
                and len(node.iter.args) == 2 and not node.iter.keywords and not node.orelse):
            raise Unrecognised(f"continuousvector ndim {ndim}: loop shape")
        loops.append((node.target.id, bound(node.iter.args[0]), bound(node.iter.args[1])))
        if len(node.body) == 1 and isinstance(node.body[0], ast.For):
            node = node.body[0]
        else:
            break
    names = [l[0] for l in loops]
    if len(set(names)) != len(names):
        raise Unrecognised("repeated loop variable")
    inner = node.body
    if not (len(inner) == 2 and isinstance(inner[0], ast.Assign) and ast.unparse(inner[0].targets[0]) == "qvectors[index]"
            and isinstance(inner[0].value, ast.List) and all(isinstance(x, ast.Name) and x.id in names for x in inner[0].value.elts)
            and ast.unparse(inner[1]) == "index += 1"):
        raise Unrecognised(f"continuousvector ndim {ndim}: innermost statements")
    row = [names.index(x.id) for x in inner[0].value.elts]
    ltxt = ", ".join(f"({lo}, {hi})" for _, lo, hi in loops)
    return f"  {{ ndim := {ndim}, loops := [{ltxt}], row := {row} }}"


@generator("wavex")
def gen_wavex(repo):
    src = read(repo, WV)
    tree = ast.parse(src)
    tables = [walk_sqtable(find_func(tree, n)) for n in ("wavevector3d", "wavevector2d")]
    fn = find_func(tree, "continuousvector")
    if [a.arg for a in fn.args.args] != ["ndim", "numofq", "onlypositive"] or \
            [ast.unparse(d) for d in fn.args.defaults] != ["100", "False"]:
        raise Unrecognised("continuousvector parameters / defaults")
    branches, other = [], []
    for st in strip_doc(fn.body):
        if is_logger(st):
            continue
        if isinstance(st, ast.If) and isinstance(st.test, ast.Compare) and ast.unparse(st.test.left) == "ndim" and len(st.test.ops) == 1 \
                and isinstance(st.test.ops[0], ast.Eq) and isinstance(st.test.comparators[0], ast.Constant) and not st.orelse:
            branches.append(walk_cont(st, st.test.comparators[0].value))
        else:
            other.append(ast.unparse(st))
    out = ["import Pms.Model.WaveX", f"/-! REGENERATED by translator/gens/wavex.py from {WV} — do not edit -/",
           "namespace Pms.Gen.WaveX", "open Pms.Wave Pms.WaveX", "",
           "/-- `wavevector3d`, `wavevector2d`: depth of the loop nest (every loop is `range(numofq)`), loop variables squared and summed",
           "into `d`, the appended row (`none` = d), entries dropped from the ravelled array, reshape width, sort column -/",
           "def tables : List SqTable := [", ",\n".join(tables) + "]", "",
           "/-- one entry per `if ndim == d:` block of continuousvector: loop bounds (±nhalf) and the row written at `index` -/",
           "def contBranches : List CBranch := [", ",\n".join(branches) + "]", "",
           "/-- every other statement of continuousvector, unparsed, in order -/",
           "def contFrame : List String := [\n  " + ",\n  ".join(q(t) for t in other) + "]", "",
           "end Pms.Gen.WaveX"]
    return [("Pms/Gen/WaveX.lean", "\n".join(out) + "\n", [WV])]
