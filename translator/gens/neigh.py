"""C05: regenerates the discrete constants of calculate_neighbors.py (argpartition index, slice bounds,
drop index, id offset, comparison operators, cn expression) as Pms/Gen/Neigh.lean.  The statement sequence of
each per-centre loop body is matched exactly; anything else raises Unrecognised."""
import ast

from pms2lean import generator, Unrecognised, read, find_func

SRC = "PyMatterSim/neighbors/calculate_neighbors.py"


def nat_expr(e, var="N"):
    """a natural-number expression in `N` (Python ints → Lean Nat; `-` is truncated like the slices it feeds)"""
    if isinstance(e, ast.Constant) and isinstance(e.value, int) and not isinstance(e.value, bool) and e.value >= 0:
        return str(e.value)
    if isinstance(e, ast.Name) and e.id == var:
        return var
    if isinstance(e, ast.BinOp) and isinstance(e.op, (ast.Add, ast.Sub, ast.Mult)):
        op = {ast.Add: "+", ast.Sub: "-", ast.Mult: "*"}[type(e.op)]
        return f"({nat_expr(e.left, var)} {op} {nat_expr(e.right, var)})"
    raise Unrecognised(f"not a Nat expression in {var}: {ast.unparse(e)}")


def const_nat(e):
    if isinstance(e, ast.Constant) and isinstance(e.value, int) and not isinstance(e.value, bool) and e.value >= 0:
        return e.value
    raise Unrecognised(f"expected a non-negative literal: {ast.unparse(e)}")


def loops(fn):
    """the `for snapshot …` loop and inside it the `for i in range(nparticle)` loop"""
    outer = [s for s in fn.body if isinstance(s, ast.For) and ast.unparse(s.iter) == "snapshots.snapshots"]
    if len(outer) != 1:
        raise Unrecognised(f"{fn.name}: snapshot loop")
    inner = [s for s in outer[0].body if isinstance(s, ast.For) and ast.unparse(s.iter) == "range(nparticle)"
             and ast.unparse(s.target) == "i"]
    if len(inner) != 1:
        raise Unrecognised(f"{fn.name}: particle loop")
    return outer[0], inner[0]


def expect(stmt, text, where):
    if ast.unparse(stmt) != text:
        raise Unrecognised(f"{where}: expected `{text}`, found `{ast.unparse(stmt)}`")


GEOM = ["RIJ = positions - positions[i]", "RIJ = remove_pbc(RIJ, hmatrix, ppp)", "RIJ_norm = np.linalg.norm(RIJ, axis=1)"]
SORT = "nearests = nearests[RIJ_norm[nearests].argsort()]"
CMP = {ast.LtE: "LtE", ast.Lt: "Lt", ast.GtE: "GtE", ast.Gt: "Gt", ast.Eq: "Eq", ast.NotEq: "NotEq"}


def drop_off(value, where):
    """`nearests[D:] + O` → (D, O)"""
    if not (isinstance(value, ast.BinOp) and isinstance(value.op, ast.Add) and isinstance(value.left, ast.Subscript)
            and ast.unparse(value.left.value) == "nearests" and isinstance(value.left.slice, ast.Slice)
            and value.left.slice.upper is None and value.left.slice.step is None and value.left.slice.lower is not None):
        raise Unrecognised(f"{where}: expected `nearests[D:] + O`, found `{ast.unparse(value)}`")
    return const_nat(value.left.slice.lower), const_nat(value.right)


def nn_part(fn):
    outer, inner = loops(fn)
    pre = [ast.unparse(s) for s in outer.body if not isinstance(s, (ast.For, ast.Expr))]
    for need in ("neighbor = np.zeros((nparticle, 2 + N), dtype=np.int32)", "neighbor[:, 0] = np.arange(nparticle) + 1"):
        if need not in pre:
            raise Unrecognised(f"Nnearests: missing `{need}`")
    cn = [s for s in outer.body if isinstance(s, ast.Assign) and ast.unparse(s.targets[0]) == "neighbor[:, 1]"]
    if len(cn) != 1:
        raise Unrecognised("Nnearests: cn column")
    body = inner.body
    if len(body) != 6:
        raise Unrecognised(f"Nnearests: loop body has {len(body)} statements")
    for s, t in zip(body[:3], GEOM):
        expect(s, t, "Nnearests")
    expect(body[4], SORT, "Nnearests")
    a = body[3]
    v = a.value if isinstance(a, ast.Assign) else None
    if not (v is not None and ast.unparse(a.targets[0]) == "nearests" and isinstance(v, ast.Subscript) and isinstance(v.slice, ast.Slice)
            and v.slice.lower is None and v.slice.step is None and v.slice.upper is not None and isinstance(v.value, ast.Call)
            and ast.unparse(v.value.func) == "np.argpartition" and len(v.value.args) == 2 and not v.value.keywords
            and ast.unparse(v.value.args[0]) == "RIJ_norm"):
        raise Unrecognised(f"Nnearests: expected `nearests = np.argpartition(RIJ_norm, K)[:T]`, found `{ast.unparse(a)}`")
    w = body[5]
    if not (isinstance(w, ast.Assign) and ast.unparse(w.targets[0]) == "neighbor[i, 2:]"):
        raise Unrecognised(f"Nnearests: expected `neighbor[i, 2:] = …`, found `{ast.unparse(w)}`")
    d, o = drop_off(w.value, "Nnearests")
    return {"nnKth": nat_expr(v.value.args[1]), "nnTake": nat_expr(v.slice.upper), "nnCn": nat_expr(cn[0].value),
            "nnDrop": d, "nnIdOff": o}


def cut_part(fn, prefix, mask_kind):
    outer, inner = loops(fn)
    pre = [ast.unparse(s) for s in outer.body if not isinstance(s, ast.For)]
    if "neighbor = np.arange(nparticle).astype(np.int32)" not in pre:
        raise Unrecognised(f"{fn.name}: index array")
    body = inner.body
    k = 3
    for s, t in zip(body[:3], GEOM):
        expect(s, t, fn.name)
    if mask_kind == "type":
        expect(body[3], "i_cutoffs = cutoffs[particle_type[i] - 1]", fn.name)
        k = 4
    if len(body) != k + 7:
        raise Unrecognised(f"{fn.name}: loop body has {len(body)} statements")
    m = body[k]
    v = m.value if isinstance(m, ast.Assign) else None
    if not (v is not None and ast.unparse(m.targets[0]) == "nearests" and isinstance(v, ast.Subscript)
            and ast.unparse(v.value) == "neighbor" and isinstance(v.slice, ast.Compare) and len(v.slice.ops) == 1):
        raise Unrecognised(f"{fn.name}: mask selection `{ast.unparse(m)}`")
    c = v.slice
    lhs, rhs = ast.unparse(c.left), ast.unparse(c.comparators[0])
    want = ("RIJ_norm", "r_cut") if mask_kind == "global" else ("RIJ_norm - i_cutoffs", "0")
    if (lhs, rhs) != want or type(c.ops[0]) not in CMP:
        raise Unrecognised(f"{fn.name}: mask `{ast.unparse(c)}`")
    cn = body[k + 1]
    if not (isinstance(cn, ast.Assign) and ast.unparse(cn.targets[0]) == "CN" and isinstance(cn.value, ast.BinOp)
            and isinstance(cn.value.op, ast.Sub) and ast.unparse(cn.value.left) == "nearests.shape[0]"):
        raise Unrecognised(f"{fn.name}: CN `{ast.unparse(cn)}`")
    expect(body[k + 2], SORT, fn.name)
    w = body[k + 3]
    if not (isinstance(w, ast.Assign) and ast.unparse(w.targets[0]) == "nearests"):
        raise Unrecognised(f"{fn.name}: `{ast.unparse(w)}`")
    d, o = drop_off(w.value, fn.name)
    expect(body[k + 4], "fneighbor.write('%d %d ' % (i + 1, CN))", fn.name)
    expect(body[k + 5], "fneighbor.write(' '.join(map(str, nearests)))", fn.name)
    expect(body[k + 6], "fneighbor.write('\\n')", fn.name)
    out = {prefix + "Cmp": f"\"{CMP[type(c.ops[0])]}\"", prefix + "CnMinus": const_nat(cn.value.right), prefix + "Drop": d, prefix + "IdOff": o}
    if mask_kind == "type":
        # the cutoff table: row = first index, column = the neighbour's type, built from THIS snapshot's types
        tab = [s for s in outer.body if isinstance(s, ast.For) and ast.unparse(s.iter) == "range(cutoffs.shape[0])"]
        if len(tab) != 1 or ast.unparse(tab[0].body[0].body[0]) != "cutoffs[i, j] = r_cut[i, particle_type[j] - 1]":
            raise Unrecognised(f"{fn.name}: cutoff table is not `cutoffs[i, j] = r_cut[i, particle_type[j] - 1]` per snapshot")
    return out


@generator("neigh")
def gen_neigh(repo):
    text = read(repo, SRC)
    tree = ast.parse(text)
    vals = {}
    vals.update(nn_part(find_func(tree, "Nnearests")))
    vals.update(cut_part(find_func(tree, "cutoffneighbors"), "cut", "global"))
    vals.update(cut_part(find_func(tree, "cutoffneighbors_particletype"), "ctype", "type"))
    L = ["/-! GENERATED by translator/gens/neigh.py from " + SRC + " — do not edit.",
         "The discrete constants of the three neighbour routines, as written in the source. -/",
         "namespace Pms.Gen.Neigh", "",
         "/-- `np.argpartition(RIJ_norm, nnKth N)` -/", f"def nnKth (N : Nat) : Nat := {vals['nnKth']}",
         "/-- `[:nnTake N]` -/", f"def nnTake (N : Nat) : Nat := {vals['nnTake']}",
         "/-- `neighbor[:, 1] = nnCn N` -/", f"def nnCn (N : Nat) : Nat := {vals['nnCn']}",
         "/-- `neighbor[i, 2:] = nearests[nnDrop:] + nnIdOff` -/", f"def nnDrop : Nat := {vals['nnDrop']}", f"def nnIdOff : Nat := {vals['nnIdOff']}"]
    for p, what in (("cut", "cutoffneighbors: `neighbor[RIJ_norm <cmp> r_cut]`"), ("ctype", "cutoffneighbors_particletype: `neighbor[(RIJ_norm - i_cutoffs) <cmp> 0]`")):
        L += [f"/-- {what}, `CN = nearests.shape[0] - CnMinus`, `nearests[Drop:] + IdOff` -/",
              f"def {p}Cmp : String := {vals[p + 'Cmp']}", f"def {p}CnMinus : Nat := {vals[p + 'CnMinus']}",
              f"def {p}Drop : Nat := {vals[p + 'Drop']}", f"def {p}IdOff : Nat := {vals[p + 'IdOff']}"]
    L += ["", "end Pms.Gen.Neigh", ""]
    return [("Pms/Gen/Neigh.lean", "\n".join(L), [SRC])]
