"""Utilities outside the 20 properties (beyond the brief's list — the model keeps growing): generator "extra"

  PyMatterSim/utils/geometry.py  lines_intersection (D, Px, Py), triangle_angle (cos_theta), triangle_area (p, S² radicand)
  PyMatterSim/utils/funcs.py     Legendre_polynomials, moment_of_inertia (entry expression, divisor, returned order), kronecker

-> lean/Pms/GenR/Extra.lean  (terms over an arbitrary field K, theorems in Pms/Props/Extra.lean)
-> lean/Pms/Gen/ExtraF.lean  (the same terms over Float, evaluated by the driver op `extraf` for the numeric validation)
A source shape the walker does not know raises Unrecognised."""
import ast

from pms2lean import generator, Unrecognised, ExprPrinter, read, find_func, strip_doc

GEO = "PyMatterSim/utils/geometry.py"
FUN = "PyMatterSim/utils/funcs.py"


def is_log(st):
    return (isinstance(st, ast.Expr) and isinstance(st.value, ast.Call) and isinstance(st.value.func, ast.Attribute)
            and isinstance(st.value.func.value, ast.Name) and st.value.func.value.id == "logger")


def body(fn):
    return [st for st in strip_doc(fn.body) if not is_log(st)]


def intersection(tree):
    fn = find_func(tree, "lines_intersection")
    st = body(fn)
    # four unpackings x_k, y_k = P_k
    names = []
    for k in range(4):
        s = st[k]
        if not (isinstance(s, ast.Assign) and isinstance(s.targets[0], ast.Tuple) and len(s.targets[0].elts) == 2
                and isinstance(s.value, ast.Name) and s.value.id == f"P{k + 1}"):
            raise Unrecognised("lines_intersection unpacking " + ast.unparse(s))
        names += [e.id for e in s.targets[0].elts]
    if names != ["x1", "y1", "x2", "y2", "x3", "y3", "x4", "y4"]:
        raise Unrecognised(f"lines_intersection names {names}")
    rest = st[4:]
    shape = [ast.unparse(s) if not isinstance(s, ast.Assign) else s.targets[0].id for s in rest]
    if not (len(rest) == 6 and isinstance(rest[0], ast.Assign) and rest[0].targets[0].id == "D"
            and isinstance(rest[1], ast.Assign) and rest[1].targets[0].id == "Px"
            and isinstance(rest[2], ast.AugAssign) and isinstance(rest[2].op, ast.Div) and ast.unparse(rest[2]) == "Px /= D"
            and isinstance(rest[3], ast.Assign) and rest[3].targets[0].id == "Py"
            and isinstance(rest[4], ast.AugAssign) and ast.unparse(rest[4]) == "Py /= D"
            and ast.unparse(rest[5]) == "return np.array([Px, Py])"):
        raise Unrecognised(f"lines_intersection statements {shape}")
    return {"D": rest[0].value, "PxNum": rest[1].value, "PyNum": rest[3].value}


def tri_angle(tree):
    fn = find_func(tree, "triangle_angle")
    st = body(fn)
    if not (len(st) == 2 and isinstance(st[0], ast.Assign) and st[0].targets[0].id == "cos_theta"
            and ast.unparse(st[1]) == "return np.arccos(cos_theta)" and [a.arg for a in fn.args.args] == ["a", "b", "c"]):
        raise Unrecognised("triangle_angle shape")
    return st[0].value


def tri_area(tree):
    fn = find_func(tree, "triangle_area")
    st = body(fn)
    txt = [ast.unparse(s) for s in st]
    want_prefix = ["point1 = positions[0]", "point2 = positions[1]", "point3 = positions[2]",
                   "R12 = remove_pbc(point1 - point2, hmatrix, ppp)", "R12 = np.linalg.norm(R12)",
                   "R13 = remove_pbc(point1 - point3, hmatrix, ppp)", "R13 = np.linalg.norm(R13)",
                   "R23 = remove_pbc(point2 - point3, hmatrix, ppp)", "R23 = np.linalg.norm(R23)"]
    if txt[:9] != want_prefix or len(st) != 12 or txt[11] != "return S":
        raise Unrecognised(f"triangle_area statements {txt}")
    p, S = st[9], st[10]
    if not (isinstance(p, ast.Assign) and p.targets[0].id == "p" and isinstance(S, ast.Assign) and S.targets[0].id == "S"
            and isinstance(S.value, ast.Call) and ast.unparse(S.value.func) == "np.sqrt" and len(S.value.args) == 1):
        raise Unrecognised("triangle_area p / S")
    return p.value, S.value.args[0]


def legendre(tree):
    fn = find_func(tree, "Legendre_polynomials")
    st = body(fn)
    if not (len(st) == 1 and isinstance(st[0], ast.Return) and [a.arg for a in fn.args.args] == ["x", "ndim"]):
        raise Unrecognised("Legendre_polynomials shape")
    return st[0].value


def inertia(tree):
    fn = find_func(tree, "moment_of_inertia")
    st = body(fn)
    txt = [ast.unparse(s) for s in st]
    want = ["Iij = np.zeros((3, 3))", "distance2 = np.square(positions).sum(axis=1)"]
    if txt[:2] != want or not isinstance(st[2], ast.For) or txt[3] != "Iij /= positions.shape[0]" or not isinstance(st[4], ast.If):
        raise Unrecognised(f"moment_of_inertia statements {txt}")
    outer = st[2]
    if not (ast.unparse(outer.iter) == "range(3)" and outer.target.id == "i" and len(outer.body) == 1 and isinstance(outer.body[0], ast.For)
            and ast.unparse(outer.body[0].iter) == "range(3)" and outer.body[0].target.id == "j" and len(outer.body[0].body) == 1):
        raise Unrecognised("moment_of_inertia loops")
    asg = outer.body[0].body[0]
    if ast.unparse(asg) != "Iij[i, j] = m * (distance2 * kronecker(i, j) - positions[:, i] * positions[:, j]).sum()":
        raise Unrecognised("moment_of_inertia entry: " + ast.unparse(asg))
    ret = st[4]
    if not (ast.unparse(ret.test) == "matrix" and ast.unparse(ret.body[0]) == "return Iij" and len(ret.orelse) == 1
            and isinstance(ret.orelse[0], ast.Return)):
        raise Unrecognised("moment_of_inertia return")
    arr = ret.orelse[0].value
    if not (isinstance(arr, ast.Call) and ast.unparse(arr.func) == "np.array" and isinstance(arr.args[0], ast.List)):
        raise Unrecognised("moment_of_inertia vector return")
    order = []
    for e in arr.args[0].elts:
        if not (isinstance(e, ast.Subscript) and ast.unparse(e.value) == "Iij" and isinstance(e.slice, ast.Tuple)):
            raise Unrecognised("moment_of_inertia vector entry")
        order.append(tuple(int(ast.unparse(x)) for x in e.slice.elts))
    kron = find_func(tree, "kronecker")
    if ast.unparse(body(kron)[0]) != "return int(i == j)":
        raise Unrecognised("kronecker")
    return order


@generator("extra")
def gen_extra(repo):
    g = ast.parse(read(repo, GEO))
    f = ast.parse(read(repo, FUN))
    li = intersection(g)
    ang = tri_angle(g)
    p_e, rad_e = tri_area(g)
    leg = legendre(f)
    order = inertia(f)
    outs = []
    for mode, rel, ns, head in (("field", "Pms/GenR/Extra.lean", "Pms.GenR.Extra", "import Mathlib.Algebra.Field.Basic\n"),
                                ("float", "Pms/Gen/ExtraF.lean", "Pms.Gen.ExtraF", "")):
        pr = ExprPrinter(mode, rename={"ndim": "nd"})
        ty = pr.ty
        var = "variable {K : Type} [Field K]\n" if mode == "field" else ""
        o = [head + "/-! REGENERATED by translator/gens/extra.py from " + GEO + " and " + FUN + " — do not edit -/",
             "set_option linter.unusedVariables false", f"namespace {ns}", var]
        a8 = f"(x1 y1 x2 y2 x3 y3 x4 y4 : {ty})"
        o.append(f"/-- lines_intersection: `D` -/\ndef li_D {a8} : {ty} := {pr.p(li['D'])}")
        o.append(f"/-- lines_intersection: `Px` before `Px /= D` -/\ndef li_PxNum {a8} : {ty} := {pr.p(li['PxNum'])}")
        o.append(f"/-- lines_intersection: `Py` before `Py /= D` -/\ndef li_PyNum {a8} : {ty} := {pr.p(li['PyNum'])}")
        o.append(f"/-- triangle_angle: `cos_theta` -/\ndef ta_cos (a b c : {ty}) : {ty} := {pr.p(ang)}")
        pr2 = ExprPrinter(mode)
        o.append(f"/-- triangle_area: `p` -/\ndef tr_p (R12 R13 R23 : {ty}) : {ty} := {pr2.p(p_e)}")
        o.append(f"/-- triangle_area: the argument of np.sqrt -/\ndef tr_rad (p R12 R13 R23 : {ty}) : {ty} := {pr2.p(rad_e)}")
        o.append(f"/-- Legendre_polynomials(x, ndim) -/\ndef legendre2 (x nd : {ty}) : {ty} := {pr.p(leg)}")
        if mode == "field":
            o.append("/-- moment_of_inertia: order of the returned vector (row, column) -/\ndef inertiaOrder : List (Nat × Nat) := ["
                     + ", ".join(f"({a}, {b})" for a, b in order) + "]")
        o.append(f"end {ns}")
        outs.append((rel, "\n\n".join(o) + "\n", [GEO, FUN]))
    return outs
